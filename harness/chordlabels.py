"""Chord-label pool, transposition / respelling of labels and keys (shared by props/c11.py and props/c09.py).

Nothing here calls a comparison function; `encode` of the real library is used only to (a) keep the
encodable labels and (b) produce the (root, bitmap, bass) triples that are sent to the Lean model.
"""
import functools

import mir_eval.chord

# the alternation of CHORD_RE (26 shorthands; aug7 and maj11 are grammar-valid but not encodable)
SHORTHANDS = ["maj", "min", "dim", "aug", "1", "5", "sus2", "sus4", "maj6", "min6", "7", "maj7", "min7",
              "dim7", "hdim7", "minmaj7", "aug7", "9", "maj9", "min9", "11", "maj11", "min11", "13",
              "maj13", "min13"]
LETTER = {"C": 0, "D": 2, "E": 4, "F": 5, "G": 7, "A": 9, "B": 11}
SHARP_NAMES = ["C", "C#", "D", "D#", "E", "F", "F#", "G", "G#", "A", "A#", "B"]
FLAT_NAMES = ["C", "Db", "D", "Eb", "E", "F", "Gb", "G", "Ab", "A", "Bb", "B"]
# exotic but grammar-valid spellings of each pitch class
ODD_NAMES = ["B#", "B##", "C##", "Fbb", "Fb", "E#", "E##", "Abb", "Bbbb", "G##", "Cbb", "Cb"]
SPELLINGS = [SHARP_NAMES, FLAT_NAMES, ODD_NAMES]
BASS_DEGREES = ["b2", "2", "b3", "3", "4", "b5", "5", "#5", "6", "b7", "7"]      # semitones 1..11
DEGREE_SEMITONE = {"1": 0, "2": 2, "3": 4, "4": 5, "5": 7, "6": 9, "7": 11, "8": 12, "9": 14, "10": 16,
                   "11": 17, "12": 19, "13": 21}
ADDED = ["b7", "2", "#4", "6", "9", "b3", "7", "#5"]
OMITTED = ["*3", "*b3", "*5", "*1", "*b7", "*7"]
POOL_ROOTS = ["C", "F#", "Bb", "E", "Db"]

MAJ = [1, 0, 0, 0, 1, 0, 0, 1, 0, 0, 0, 0]
MIN = [1, 0, 0, 1, 0, 0, 0, 1, 0, 0, 0, 0]
SEVENTH_BITMAPS = [MAJ, MIN,
                   [1, 0, 0, 0, 1, 0, 0, 1, 0, 0, 0, 1],     # maj7
                   [1, 0, 0, 0, 1, 0, 0, 1, 0, 0, 1, 0],     # 7
                   [1, 0, 0, 1, 0, 0, 0, 1, 0, 0, 1, 0]]     # min7

RULES = ["thirds", "thirds_inv", "triads", "triads_inv", "tetrads", "tetrads_inv", "root", "mirex",
         "majmin", "majmin_inv", "sevenths", "sevenths_inv"]


def rule_fn(name):
    return getattr(mir_eval.chord, name)


def root_semitone(root):
    s = LETTER[root[0]]
    for ch in root[1:]:
        s += 1 if ch == "#" else -1
    return s % 12


def split_root(label):
    """'F#:min7/b3' -> ('F#', ':min7/b3'); N / X -> (None, label)."""
    if label in ("N", "X"):
        return None, label
    i = 1
    while i < len(label) and label[i] in "#b":
        i += 1
    return label[:i], label[i:]


def degree_semitone(deg):
    """semitone of a scale degree such as 'b7' (independent of the library's table)"""
    off = 0
    while deg and deg[0] in "#b":
        off += 1 if deg[0] == "#" else -1
        deg = deg[1:]
    return DEGREE_SEMITONE[deg] + off


def bass_semitone(label):
    """relative semitone (mod 12) of the bass of a label, 0 when there is no '/' part; None for N / X"""
    if label in ("N", "X"):
        return None
    if "/" not in label:
        return 0
    return degree_semitone(label.split("/")[1]) % 12


def transpose_label(label, k, spelling=0):
    root, rest = split_root(label)
    if root is None:
        return label
    return SPELLINGS[spelling % 3][(root_semitone(root) + k) % 12] + rest


def respell_label(label, spelling):
    return transpose_label(label, 0, spelling)


@functools.lru_cache(maxsize=None)
def enc(label):
    """(root, bitmap, bass) of the real encoder as plain ints, or None when the label is not encodable"""
    try:
        r, bm, b = mir_eval.chord.encode(label)
    except mir_eval.chord.InvalidChordException:
        return None
    return (int(r), tuple(int(x) for x in bm), int(b))


@functools.lru_cache(maxsize=None)
def enc_arg(label):
    """protocol argument for one encoded label (shared, read-only list)"""
    r, bm, b = enc(label)
    return [r, list(bm), b]


@functools.lru_cache(maxsize=None)
def pool():
    """A few thousand grammar-valid, encodable labels:
    every shorthand (and the bare-root / degree-list-only forms) x POOL_ROOTS x
    {no bass, each of the 11 bass degrees (chord tones and non chord tones)} x {no degrees, one added, one omitted}
    + N + X + enharmonic respellings."""
    out = ["N", "X"]
    n = 0
    for root in POOL_ROOTS:
        bodies = [""] + [":" + s for s in SHORTHANDS]
        for body in bodies:
            for bass in [None] + BASS_DEGREES:
                for dv in range(3):
                    n += 1
                    if dv == 0:
                        b = body
                    else:
                        d = ADDED[n % len(ADDED)] if dv == 1 else OMITTED[n % len(OMITTED)]
                        b = (body if body else ":") + "(" + d + ")"
                    lab = root + b + ("/" + bass if bass else "")
                    out.append(lab)
    # two-degree lists and respellings of a subset
    for root in POOL_ROOTS[:2]:
        for extra in [":(3,5)", ":(b3,5)", ":(3,5,b7)", ":maj(*3,4)", ":min7(*5,b6)", ":7(#9,*5)/b7"]:
            out.append(root + extra)
    base = list(out)
    for i, lab in enumerate(base):
        if i % 7 == 0 and lab not in ("N", "X"):
            out.append(respell_label(lab, 1 + i % 2))
            out.append(respell_label(lab, 2))
    seen, res = set(), []
    for lab in out:
        if lab in seen:
            continue
        seen.add(lab)
        if mir_eval.chord.CHORD_RE.match(lab) and enc(lab) is not None:
            res.append(lab)
    return tuple(res)


@functools.lru_cache(maxsize=None)
def pool_by_root():
    d = {}
    for lab in pool():
        e = enc(lab)
        d.setdefault(e[0], []).append(lab)
    return d


@functools.lru_cache(maxsize=None)
def distinct_encodings():
    """one representative label per distinct encoding"""
    seen, res = set(), []
    for lab in pool():
        e = enc(lab)
        if e not in seen:
            seen.add(e)
            res.append(lab)
    return tuple(res)


def draw_pair(rng):
    """(ref, est): estimates share the reference root often enough for the rules to be non-trivial"""
    p = pool()
    ref = p[rng.randrange(len(p))]
    u = rng.random()
    if u < 0.45:
        same = pool_by_root()[enc(ref)[0]]
        est = same[rng.randrange(len(same))]
    elif u < 0.55:
        est = respell_label(ref, rng.randrange(3))
    elif u < 0.65:
        est = rng.choice(["N", "X", ref])
    else:
        est = p[rng.randrange(len(p))]
    return ref, est


# ----------------------------------------------------------------------------------------------------
# keys

KEY_NAMES = ["C", "C#", "Db", "D", "D#", "Eb", "E", "F", "F#", "Gb", "G", "G#", "Ab", "A", "A#", "Bb", "B"]
KEY_SEMITONE = {"C": 0, "C#": 1, "Db": 1, "D": 2, "D#": 3, "Eb": 3, "E": 4, "F": 5, "F#": 6, "Gb": 6, "G": 7,
                "G#": 8, "Ab": 8, "A": 9, "A#": 10, "Bb": 10, "B": 11}
KEY_SHARP = ["C", "C#", "D", "D#", "E", "F", "F#", "G", "G#", "A", "A#", "B"]
KEY_FLAT = ["C", "Db", "D", "Eb", "E", "F", "Gb", "G", "Ab", "A", "Bb", "B"]
MODES = ["major", "minor", "other"]


def case_variants(name):
    vs = {name, name.lower(), name.upper(), name[0].lower() + name[1:].upper()}
    return sorted(vs)


@functools.lru_cache(maxsize=None)
def all_keys():
    """every valid key string: 17 spellings x case variants x 3 modes, plus X / x"""
    out = ["X", "x"]
    for nm in KEY_NAMES:
        for v in case_variants(nm):
            for m in MODES:
                out.append(v + " " + m)
    return tuple(out)


def key_parts(key):
    """(semitone | None, mode | None) computed independently of the library"""
    if key.lower() == "x":
        return None, None
    nm, mode = key.split()
    nm = nm[0].upper() + nm[1:].lower()
    return KEY_SEMITONE[nm], mode


def transpose_key(key, k, flats=False):
    s, mode = key_parts(key)
    if s is None:
        return key
    return (KEY_FLAT if flats else KEY_SHARP)[(s + k) % 12] + " " + mode


def key_table(ref, est):
    """The documented relationship table for major / minor / X keys (None when a mode is 'other')."""
    rs, rm = key_parts(ref)
    es, em = key_parts(est)
    if rs is None and es is None:
        return 1.0
    if rs is None or es is None:
        return 0.0
    if "other" in (rm, em):
        return None
    d = (es - rs) % 12
    if d == 0 and rm == em:
        return 1.0
    if d == 7 and rm == em:
        return 0.5
    if (rm, em, d) in (("major", "minor", 9), ("minor", "major", 3)):
        return 0.3
    if d == 0:
        return 0.2
    return 0.0
