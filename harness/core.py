"""Orchestration shared by all property checks (DESIGN.md §2.2).

translate -> build & audit -> correspondence -> property oracle -> verdict -> evidence.

A property module (harness/props/cXX.py) provides

  PID            "C05"
  LEAN_MODULES   ["MirProofs.Props.C05"]      modules whose `theorem`s are the obligations
  SUITES         {name: gen}                   correspondence suites; gen(rng, tier, shard, nshards) yields Case
  CHECKERS       {site: fn(input) -> None|str} the property itself, on ONE json input, on the real code
  ORACLES        {site: gen}                   gen(rng, tier, shard, nshards, boost) yields json inputs for CHECKERS[site]
  UNPROVED       [str]                         planned-but-unproved sub-claims (listed in evidence)
  ASSUMPTIONS    [str]
  RULE           str                           how cases are generated / what is non-trivial
  classify(suite, case_info) -> (site, input) | None   optional: map a disagreeing case to an oracle input
"""
import fcntl
import hashlib
import importlib
import json
import multiprocessing
import os
import random
import re
import subprocess
import sys
import time
import traceback

HARNESS = os.path.dirname(os.path.abspath(__file__))
VERIF = os.path.dirname(HARNESS)
LEAN = os.path.join(VERIF, "lean")
WORK = os.path.join(VERIF, ".work")
REPO = os.environ.get("MIR_EVAL_REPO", "/repo")
DRIVER = os.path.join(LEAN, ".lake", "build", "bin", "mirdriver")
ALLOWED_AXIOMS = {"propext", "Classical.choice", "Quot.sound"}
FORBIDDEN = re.compile(
    r"\bsorry\b|\badmit\b|^\s*axiom\s|native_decide|bv_decide|implemented_by|\bunsafe\s|maxHeartbeats\s+0\b",
    re.M)

sys.path.insert(0, HARNESS)
if REPO not in sys.path:
    sys.path.insert(0, REPO)

import proto  # noqa: E402


class ToolError(Exception):
    pass


class Case:
    """One correspondence case: the same input for the model (op,args) and the code (call)."""
    __slots__ = ("op", "args", "call", "tol", "tag", "info", "nontrivial", "post")

    def __init__(self, op, args, call, tol=1e-9, tag="", info=None, nontrivial=True, post=None):
        self.op = op            # driver function name
        self.args = args        # list of python values (Fractions / str / list / None / bool)
        self.call = call        # () -> implementation result (any exception is classified)
        self.tol = tol
        self.tag = tag          # input-distribution bucket
        self.info = info        # json-able description (for replay files)
        self.nontrivial = nontrivial
        self.post = post        # optional (model_value) -> model_value applied before comparison


# ----------------------------------------------------------------------------------------
# small utilities

def log(msg):
    sys.stderr.write("[check] %s\n" % msg)
    sys.stderr.flush()


def derive_seed(*parts):
    h = hashlib.sha256(("|".join(str(p) for p in parts)).encode()).digest()
    return int.from_bytes(h[:8], "big")


def ensure_repo_import():
    import mir_eval
    f = os.path.realpath(mir_eval.__file__)
    if not f.startswith(os.path.realpath(REPO) + os.sep):
        raise ToolError("mir_eval imported from %s, not from %s" % (f, REPO))
    return f


def strip_lean_comments(src):
    out = []
    i, n, depth = 0, len(src), 0
    while i < n:
        if src.startswith("/-", i):
            depth += 1
            i += 2
        elif depth and src.startswith("-/", i):
            depth -= 1
            i += 2
        elif depth:
            if src[i] == "\n":
                out.append("\n")
            i += 1
        elif src.startswith("--", i):
            while i < n and src[i] != "\n":
                i += 1
        elif src[i] == '"':
            j = i + 1
            while j < n and src[j] != '"':
                j += 2 if src[j] == "\\" else 1
            out.append('""')
            i = j + 1
        else:
            out.append(src[i])
            i += 1
    return "".join(out)


def lean_sources():
    files = [os.path.join(LEAN, "Main.lean")]
    for top in ("MirModel", "MirGen", "MirProofs"):
        f = os.path.join(LEAN, top + ".lean")
        if os.path.exists(f):
            files.append(f)
        for root, _, names in os.walk(os.path.join(LEAN, top)):
            for nm in sorted(names):
                if nm.endswith(".lean"):
                    files.append(os.path.join(root, nm))
    return files


def module_file(mod):
    return os.path.join(LEAN, *mod.split(".")) + ".lean"


def theorems_in(mod):
    """Fully qualified names of the theorems declared in a Props module (namespace tracking)."""
    src = strip_lean_comments(open(module_file(mod)).read())
    names, ns = [], []
    for line in src.split("\n"):
        m = re.match(r"\s*namespace\s+(\S+)", line)
        if m:
            ns.append(m.group(1))
            continue
        m = re.match(r"\s*end\s+(\S+)\s*$", line)
        if m and ns and ns[-1].split(".")[-1] == m.group(1).split(".")[-1]:
            ns.pop()
            continue
        m = re.match(r"\s*(?:@\[[^\]]*\]\s*)*(?:private\s+|protected\s+)?theorem\s+([^\s:({\[]+)", line)
        if m:
            nm = m.group(1)
            if nm.startswith("_root_."):
                names.append(nm[len("_root_."):])
            else:
                names.append(".".join(ns + [nm]))
    return names


# ----------------------------------------------------------------------------------------
# translate + build + audit

class BuildReport:
    def __init__(self):
        self.ok = True
        self.broken = []          # list of {"kind","name","detail"}
        self.theorems = []        # audited theorem names
        self.axioms = {}          # name -> [axioms]
        self.gen_obligations = [] # names of generated obligations (translator level)
        self.checker_cmd = ""
        self.wall = 0.0


def run_translator(report, parts=None):
    """Regenerate lean/MirGen/*.lean from REPO's working tree (content-addressed writes)."""
    try:
        from translate import regenerate
    except ImportError:
        return
    try:
        obligations, problems = regenerate(REPO, os.path.join(LEAN, "MirGen"), only=parts)
        report.gen_obligations = obligations
        for p in problems:
            report.ok = False
            report.broken.append({"kind": "translator", "name": p["name"], "detail": p["detail"]})
    except Exception as e:  # translator crashed: the tie is broken, not a tool error
        report.ok = False
        report.broken.append({"kind": "translator", "name": "translate.regenerate",
                              "detail": "".join(traceback.format_exception_only(type(e), e)).strip()})


def lake(args, timeout=3000):
    env = dict(os.environ)
    env.pop("LEAN_PATH", None)
    return subprocess.run(["lake"] + args, cwd=LEAN, stdout=subprocess.PIPE, stderr=subprocess.STDOUT,
                          text=True, timeout=timeout, env=env)


def build_and_audit(mod, tier):
    report = BuildReport()
    t0 = time.time()
    os.makedirs(WORK, exist_ok=True)
    lock = open(os.path.join(WORK, "build.lock"), "w")
    fcntl.flock(lock, fcntl.LOCK_EX)
    try:
        run_translator(report, list(getattr(mod, "TRANSLATOR_PARTS", [])))
        targets = ["MirModel", "MirGen", "mirdriver"] + list(mod.LEAN_MODULES)
        report.checker_cmd = "cd lean && lake build " + " ".join(targets) + \
            " && lake env lean <generated #print axioms file>"
        r = lake(["build"] + targets)
        if r.returncode != 0:
            # which modules failed?  which theorem is nearest to each error?
            report.ok = False
            errs = re.findall(r"^error: ([^\n]*?\.lean):(\d+):(\d+): ([^\n]*)", r.stdout, re.M)
            seen = set()
            for f, ln, col, msg in errs:
                path = f if os.path.isabs(f) else os.path.join(LEAN, f)
                thm = nearest_decl(path, int(ln))
                key = (f, thm)
                if key in seen:
                    continue
                seen.add(key)
                report.broken.append({"kind": "lean", "name": "%s: %s" % (f, thm),
                                      "detail": msg[:300]})
            if not errs:
                report.broken.append({"kind": "lean", "name": "lake build", "detail": r.stdout[-1500:]})
            if not os.path.exists(DRIVER):
                report.broken.append({"kind": "lean", "name": "mirdriver", "detail": "driver not built"})
        # forbidden constructs
        for f in lean_sources():
            src = strip_lean_comments(open(f).read())
            m = FORBIDDEN.search(src)
            if m:
                report.ok = False
                report.broken.append({"kind": "audit", "name": os.path.relpath(f, LEAN),
                                      "detail": "forbidden construct %r" % m.group(0).strip()})
        # axioms audit of every theorem in the property's Props modules
        thms = []
        for lm in mod.LEAN_MODULES:
            if os.path.exists(module_file(lm)):
                thms += theorems_in(lm)
        report.theorems = thms
        if thms and r.returncode == 0:
            audit = os.path.join(WORK, "audit_%s.lean" % mod.PID)
            with open(audit, "w") as fh:
                for lm in mod.LEAN_MODULES:
                    fh.write("import %s\n" % lm)
                for t in thms:
                    fh.write("#print axioms %s\n" % t)
            ra = lake(["env", "lean", audit])
            out = ra.stdout
            for t in thms:
                m = re.search(r"'%s' depends on axioms: \[([^\]]*)\]" % re.escape(t), out, re.S)
                if m:
                    ax = [a.strip() for a in m.group(1).replace("\n", " ").split(",") if a.strip()]
                elif re.search(r"'%s' does not depend on any axioms" % re.escape(t), out):
                    ax = []
                else:
                    report.ok = False
                    report.broken.append({"kind": "audit", "name": t, "detail": "no #print axioms output: " + out[-300:]})
                    continue
                report.axioms[t] = ax
                bad = [a for a in ax if a not in ALLOWED_AXIOMS]
                if bad:
                    report.ok = False
                    report.broken.append({"kind": "audit", "name": t, "detail": "axioms %s" % bad})
        if tier == "thorough" and r.returncode == 0 and mod.LEAN_MODULES:
            rc = lake(["env", "leanchecker"] + list(mod.LEAN_MODULES), timeout=3000)
            if rc.returncode != 0:
                report.ok = False
                report.broken.append({"kind": "leanchecker", "name": " ".join(mod.LEAN_MODULES),
                                      "detail": rc.stdout[-500:]})
            report.checker_cmd += " && lake env leanchecker " + " ".join(mod.LEAN_MODULES)
    finally:
        fcntl.flock(lock, fcntl.LOCK_UN)
        lock.close()
    report.wall = time.time() - t0
    return report


def nearest_decl(path, line):
    try:
        lines = open(path).read().split("\n")
    except OSError:
        return "?"
    for i in range(min(line, len(lines)) - 1, -1, -1):
        m = re.match(r"\s*(?:@\[[^\]]*\]\s*)*(?:private\s+|protected\s+)?(theorem|lemma|def|example|instance|abbrev)\s+([^\s:({\[]*)", lines[i])
        if m:
            return "%s %s" % (m.group(1), m.group(2))
    return "?"


# ----------------------------------------------------------------------------------------
# correspondence

def run_driver(lines):
    if not os.path.exists(DRIVER):
        raise ToolError("driver missing")
    p = subprocess.run([DRIVER], input="".join(lines), stdout=subprocess.PIPE, stderr=subprocess.PIPE,
                       text=True, timeout=3000)
    if p.returncode != 0:
        raise ToolError("driver exit %d: %s" % (p.returncode, p.stderr[-500:]))
    return p.stdout.split("\n")


def impl_result(call):
    import warnings
    try:
        with warnings.catch_warnings():
            warnings.simplefilter("ignore")
            return proto.canon(call())
    except Exception as e:  # noqa: BLE001 - classified, never swallowed
        return proto.classify_exc(e)


RECYCLE_EVERY = int(os.environ.get('VERIF_RECYCLE_EVERY', '8'))      # every 8th correspondence case runs the real code on recycled argument objects (harness/recycle.py)


def impl_result_at(call, index):
    """the implementation's result for correspondence case number `index`: every RECYCLE_EVERY-th case (when the plain call
    is fast) is computed through argument objects that an earlier call on a variant already received, updated in place"""
    if index % RECYCLE_EVERY != 3:
        return impl_result(call)
    t0 = time.time()
    iv = impl_result(call)
    if time.time() - t0 > 0.25:
        return iv
    import recycle

    def recycled():
        with recycle.recycling(recycle.mode_for(index // RECYCLE_EVERY)):
            return call()
    return impl_result(recycled)


def _suite_job(job):
    pid, modname, suite, tier, seed, shard, nshards = job
    try:
        mod = importlib.import_module(modname)
        gen = mod.SUITES[suite]
        rng = random.Random(derive_seed(seed, pid, suite, shard))
        t0 = time.time()
        cases = list(gen(rng, tier, shard, nshards))
        lines = ["%d %s %s\n" % (i, c.op, " ".join(proto.enc(a) for a in c.args)) for i, c in enumerate(cases)]
        outs = run_driver(lines) if cases else []
        tags, distinct, nontrivial = {}, set(), set()
        disagreements, samples, errkinds = [], [], {}
        for i, c in enumerate(cases):
            cid, mv = proto.dec_line(outs[i])
            assert cid == str(i), "driver answered out of order"
            if c.post is not None and not isinstance(mv, proto.Err):
                mv = c.post(mv)
            iv = impl_result_at(c.call, i)
            h = hashlib.blake2b(lines[i].split(" ", 1)[1].encode(), digest_size=8).digest()
            distinct.add(h)
            if c.nontrivial:
                nontrivial.add(h)
            tags[c.tag] = tags.get(c.tag, 0) + 1
            k = iv.cls if isinstance(iv, proto.Err) else "ok"
            errkinds[k] = errkinds.get(k, 0) + 1
            d = proto.match(mv, iv, c.tol)
            if d is not None:
                if len(disagreements) < 20:
                    disagreements.append({"suite": suite, "locator": {"suite": suite, "tier": tier, "seed": seed,
                                                                      "shard": shard, "nshards": nshards, "index": i},
                                          "op": c.op, "args": proto.jsonable(c.args),
                                          "info": proto.jsonable(c.info), "diff": d, "recycled_objects": i % RECYCLE_EVERY == 3,
                                          "model": proto.jsonable(mv), "impl": proto.jsonable(iv)})
                else:
                    disagreements.append(None)
            elif len(samples) < 2:
                samples.append({"suite": suite, "op": c.op, "args": proto.jsonable(c.args),
                                "result": proto.jsonable(iv)})
        return {"suite": suite, "shard": shard, "n": len(cases), "tags": tags, "distinct": distinct,
                "nontrivial": nontrivial, "disagreements": disagreements, "samples": samples,
                "errkinds": errkinds, "wall": time.time() - t0, "error": None}
    except ToolError as e:
        return {"suite": suite, "shard": shard, "error": "tool: %s" % e}
    except Exception:  # noqa: BLE001
        return {"suite": suite, "shard": shard, "error": traceback.format_exc()}


def raised_through_repo(e):
    """does the traceback of `e` contain a frame of the code under test (a file under REPO)?"""
    root = os.path.realpath(REPO) + os.sep
    tb = e.__traceback__
    while tb is not None:
        if os.path.realpath(tb.tb_frame.f_code.co_filename).startswith(root):
            return True
        tb = tb.tb_next
    return False


def _oracle_job(job):
    pid, modname, site, tier, seed, shard, nshards, boost = job
    try:
        mod = importlib.import_module(modname)
        gen = mod.ORACLES[site]
        chk = mod.CHECKERS[site]
        rng = random.Random(derive_seed(seed, pid, "oracle", site, shard))
        n, failures, samples, distinct = 0, [], [], set()
        t0 = time.time()
        import warnings
        for inp in gen(rng, tier, shard, nshards, boost):
            n += 1
            distinct.add(hashlib.blake2b(json.dumps(proto.jsonable(inp), sort_keys=True).encode(), digest_size=8).digest())
            with warnings.catch_warnings():
                warnings.simplefilter("ignore")
                try:
                    what = chk(inp)
                except Exception as e:  # noqa: BLE001
                    # an exception that travelled through the code under test (a frame under REPO) and escaped the
                    # checker is an observation about the code on this input, not a harness failure
                    if not raised_through_repo(e):
                        raise
                    what = "the code under test raised %s: %s (escaped the property checker)" % (
                        type(e).__name__, str(e)[:200])
            if what is not None:
                if len(failures) < 50:
                    failures.append({"site": site, "input": proto.jsonable(inp), "what": what})
            elif len(samples) < 1:
                samples.append({"site": site, "input": proto.jsonable(inp)})
        return {"site": site, "shard": shard, "n": n, "failures": failures, "samples": samples,
                "distinct": distinct, "wall": time.time() - t0, "error": None}
    except Exception:  # noqa: BLE001
        return {"site": site, "shard": shard, "error": traceback.format_exc()}


def replay_case(mod, loc):
    """Regenerate one correspondence case from its locator and re-run both sides -> None | difference"""
    gen = mod.SUITES[loc["suite"]]
    rng = random.Random(derive_seed(loc["seed"], mod.PID, loc["suite"], loc["shard"]))
    for i, c in enumerate(gen(rng, loc["tier"], loc["shard"], loc["nshards"])):
        if i == loc["index"]:
            out = run_driver(["0 %s %s\n" % (c.op, " ".join(proto.enc(a) for a in c.args))])
            _, mv = proto.dec_line(out[0])
            if c.post is not None and not isinstance(mv, proto.Err):
                mv = c.post(mv)
            iv = impl_result_at(c.call, i)
            d = proto.match(mv, iv, c.tol)
            if d is None:
                return None
            return "%s %s: model (the executable definition) and code disagree%s: %s" % (
                loc["suite"], c.op, " (code called on recycled argument objects)" if i % RECYCLE_EVERY == 3 else "", d)
    return "case not regenerated (generator changed?)"


def _top(d, n):
    """keep the n largest buckets of a histogram, fold the rest into one entry"""
    if len(d) <= n:
        return d
    items = sorted(d.items(), key=lambda kv: -kv[1])
    out = dict(items[:n])
    out["(other %d buckets)" % (len(items) - n)] = sum(v for _, v in items[n:])
    return out


def nshards_for(tier):
    return 8 if tier == "quick" else 16


def pool_map(fn, jobs):
    if not jobs:
        return []
    ctx = multiprocessing.get_context("fork")
    with ctx.Pool(processes=min(16, len(jobs))) as pool:
        return pool.map(fn, jobs, chunksize=1)


# ----------------------------------------------------------------------------------------
# known findings

def load_known():
    p = os.path.join(VERIF, "known_findings.json")
    if not os.path.exists(p):
        return []
    return json.load(open(p)).get("findings", [])


def region_holds(entry, inp, what=""):
    import regions
    fn = regions.REGIONS.get(entry["region"])
    if fn is None:
        return False
    try:
        return bool(fn(inp, what))
    except Exception:  # noqa: BLE001
        return False


# ----------------------------------------------------------------------------------------
# main entry

def run_property(modname, tier, seed):
    t_start = time.time()
    os.makedirs(WORK, exist_ok=True)
    os.makedirs(os.path.join(VERIF, "evidence"), exist_ok=True)
    os.makedirs(os.path.join(VERIF, "replays"), exist_ok=True)
    mod = importlib.import_module(modname)
    pid = mod.PID
    ensure_repo_import()

    report = build_and_audit(mod, tier)
    log("%s build/audit %s in %.1fs (%d theorems)" % (pid, "ok" if report.ok else "BROKEN", report.wall, len(report.theorems)))
    for b in report.broken:
        log("  broken: %s %s: %s" % (b["kind"], b["name"], b["detail"][:200]))

    nsh = nshards_for(tier)
    # correspondence
    corr_results = []
    if os.path.exists(DRIVER):
        jobs = [(pid, modname, s, tier, seed, k, nsh) for s in mod.SUITES for k in range(nsh)]
        corr_results = pool_map(_suite_job, jobs)
    else:
        report.ok = False
    tool_errors = [r["error"] for r in corr_results if r.get("error")]
    if tool_errors:
        for e in tool_errors[:3]:
            log("tool error in correspondence:\n" + e)
        print("TOOL-ERROR property=%s correspondence harness failed" % pid)
        return 2
    disagreements = [d for r in corr_results for d in r["disagreements"]]
    n_dis = len(disagreements)
    disagreements = [d for d in disagreements if d is not None]
    corr_ok = (n_dis == 0)
    log("%s correspondence: %d cases, %d disagreements" % (pid, sum(r["n"] for r in corr_results), n_dis))
    for d in disagreements[:5]:
        log("  disagreement %s %s: %s" % (d["suite"], d["op"], d["diff"]))

    # oracle (boosted when the proof side or the tie is broken)
    boost = 1 if (report.ok and corr_ok) else 8
    jobs = [(pid, modname, site, tier, seed, k, nsh, boost) for site in mod.ORACLES for k in range(nsh)]
    orc_results = pool_map(_oracle_job, jobs)
    tool_errors = [r["error"] for r in orc_results if r.get("error")]
    if tool_errors:
        for e in tool_errors[:3]:
            log("tool error in oracle:\n" + e)
        print("TOOL-ERROR property=%s oracle harness failed" % pid)
        return 2
    failures = [f for r in orc_results for f in r["failures"]]
    # disagreeing cases are fed to the property's own checker
    classify = getattr(mod, "classify", None)
    if classify and disagreements:
        import warnings
        for d in disagreements:
            try:
                si = classify(d["suite"], d)
            except Exception:  # noqa: BLE001
                si = None
            if si:
                site, inp = si
                with warnings.catch_warnings():
                    warnings.simplefilter("ignore")
                    what = mod.CHECKERS[site](inp)
                if what is not None:
                    failures.append({"site": site, "input": proto.jsonable(inp), "what": what})
    if getattr(mod, "CORRESPONDENCE_IS_PROPERTY", False):
        # the property *is* "code = executable definition": a disagreement is itself the failing input.  Not so for the
        # gen_* suites (REGENERATED definitions vs the code): they tie the translator's output to the code; when they
        # disagree (a generated file that no longer compiles leaves a stale driver, a reading of the run-time library is
        # off) the tie is broken - reported as such - but only the hand-written definition's suites or the oracle
        # exhibit a failing input
        for d in disagreements:
            if str(d.get("suite", "")).startswith("gen_"):
                continue
            failures.append({"site": "correspondence", "input": {"locator": d["locator"], "op": d["op"], "args": d["args"],
                                                                 "model": d["model"], "impl": d["impl"]},
                             "what": "%s %s: code differs from the executable definition: %s" % (d["suite"], d["op"], d["diff"])})
    log("%s oracle: %d inputs, %d failures (boost %d)" % (pid, sum(r["n"] for r in orc_results), len(failures), boost))

    # known findings: replay witnesses; suppress only failures inside a listed site+region
    known = [k for k in load_known() if k["property"] == pid]
    known_lines = []
    for k in known:
        if k.get("status") == "known":
            chk = mod.CHECKERS.get(k["site"])
            what = None
            if chk is not None:
                import warnings
                with warnings.catch_warnings():
                    warnings.simplefilter("ignore")
                    try:
                        what = chk(k["witness"])
                    except Exception as e:  # noqa: BLE001
                        what = "checker raised %r" % (e,)
            if what is not None:
                known_lines.append("KNOWN-FINDING: property=%s %s: %s" % (pid, k["site"], k["what"]))
        elif k.get("status") == "fixed":
            chk = mod.CHECKERS.get(k["site"])
            if chk is not None and k.get("witness") is not None:
                what = chk(k["witness"])
                if what is not None:
                    failures.append({"site": k["site"], "input": k["witness"],
                                     "what": "fixed finding has returned: " + what})
    unlisted = []
    suppressed = 0
    for f in failures:
        hit = False
        for k in known:
            if k.get("status") == "known" and k["site"] == f["site"] and region_holds(k, f["input"], f["what"]):
                hit = True
                break
        if hit:
            suppressed += 1
        else:
            unlisted.append(f)

    # verdict
    violation = None
    if unlisted:
        f = min(unlisted, key=lambda x: len(json.dumps(x["input"])))
        violation = {"kind": "failing-input", "property": pid, "site": f["site"], "input": f["input"],
                     "what": f["what"], "seed": seed, "tier": tier,
                     "broken_obligations": report.broken, "disagreements": disagreements[:5],
                     "other_failures": len(unlisted) - 1}
        suffix = ""
    elif not report.ok or not corr_ok:
        violation = {"kind": "no-failing-input-found", "property": pid, "seed": seed, "tier": tier,
                     "broken_obligations": report.broken,
                     "broken_correspondence": disagreements[:10],
                     "oracle_inputs_searched": sum(r["n"] for r in orc_results),
                     "note": "proof obligation or model/code correspondence no longer checks; "
                             "the property is no longer shown to hold"}
        suffix = " no-failing-input-found"

    # evidence
    wall = time.time() - t_start
    n_corr = sum(r["n"] for r in corr_results)
    n_orc = sum(r["n"] for r in orc_results)
    distinct = set()
    nontriv = set()
    tags, errkinds, per_suite = {}, {}, {}
    samples = []
    for r in corr_results:
        distinct |= r["distinct"]
        nontriv |= r["nontrivial"]
        for k, v in r["tags"].items():
            tags["%s:%s" % (r["suite"], k)] = tags.get("%s:%s" % (r["suite"], k), 0) + v
        for k, v in r["errkinds"].items():
            errkinds[k] = errkinds.get(k, 0) + v
        per_suite[r["suite"]] = per_suite.get(r["suite"], 0) + r["n"]
        if len(samples) < 6:
            samples += r["samples"][:1]
    odistinct = set()
    per_site = {}
    for r in orc_results:
        odistinct |= r["distinct"]
        per_site[r["site"]] = per_site.get(r["site"], 0) + r["n"]
        if len(samples) < 12:
            samples += r["samples"][:1]
    # stream F (inputs derived from the repository's fixture files): tags `fixture:<task>:<perturbation>`, summed over suites
    # and kept whole (the general histogram below is cut to its 150 largest buckets)
    fixture_stream = {}
    for k, v in tags.items():
        j = k.find(":fixture:")
        if j >= 0:
            fixture_stream[k[j + 1:]] = fixture_stream.get(k[j + 1:], 0) + v
    obligations = len(report.theorems) + len(report.gen_obligations)
    broken_names = {b["name"] for b in report.broken}
    discharged = 0
    if all(b["kind"] not in ("lean", "translator") for b in report.broken):
        discharged = sum(1 for t in report.theorems if t in report.axioms and
                         all(a in ALLOWED_AXIOMS for a in report.axioms[t])) + len(report.gen_obligations)
    samples = samples + [{"obligation": t, "axioms": report.axioms.get(t)} for t in report.theorems[:3]]
    evidence = {
        "property_id": pid, "tier": tier, "seed": seed, "level": "proof",
        "coverage": {
            "obligations": obligations, "discharged": discharged,
            "checker_cmd": report.checker_cmd,
            "trusted_base": [
                "Lean 4.33 kernel" + (" + leanchecker re-check" if tier == "thorough" else ""),
                "axioms used by the audited theorems: " + ", ".join(sorted({a for v in report.axioms.values() for a in v}) or ["none"]),
                "harness/translate (regenerates lean/MirGen from /repo)",
                "harness correspondence check (model driver vs in-process mir_eval)",
            ] + list(getattr(mod, "ASSUMPTIONS", [])),
            "theorems": report.theorems,
            "generated_obligations": report.gen_obligations,
            "unproved_subclaims": list(getattr(mod, "UNPROVED", [])),
            "evaluations": n_corr + n_orc,
            "distinct_nontrivial": len(nontriv) + len(odistinct),
            "rule": getattr(mod, "RULE", ""),
            "correspondence_cases": n_corr, "correspondence_distinct": len(distinct),
            "correspondence_disagreements": n_dis,
            "correspondence_per_suite": per_suite, "input_distribution": _top(tags, 150),
            "fixture_stream_cases": sum(fixture_stream.values()), "fixture_stream_distribution": fixture_stream,
            "impl_outcome_kinds": errkinds,
            "oracle_inputs": n_orc, "oracle_per_site": per_site,
            "oracle_failures_unlisted": len(unlisted), "oracle_failures_in_known_regions": suppressed,
            "known_findings_reproduced": known_lines,
            "samples": samples,
            "build_wall_s": round(report.wall, 2),
            "exhaustive": bool(getattr(mod, "EXHAUSTIVE", {}).get(tier, False)),
        },
        "assumptions": list(getattr(mod, "ASSUMPTIONS", [])),
        "wall_s": round(wall, 2),
        "violations": 0 if violation is None else 1,
    }
    evdir = os.environ.get("VERIF_EVIDENCE_DIR") or os.path.join(VERIF, "evidence")
    os.makedirs(evdir, exist_ok=True)
    with open(os.path.join(evdir, "%s.json" % pid), "w") as fh:
        json.dump(evidence, fh, indent=1, sort_keys=True)
        fh.write("\n")

    for ln in known_lines:
        print(ln)
    if violation is None:
        print("OK property=%s tier=%s seed=%d obligations=%d/%d correspondence=%d oracle=%d wall=%.1fs" %
              (pid, tier, seed, discharged, obligations, n_corr, n_orc, wall))
        return 0
    rp = os.path.join(os.environ.get("VERIF_REPLAY_DIR") or "replays", "%s_%s_%d.json" % (pid, tier, seed))
    os.makedirs(os.path.dirname(os.path.join(VERIF, rp)), exist_ok=True)
    with open(os.path.join(VERIF, rp), "w") as fh:
        json.dump(violation, fh, indent=1, sort_keys=True)
        fh.write("\n")
    print("VIOLATION property=%s replay=%s%s" % (pid, rp, suffix))
    return 1


def replay(path):
    p = path if os.path.isabs(path) else os.path.join(VERIF, path)
    v = json.load(open(p))
    pid = v["property"]
    mod = importlib.import_module("props." + pid.lower())
    ensure_repo_import()
    if v.get("kind") == "failing-input":
        if v["site"] == "correspondence":
            what = replay_case(mod, v["input"]["locator"])
        else:
            what = mod.CHECKERS[v["site"]](v["input"])
        if what is None:
            print("replay: property %s holds on the recorded input at %s" % (pid, v["site"]))
            return 0
        print("replay: %s fails at %s: %s" % (pid, v["site"], what))
        print("VIOLATION property=%s replay=%s" % (pid, path))
        return 1
    print("replay: no failing input was recorded; broken obligations / correspondence:")
    print(json.dumps({"broken_obligations": v.get("broken_obligations"),
                      "broken_correspondence": v.get("broken_correspondence")}, indent=1))
    return run_property("props." + pid.lower(), v.get("tier", "quick"), v.get("seed", 0))
