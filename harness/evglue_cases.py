"""Cases for the REGENERATED util._fast_hit_windows / util.match_events (driver op `gen.evglue`), shared by C04 and C05."""
from fractions import Fraction as _Fr

import numpy as _np

from core import Case


def _event_lists(rng, tier):
    """(ref, est, window) on the 1/32 lattice: unsorted, duplicated, empty, pairs exactly at the window"""
    n = (260 if tier == "quick" else 4000)
    for k in range(n):
        w = rng.choice([_Fr(0), _Fr(1, 32), _Fr(1, 16), _Fr(1, 8), _Fr(1, 4), _Fr(1, 2), _Fr(-1, 8) if k % 29 == 0 else _Fr(1, 8)])
        nr, ne = rng.choice([0, 1, 2, 3, 5, 8, 12]), rng.choice([0, 1, 2, 3, 5, 8, 12])
        ref = [_Fr(rng.randint(0, 64), 32) for _ in range(nr)]
        est = []
        for _ in range(ne):
            if ref and rng.random() < 0.7:
                est.append(rng.choice(ref) + rng.choice([-1, 1, 0]) * (w + rng.choice([0, 0, _Fr(1, 32)])))
            else:
                est.append(_Fr(rng.randint(0, 64), 32))
        if rng.random() < 0.5:
            ref.sort()
        if rng.random() < 0.5:
            est.sort()
        yield ref, est, w



def util_cases(rng, tier):
    """util._fast_hit_windows (hit pairs compared as sets) and util.match_events (pairs; sizes only when the reference
    holds equal values, whose argsort order NumPy leaves open) on unsorted / duplicated / empty lattice event lists with
    pairs exactly at the window and negative windows"""
    from mir_eval import util as U
    for ref, est, w in _event_lists(rng, tier):
        r, e = _np.array([float(x) for x in ref]), _np.array([float(x) for x in est])
        info = {"op": "gen.evglue", "ref": [str(x) for x in ref], "est": [str(x) for x in est], "window": str(w)}

        def hits(r=r, e=e, w=w):
            a, b = U._fast_hit_windows(r, e, float(w))
            return sorted([int(x), int(y)] for x, y in zip(a, b))
        yield Case("gen.evglue", ["util._fast_hit_windows", ref, est, w], hits, tag="gen _fast_hit_windows",
                   info=dict(info, fn="util._fast_hit_windows"), nontrivial=bool(ref and est),
                   post=lambda m: m if not isinstance(m, list) else sorted([a, b] for a, b in zip(m[0], m[1])))
        dup = len(set(ref)) != len(ref)
        if dup:
            yield Case("gen.evglue", ["util.match_events", ref, est, w],
                       lambda r=r, e=e, w=w: len(U.match_events(r, e, float(w))), tag="gen match_events (size)",
                       info=dict(info, fn="util.match_events"), nontrivial=bool(ref and est),
                       post=lambda m: m if not isinstance(m, list) else len(m))
        else:
            yield Case("gen.evglue", ["util.match_events", ref, est, w],
                       lambda r=r, e=e, w=w: [[int(a), int(b)] for a, b in U.match_events(r, e, float(w))],
                       tag="gen match_events", info=dict(info, fn="util.match_events"), nontrivial=bool(ref and est))


# ----------------------------------------------------------------------------------------
# the REGENERATED transcription matching functions (driver op gen.trmatch): the hand-model cases of
# harness/suites/transcription.py re-targeted at the generated definitions (shared by C05 and C04)
_TRM_OPS = ("match_note_onsets", "match_note_offsets", "match_notes", "onset_precision_recall_f1",
            "offset_precision_recall_f1", "precision_recall_f1_overlap")


def _has_none_pitch(c):
    return any(isinstance(a, list) and any(x is None for x in a) for a in c.args)


def trmatch_cases(rng, tier, shard, nshards, only=None):
    from suites import transcription as _TRS
    for key in ("transcription.match_notes", "transcription.match_onsets_offsets", "transcription.prf_overlap",
                "transcription.onset_offset_prf", "transcription.validate"):
        for c in _TRS.SUITES[key](rng, tier, shard, nshards):
            fn = c.op.split(".", 1)[1] if c.op.startswith("transcription.") else None
            if fn in _TRM_OPS and (only is None or fn in only) and not _has_none_pitch(c):
                info = dict(c.info, op="gen.trmatch", fn=fn) if isinstance(c.info, dict) else {"op": "gen.trmatch", "fn": fn}
                yield Case("gen.trmatch", [fn] + list(c.args), c.call, tol=c.tol, tag="gen " + (c.tag or fn), info=info,
                           nontrivial=c.nontrivial, post=c.post)


