"""X stream (DESIGN.md §2.4 / §5 C14): single-fault corruptions of valid inputs, one generator per documented
fault class, applied to the public entry points whose validator documents (or raises for) that class.

An oracle input is {"task", "entry", "fault", "base", "seed"}: everything is rebuilt deterministically
from it.  `ENTRIES[task][entry](objs, **kw)` calls the real code with python objects built from `base`.
"""
import random
from fractions import Fraction as Fr

import numpy as np
import mir_eval

import tasks as T

F = T.F


# --------------------------------------------------------------------------------------------
# building python objects from a base input

def objs_events(inp):
    return {"ref": T.farr(inp["ref"]), "est": T.farr(inp["est"])}


def objs_segment(inp):
    return {"ri": T.iarr(inp["ref"][0]), "rl": list(inp["ref"][1]), "ei": T.iarr(inp["est"][0]), "el": list(inp["est"][1])}


def objs_melody(inp):
    m = T.TASKS["melody"]
    o = {"rt": T.farr(inp["ref"][0]), "rf": m._hz(inp["ref"][1]), "et": T.farr(inp["est"][0]), "ef": m._hz(inp["est"][1])}
    if inp.get("use_voicing"):
        # continuous estimated voicing / reference reward (valid: every value in [0, 1], one per frame)
        if inp.get("est_voicing") is not None:
            o["ev"] = T.farr(inp["est_voicing"])
        if inp.get("reward") is not None:
            o["rr"] = T.farr(inp["reward"])
    return o


def _mel_kw(o, kw):
    kw = dict(kw)
    if o.get("ev") is not None:
        kw.setdefault("est_voicing", o["ev"])
    if o.get("rr") is not None:
        kw.setdefault("ref_reward", o["rr"])
    return kw


def objs_multipitch(inp):
    return {"rt": T.farr(inp["ref"][0]), "rf": [np.array([T.midi_hz(F(m)) for m in f]) for f in inp["ref"][1]],
            "et": T.farr(inp["est"][0]), "ef": [np.array([T.midi_hz(F(m)) for m in f]) for f in inp["est"][1]]}


def objs_transcription(inp):
    ri, rp = T.Transcription._split(inp["ref"])
    ei, ep = T.Transcription._split(inp["est"])
    return {"ri": ri, "rp": rp, "ei": ei, "ep": ep}


def objs_velocity(inp):
    ri, rp, rv = T.TranscriptionVelocity._split4(inp["ref"])
    ei, ep, ev = T.TranscriptionVelocity._split4(inp["est"])
    return {"ri": ri, "rp": rp, "rv": rv, "ei": ei, "ep": ep, "ev": ev}


def objs_tempo(inp):
    return {"rt": T.farr(inp["ref"][0]), "w": float(F(inp["ref"][1])), "et": T.farr(inp["est"])}


def objs_key(inp):
    return {"r": inp["ref"], "e": inp["est"]}


def objs_pattern(inp):
    return {"r": T.Pattern._de(inp["ref"]), "e": T.Pattern._de(inp["est"])}


def objs_hierarchy(inp):
    return {"ri": [T.iarr(lv) for lv in inp["ref"][0]], "rl": [list(lv) for lv in inp["ref"][1]],
            "ei": [T.iarr(lv) for lv in inp["est"][0]], "el": [list(lv) for lv in inp["est"][1]]}


OBJS = {"beat": objs_events, "onset": objs_events, "alignment": objs_events, "segment": objs_segment,
        "chord": objs_segment, "melody": objs_melody, "multipitch": objs_multipitch,
        "transcription": objs_transcription, "transcription_velocity": objs_velocity, "tempo": objs_tempo,
        "key": objs_key, "pattern": objs_pattern, "hierarchy": objs_hierarchy}

# --------------------------------------------------------------------------------------------
# entry points: name -> callable(objs, **kw)

me = mir_eval


def _ev(fn):
    return lambda o, **kw: fn(o["ref"], o["est"], **kw)


def _seg4(fn):
    return lambda o, **kw: fn(o["ri"], o["rl"], o["ei"], o["el"], **kw)


def _seg2(fn):
    return lambda o, **kw: fn(o["ri"], o["ei"], **kw)


def _tr(fn):
    return lambda o, **kw: fn(o["ri"], o["rp"], o["ei"], o["ep"], **kw)


def _mel_frames(fn, with_cent=True):
    def call(o, **kw):
        rv, rc, ev, ec = me.melody.to_cent_voicing(o["rt"], o["rf"], o["et"], o["ef"])
        o2 = dict(o)
        o2.update(rv=rv, rc=rc, ev=ev, ec=ec)
        o2 = o.get("_frame_fault", lambda x: x)(o2)
        if with_cent:
            return fn(o2["rv"], o2["rc"], o2["ev"], o2["ec"], **kw)
        return fn(o2["rv"], o2["ev"], **kw)
    return call


ENTRIES = {
    "beat": {"evaluate": _ev(me.beat.evaluate), "f_measure": _ev(me.beat.f_measure), "cemgil": _ev(me.beat.cemgil),
             "goto": _ev(me.beat.goto), "p_score": _ev(me.beat.p_score), "continuity": _ev(me.beat.continuity),
             "information_gain": _ev(me.beat.information_gain)},
    "onset": {"evaluate": _ev(me.onset.evaluate), "f_measure": _ev(me.onset.f_measure)},
    "alignment": {"evaluate": _ev(me.alignment.evaluate), "absolute_error": _ev(me.alignment.absolute_error),
                  "percentage_correct": _ev(me.alignment.percentage_correct),
                  "percentage_correct_segments": _ev(me.alignment.percentage_correct_segments),
                  "karaoke_perceptual_metric": _ev(me.alignment.karaoke_perceptual_metric)},
    "segment": {"evaluate": _seg4(me.segment.evaluate), "detection": _seg2(me.segment.detection),
                "deviation": _seg2(me.segment.deviation), "pairwise": _seg4(me.segment.pairwise),
                "rand_index": _seg4(me.segment.rand_index), "ari": _seg4(me.segment.ari),
                "mutual_information": _seg4(me.segment.mutual_information), "nce": _seg4(me.segment.nce),
                "vmeasure": _seg4(me.segment.vmeasure)},
    "chord": {"evaluate": _seg4(me.chord.evaluate)},
    "melody": {"evaluate": lambda o, **kw: me.melody.evaluate(o["rt"], o["rf"], o["et"], o["ef"], **_mel_kw(o, kw)),
               "voicing_measures": _mel_frames(me.melody.voicing_measures, False),
               "raw_pitch_accuracy": _mel_frames(me.melody.raw_pitch_accuracy),
               "raw_chroma_accuracy": _mel_frames(me.melody.raw_chroma_accuracy),
               "overall_accuracy": _mel_frames(me.melody.overall_accuracy)},
    "multipitch": {"evaluate": lambda o, **kw: me.multipitch.evaluate(o["rt"], o["rf"], o["et"], o["ef"], **kw),
                   "metrics": lambda o, **kw: me.multipitch.metrics(o["rt"], o["rf"], o["et"], o["ef"], **kw)},
    "transcription": {"evaluate": _tr(me.transcription.evaluate),
                      "precision_recall_f1_overlap": _tr(me.transcription.precision_recall_f1_overlap),
                      "onset_precision_recall_f1": lambda o, **kw: me.transcription.onset_precision_recall_f1(o["ri"], o["ei"], **kw),
                      "offset_precision_recall_f1": lambda o, **kw: me.transcription.offset_precision_recall_f1(o["ri"], o["ei"], **kw)},
    "transcription_velocity": {
        "evaluate": lambda o, **kw: me.transcription_velocity.evaluate(o["ri"], o["rp"], o["rv"], o["ei"], o["ep"], o["ev"], **kw),
        "precision_recall_f1_overlap": lambda o, **kw: me.transcription_velocity.precision_recall_f1_overlap(
            o["ri"], o["rp"], o["rv"], o["ei"], o["ep"], o["ev"], **kw)},
    "tempo": {"evaluate": lambda o, **kw: me.tempo.evaluate(o["rt"], o["w"], o["et"], **kw),
              "detection": lambda o, **kw: me.tempo.detection(o["rt"], o["w"], o["et"], **kw)},
    "key": {"evaluate": lambda o, **kw: me.key.evaluate(o["r"], o["e"], **kw),
            "weighted_score": lambda o, **kw: me.key.weighted_score(o["r"], o["e"], **kw)},
    "pattern": {"evaluate": lambda o, **kw: me.pattern.evaluate(o["r"], o["e"], **kw),
                "standard_FPR": lambda o, **kw: me.pattern.standard_FPR(o["r"], o["e"], **kw),
                "establishment_FPR": lambda o, **kw: me.pattern.establishment_FPR(o["r"], o["e"], **kw),
                "occurrence_FPR": lambda o, **kw: me.pattern.occurrence_FPR(o["r"], o["e"], **kw),
                "three_layer_FPR": lambda o, **kw: me.pattern.three_layer_FPR(o["r"], o["e"], **kw),
                "first_n_three_layer_P": lambda o, **kw: me.pattern.first_n_three_layer_P(o["r"], o["e"], **kw),
                "first_n_target_proportion_R": lambda o, **kw: me.pattern.first_n_target_proportion_R(o["r"], o["e"], **kw)},
    "hierarchy": {"evaluate": lambda o, **kw: me.hierarchy.evaluate(o["ri"], o["rl"], o["ei"], o["el"], **kw),
                  "tmeasure": lambda o, **kw: me.hierarchy.tmeasure(o["ri"], o["ei"], **kw),
                  "lmeasure": lambda o, **kw: me.hierarchy.lmeasure(o["ri"], o["rl"], o["ei"], o["el"], **kw)},
}

# --------------------------------------------------------------------------------------------
# fault classes: name -> (tasks/entries it applies to, mutation of objs / kwargs)
# each fault function takes (objs, kw, rng, side) and mutates copies in place; returns False if not applicable


def _pick(rng, o, keys):
    return rng.choice(keys)


def f_unsorted(key):
    def f(o, kw, rng):
        a = o[key]
        if a.size < 2:
            o[key] = np.array([3.0, 1.0]) + 5
            return True
        a = a.copy()
        i = rng.randrange(len(a) - 1)
        a[i], a[i + 1] = a[i + 1] + 0.25, a[i]   # strictly decreasing somewhere
        if not np.any(np.diff(a) < 0):
            a = a[::-1].copy()
            if not np.any(np.diff(a) < 0):
                return False
        o[key] = a
        return True
    return f


def f_two_dim(key):
    def f(o, kw, rng):
        a = o[key]
        n = max(2, a.size - a.size % 2)
        base = np.sort(np.concatenate([a, a + 1.0, [6.0, 7.0]]))[:n]
        o[key] = base.reshape(-1, 2) if base.size >= 2 else np.array([[6.0, 7.0]])
        return True
    return f


def f_huge(key):
    def f(o, kw, rng):
        o[key] = np.concatenate([o[key], [30001.0 + rng.randint(0, 1000)]])
        return True
    return f


def f_iv_negative(key):
    def f(o, kw, rng):
        a = o[key]
        if a.shape[0] == 0:
            return False
        a = a.copy()
        a[0, 0] = -0.5
        o[key] = a
        return True
    return f


def _enc_differs(l1, l2):
    a, b = mir_eval.chord.encode(l1), mir_eval.chord.encode(l2)
    return a[0] != b[0] or not np.array_equal(a[1], b[1]) or a[2] != b[2]


def f_iv_zero_dur(key, neg=False, interior=False, labkey=None):
    def f(o, kw, rng):
        a = o[key]
        if a.shape[0] == 0:
            return False
        a = a.copy()
        if interior:
            # evaluate() first crops to [t_min, t_max]: an interval that only touches the crop range is removed by
            # that documented pre-processing, so the fault is put on an interval strictly inside the range
            idx = list(range(1, a.shape[0] - 1))
            if labkey is not None:
                # chord.evaluate fuses neighbours carrying the same chord (documented): keep the faulty interval distinct
                labs = o[labkey]
                idx = [i for i in idx if _enc_differs(labs[i - 1], labs[i]) and _enc_differs(labs[i], labs[i + 1])]
            if not idx:
                return False
            i = rng.choice(idx)
        else:
            i = rng.randrange(a.shape[0])
        a[i, 1] = a[i, 0] - (0.25 if neg else 0.0)
        if a[i, 1] < 0:
            a[i, 1] = a[i, 0]
        o[key] = a
        return True
    return f


def f_iv_three_cols(key):
    def f(o, kw, rng):
        a = o[key]
        if a.shape[0] == 0:
            o[key] = np.array([[0.0, 1.0, 2.0]])
        else:
            o[key] = np.hstack([a, a[:, 1:2] + 1.0])
        return True
    return f


def f_drop_last(key):
    def f(o, kw, rng):
        a = o[key]
        if len(a) == 0:
            return False
        o[key] = a[:-1]
        return True
    return f


def f_append(key, value):
    def f(o, kw, rng):
        a = o[key]
        if isinstance(a, list):
            o[key] = a + [value]
        else:
            o[key] = np.concatenate([a, [value]])
        return True
    return f


def f_set(key, value):
    def f(o, kw, rng):
        o[key] = value
        return True
    return f


def f_kw(name, value):
    def f(o, kw, rng):
        kw[name] = value
        return True
    return f


def f_elem(key, value):
    def f(o, kw, rng):
        a = np.array(o[key], dtype=float)
        if a.size == 0:
            return False
        a[rng.randrange(a.size)] = value
        o[key] = a
        return True
    return f


def f_mp_freq(key, value):
    def f(o, kw, rng):
        fr = [x.copy() for x in o[key]]
        idx = [i for i, x in enumerate(fr) if x.size]
        if not idx:
            return False
        i = rng.choice(idx)
        fr[i][rng.randrange(fr[i].size)] = value
        o[key] = fr
        return True
    return f


def f_seg_start(key):
    def f(o, kw, rng):
        a = o[key]
        if a.shape[0] == 0:
            return False
        a = a.copy()
        a[0, 0] = 0.125
        if a[0, 1] <= a[0, 0]:
            return False
        o[key] = a
        return True
    return f


def f_seg_end(key):
    def f(o, kw, rng):
        a = o[key]
        if o["ri"].shape[0] == 0 or o["ei"].shape[0] == 0:
            return False     # the end-time check only exists when both sides are non-empty
        a = a.copy()
        a[-1, 1] += 0.5
        o[key] = a
        return True
    return f


def f_chord_label(key, bad):
    def f(o, kw, rng):
        l = list(o[key])
        if not l:
            return False
        idx = list(range(len(l)))
        if key == "el":
            # evaluate() crops the estimate to the reference span first: a label that is cropped away is
            # repaired by the documented pre-processing, so corrupt one that overlaps the reference span
            lo, hi = o["ri"].min(), o["ri"].max()
            idx = [i for i in idx if min(o["ei"][i, 1], hi) - max(o["ei"][i, 0], lo) > 0]
            if not idx:
                return False
        l[rng.choice(idx)] = bad
        o[key] = l
        return True
    return f


def f_overlap(key, labkey):
    def f(o, kw, rng):
        a = o[key]
        labs = o[labkey]
        # neighbours with the same chord are fused by the documented pre-processing: overlap two different ones
        idx = [i for i in range(a.shape[0] - 1)
               if not np.array_equal(mir_eval.chord.encode(labs[i])[1], mir_eval.chord.encode(labs[i + 1])[1])
               or mir_eval.chord.encode(labs[i])[0] != mir_eval.chord.encode(labs[i + 1])[0]]
        if not idx:
            return False
        i = rng.choice(idx)
        a = a.copy()
        a[i, 1] = a[i, 1] + min(0.125, (a[i + 1, 1] - a[i + 1, 0]) / 2)
        o[key] = a
        return True
    return f


def f_pattern_empty(key):
    def f(o, kw, rng):
        p = [list(x) for x in o[key]]
        p.insert(rng.randrange(len(p) + 1), [])
        o[key] = p
        return True
    return f


def f_pattern_triple(key):
    def f(o, kw, rng):
        p = [[list(oc) for oc in x] for x in o[key]]
        if not p or not p[0] or not p[0][0]:
            return False
        t = p[0][0][0]
        p[0][0][0] = (t[0], t[1], 1.0)
        o[key] = p
        return True
    return f


def f_hier_level_end(key):
    def f(o, kw, rng):
        lv = [x.copy() for x in o[key]]
        if len(lv) < 2:
            return False
        lv[-1][-1, 1] += 1.0
        o[key] = lv
        return True
    return f


def f_hier_level_start(key):
    def f(o, kw, rng):
        lv = [x.copy() for x in o[key]]
        if len(lv) < 2:
            return False
        lv[-1][0, 0] = 0.25
        if lv[-1][0, 1] <= 0.25:
            return False
        o[key] = lv
        return True
    return f


def f_frame(which, value):
    """melody frame-level faults (voicing range / unequal lengths) injected after to_cent_voicing"""
    def f(o, kw, rng):
        def ff(o2):
            a = np.array(o2[which], dtype=float)
            if value == "drop":
                if a.size == 0:
                    raise RuntimeError("not applicable")
                o2[which] = a[:-1]
            else:
                if a.size == 0:
                    raise RuntimeError("not applicable")
                a[rng.randrange(a.size)] = value
                o2[which] = a
            return o2
        o["_frame_fault"] = ff
        return True
    return f


EVENT_METRICS_BEAT = ["f_measure", "cemgil", "goto", "p_score", "continuity", "information_gain"]
SEG_LABEL = ["pairwise", "rand_index", "ari", "mutual_information", "nce", "vmeasure"]
PAT = ["standard_FPR", "establishment_FPR", "occurrence_FPR", "three_layer_FPR", "first_n_three_layer_P",
       "first_n_target_proportion_R", "evaluate"]
MEL_FRAMES4 = ["raw_pitch_accuracy", "raw_chroma_accuracy", "overall_accuracy"]

# (task, [entries], fault name, mutation, expected exception class name)
FAULTS = []


def add(task, entries, name, fn, exc="ValueError"):
    FAULTS.append((task, entries, name, fn, exc))


for side in ("ref", "est"):
    add("beat", EVENT_METRICS_BEAT, "unsorted_" + side, f_unsorted(side))
    add("beat", EVENT_METRICS_BEAT + ["evaluate"], "two_dimensional_" + side, f_two_dim(side))
    add("beat", EVENT_METRICS_BEAT + ["evaluate"], "too_large_" + side, f_huge(side))
    add("onset", ["f_measure", "evaluate"], "unsorted_" + side, f_unsorted(side))
    add("onset", ["f_measure", "evaluate"], "two_dimensional_" + side, f_two_dim(side))
    add("onset", ["f_measure", "evaluate"], "too_large_" + side, f_huge(side))
    add("alignment", ["evaluate", "absolute_error", "percentage_correct", "percentage_correct_segments",
                      "karaoke_perceptual_metric"], "unsorted_" + side, f_unsorted(side))
    add("alignment", ["evaluate", "absolute_error", "percentage_correct", "percentage_correct_segments",
                      "karaoke_perceptual_metric"], "two_dimensional_" + side, f_two_dim(side))
    add("alignment", ["evaluate", "absolute_error", "percentage_correct", "percentage_correct_segments",
                      "karaoke_perceptual_metric"], "negative_" + side, f_elem(side, -1.0))
    add("alignment", ["evaluate", "absolute_error", "percentage_correct", "percentage_correct_segments",
                      "karaoke_perceptual_metric"], "unequal_length_" + side, f_drop_last(side))

for k in ("ri", "ei"):
    add("segment", ["detection", "deviation"] + SEG_LABEL, "negative_time_" + k, f_iv_negative(k))
    add("segment", ["detection", "deviation"] + SEG_LABEL, "zero_duration_" + k, f_iv_zero_dur(k))
    add("segment", ["detection", "deviation"] + SEG_LABEL, "negative_duration_" + k, f_iv_zero_dur(k, True))
    add("segment", ["detection", "deviation"] + SEG_LABEL, "not_n_by_2_" + k, f_iv_three_cols(k))
    add("segment", SEG_LABEL, "does_not_start_at_0_" + k, f_seg_start(k))
    add("segment", SEG_LABEL, "ends_do_not_match_" + k, f_seg_end(k))
    add("transcription", ["precision_recall_f1_overlap", "onset_precision_recall_f1", "offset_precision_recall_f1",
                          "evaluate"], "negative_time_" + k, f_iv_negative(k))
    add("transcription", ["precision_recall_f1_overlap", "onset_precision_recall_f1", "offset_precision_recall_f1",
                          "evaluate"], "zero_duration_" + k, f_iv_zero_dur(k))
    add("transcription", ["precision_recall_f1_overlap", "onset_precision_recall_f1", "offset_precision_recall_f1",
                          "evaluate"], "not_n_by_2_" + k, f_iv_three_cols(k))
    add("transcription_velocity", ["precision_recall_f1_overlap", "evaluate"], "zero_duration_" + k, f_iv_zero_dur(k))
for k in ("rl", "el"):
    add("segment", SEG_LABEL, "labels_shorter_" + k, f_drop_last(k))
    add("segment", SEG_LABEL, "labels_longer_" + k, f_append(k, "extra"))
add("segment", ["evaluate"], "reference_zero_duration", f_iv_zero_dur("ri", interior=True))
add("segment", ["evaluate"], "reference_not_n_by_2", f_iv_three_cols("ri"))
add("segment", ["evaluate"], "reference_labels_shorter", f_drop_last("rl"))

add("chord", ["evaluate"], "reference_overlapping", f_overlap("ri", "rl"))
add("chord", ["evaluate"], "reference_zero_duration", f_iv_zero_dur("ri", interior=True, labkey="rl"))
add("chord", ["evaluate"], "reference_not_n_by_2", f_iv_three_cols("ri"))
for k in ("rl", "el"):
    for bad in ("H:maj", "C:foo", "C:maj/x", "C::maj", "", "C:maj(", "Cmaj7"):
        add("chord", ["evaluate"], "malformed_label_%s_%r" % (k, bad), f_chord_label(k, bad), "InvalidChord")

for k in ("rp", "ep"):
    add("transcription", ["precision_recall_f1_overlap", "evaluate"], "pitches_shorter_" + k, f_drop_last(k))
    add("transcription", ["precision_recall_f1_overlap", "evaluate"], "non_positive_pitch_" + k, f_elem(k, 0.0))
    add("transcription", ["precision_recall_f1_overlap", "evaluate"], "negative_pitch_" + k, f_elem(k, -220.0))
    add("transcription_velocity", ["precision_recall_f1_overlap", "evaluate"], "non_positive_pitch_" + k, f_elem(k, 0.0))
for k in ("rv", "ev"):
    add("transcription_velocity", ["precision_recall_f1_overlap", "evaluate"], "velocities_shorter_" + k, f_drop_last(k))
    add("transcription_velocity", ["precision_recall_f1_overlap", "evaluate"], "negative_velocity_" + k, f_elem(k, -1.0))

for k in ("rt", "et"):
    add("multipitch", ["metrics", "evaluate"], "unsorted_times_" + k, f_unsorted(k))
    add("multipitch", ["metrics", "evaluate"], "too_large_time_" + k, f_elem(k, 30001.0))
    add("multipitch", ["metrics", "evaluate"], "times_longer_than_freqs_" + k, f_append(k, 29999.0))
for k in ("rf", "ef"):
    add("multipitch", ["metrics", "evaluate"], "frequency_too_high_" + k, f_mp_freq(k, 6000.0))
    add("multipitch", ["metrics", "evaluate"], "frequency_too_low_" + k, f_mp_freq(k, 5.0))
    add("multipitch", ["metrics", "evaluate"], "negative_frequency_" + k, f_mp_freq(k, -440.0))
    add("multipitch", ["metrics", "evaluate"], "freqs_shorter_than_times_" + k, f_drop_last(k))

for k in ("rv", "ev"):
    add("melody", ["voicing_measures"] + MEL_FRAMES4, "voicing_above_1_" + k, f_frame(k, 1.5))
    add("melody", ["voicing_measures"] + MEL_FRAMES4, "voicing_below_0_" + k, f_frame(k, -0.5))
    add("melody", ["voicing_measures"] + MEL_FRAMES4, "voicing_shorter_" + k, f_frame(k, "drop"))
for k in ("rc", "ec"):
    add("melody", MEL_FRAMES4, "cent_shorter_" + k, f_frame(k, "drop"))

add("tempo", ["detection", "evaluate"], "reference_three_tempi", f_set("rt", np.array([60.0, 120.0, 180.0])))
add("tempo", ["detection", "evaluate"], "estimate_one_tempo", f_set("et", np.array([60.0])))
add("tempo", ["detection", "evaluate"], "negative_reference_tempo", f_elem("rt", -60.0))
add("tempo", ["detection", "evaluate"], "negative_estimated_tempo", f_elem("et", -60.0))
add("tempo", ["detection", "evaluate"], "infinite_tempo", f_elem("et", float("inf")))
add("tempo", ["detection", "evaluate"], "reference_all_zero", f_set("rt", np.array([0.0, 0.0])))
add("tempo", ["detection", "evaluate"], "weight_above_1", f_set("w", 1.5))
add("tempo", ["detection", "evaluate"], "weight_below_0", f_set("w", -0.25))
add("tempo", ["detection", "evaluate"], "tolerance_above_1", f_kw("tol", 1.5))
add("tempo", ["detection", "evaluate"], "tolerance_below_0", f_kw("tol", -0.1))

for k in ("r", "e"):
    for bad in ("C", "C major minor", "H major", "C maj", "X major", "", "c# Major"):
        add("key", ["weighted_score", "evaluate"], "malformed_key_%s_%r" % (k, bad), f_set(k, bad))
    add("pattern", PAT, "pattern_without_occurrence_" + k, f_pattern_empty(k))
    add("pattern", PAT, "point_with_three_elements_" + k, f_pattern_triple(k))

add("hierarchy", ["tmeasure", "lmeasure", "evaluate"], "frame_size_zero", f_kw("frame_size", 0.0))
add("hierarchy", ["tmeasure", "lmeasure", "evaluate"], "frame_size_negative", f_kw("frame_size", -0.5))
add("hierarchy", ["tmeasure"], "frame_size_above_window", lambda o, kw, rng: (kw.update(frame_size=2.0, window=1.0) or True))
for k in ("ri", "ei"):
    add("hierarchy", ["tmeasure", "lmeasure"], "level_ends_later_" + k, f_hier_level_end(k))
    add("hierarchy", ["tmeasure", "lmeasure"], "level_starts_late_" + k, f_hier_level_start(k))

FAULT_INDEX = {}
for t, entries, name, fn, exc in FAULTS:
    for e in entries:
        FAULT_INDEX[(t, e, name)] = (fn, exc)


def build(inp):
    """-> (callable, objs, kwargs) for an oracle input, or None when the fault is not applicable to this base"""
    task, entry = inp["task"], inp["entry"]
    o = OBJS[task](inp["base"])
    kw = dict(inp.get("kw") or {})
    if inp.get("fault"):
        fn, _ = FAULT_INDEX[(task, entry, inp["fault"])]
        rng = random.Random(inp.get("seed", 0))
        if not fn(o, kw, rng):
            return None
    return ENTRIES[task][entry], o, kw
