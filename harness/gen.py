"""Shared input generators (DESIGN.md §2.4): stream E = exact dyadic lattice, with deliberate coincidences."""
from fractions import Fraction as Fr

import numpy as np

LAT = 32  # times are multiples of 1/32 s


def fl(x):
    """Fraction / nested lists of Fractions -> floats (what the implementation receives)."""
    if isinstance(x, Fr):
        return float(x)
    if isinstance(x, (list, tuple)):
        return [fl(v) for v in x]
    return x


def arr(x):
    return np.asarray(fl(x), dtype=float)


def fr(x):
    """json input number -> Fraction ('p/q' strings, ints, floats that are exact dyadics)."""
    if isinstance(x, str):
        return Fr(x)
    return Fr(x)


def events(rng, nmax=8, tmax=8, lat=LAT, dup=0.15, cluster=0.3):
    """sorted event times on the lattice; duplicates and tight clusters on purpose"""
    n = rng.choice([0, 1, 1, 2, 3, 4, 5, 6, 8, nmax])
    n = min(n, nmax)
    out = []
    for _ in range(n):
        if out and rng.random() < dup:
            out.append(rng.choice(out))
        elif out and rng.random() < cluster:
            out.append(max(Fr(0), rng.choice(out) + Fr(rng.randint(-4, 4), lat)))
        else:
            out.append(Fr(rng.randint(0, tmax * lat), lat))
    return sorted(out)


def near(rng, ref, w, nmax=8, tmax=8, lat=LAT):
    """an estimate correlated with `ref`: perturbations that land on / next to the window edge"""
    out = []
    for r in ref:
        u = rng.random()
        if u < 0.15:
            continue
        if u < 0.35:
            out.append(r)
        elif u < 0.6:
            out.append(max(Fr(0), r + rng.choice([-1, 1]) * w))             # exactly on the threshold
        elif u < 0.8:
            out.append(max(Fr(0), r + rng.choice([-1, 1]) * (w + Fr(1, lat))))  # just outside
        else:
            out.append(max(Fr(0), r + Fr(rng.randint(-lat, lat), lat)))
    for _ in range(rng.choice([0, 0, 1, 2])):
        out.append(Fr(rng.randint(0, tmax * lat), lat))
    return sorted(out)[:nmax + 2]


def window(rng):
    return rng.choice([Fr(0), Fr(1, 32), Fr(1, 16), Fr(1, 8), Fr(1, 4), Fr(1, 2), Fr(1), Fr(3)])
