"""Shared input generators (DESIGN.md §2.4): stream E = exact dyadic lattice, with deliberate coincidences."""
from fractions import Fraction as Fr

import numpy as np

LAT = 32  # times are multiples of 1/32 s


def fl(x):
    """Fraction / nested lists of Fractions -> floats (what the implementation receives)."""
    if isinstance(x, Fr):
        return float(x)
    if isinstance(x, (list, tuple)):
        return [fl(v) for v in x]
    return x


def arr(x):
    return np.asarray(fl(x), dtype=float)


def fr(x):
    """json input number -> Fraction ('p/q' strings, ints, floats that are exact dyadics)."""
    if isinstance(x, str):
        return Fr(x)
    return Fr(x)


def events(rng, nmax=8, tmax=8, lat=LAT, dup=0.15, cluster=0.3):
    """sorted event times on the lattice; duplicates and tight clusters on purpose"""
    n = rng.choice([0, 1, 1, 2, 3, 4, 5, 6, 8, nmax])
    n = min(n, nmax)
    out = []
    for _ in range(n):
        if out and rng.random() < dup:
            out.append(rng.choice(out))
        elif out and rng.random() < cluster:
            out.append(max(Fr(0), rng.choice(out) + Fr(rng.randint(-4, 4), lat)))
        else:
            out.append(Fr(rng.randint(0, tmax * lat), lat))
    return sorted(out)


def near(rng, ref, w, nmax=8, tmax=8, lat=LAT):
    """an estimate correlated with `ref`: perturbations that land on / next to the window edge"""
    out = []
    for r in ref:
        u = rng.random()
        if u < 0.15:
            continue
        if u < 0.35:
            out.append(r)
        elif u < 0.6:
            out.append(max(Fr(0), r + rng.choice([-1, 1]) * w))             # exactly on the threshold
        elif u < 0.8:
            out.append(max(Fr(0), r + rng.choice([-1, 1]) * (w + Fr(1, lat))))  # just outside
        else:
            out.append(max(Fr(0), r + Fr(rng.randint(-lat, lat), lat)))
    for _ in range(rng.choice([0, 0, 1, 2])):
        out.append(Fr(rng.randint(0, tmax * lat), lat))
    return sorted(out)[:nmax + 2]


def window(rng):
    return rng.choice([Fr(0), Fr(1, 32), Fr(1, 16), Fr(1, 8), Fr(1, 4), Fr(1, 2), Fr(1), Fr(3)])


# ---------------------------------------------------------------------------------------------
# the caller's array dtype.  Every validator of the library accepts integer and single-precision arrays (they are what
# `np.arange`, whole-second annotations, MIDI pitch lists and float32 feature pipelines produce); a result must depend
# on the VALUES only.  A dtype other than float64 is honoured only when it represents every value exactly, so that the
# code receives the same numbers in another container (otherwise the array stays float64).

DTYPES = ("int64", "int32", "float32")


def exact_in(values, dtype):
    """can every value (Fractions / nested lists of Fractions) be stored in `dtype` without changing it?"""
    if dtype is None or dtype in ("float64", "float"):
        return True
    if isinstance(values, (list, tuple)):
        return all(exact_in(v, dtype) for v in values)
    q = Fr(values)
    if dtype in ("int64", "int32"):
        return q.denominator == 1 and abs(q) < (2 ** 31 if dtype == "int32" else 2 ** 62)
    if dtype == "float32":
        return Fr(float(np.float32(float(q)))) == q
    raise ValueError(dtype)


def arr_as(x, dtype=None, shape=None):
    """`arr(x)` stored as `dtype` when that is exact for every value (see above); float64 otherwise"""
    a = np.asarray(fl(x), dtype=float)
    if shape is not None:
        a = a.reshape(shape)
    if dtype in DTYPES and exact_in(x, dtype):
        a = a.astype(dtype)
    return a


def pick_dtypes(rng, sides=("ref", "est"), p_int=0.75, float32=True):
    """a dtype (or None = float64) per side; at least one side is not float64.  float32=False: integer dtypes only (for
    checks that compare real-valued scores to 1e-9: arithmetic on float32 arrays is legitimately single precision)"""
    while True:
        out = {}
        for s in sides:
            u = rng.random()
            if u < p_int * 0.6:
                out[s] = "int64"
            elif u < p_int:
                out[s] = "int32"
            elif u < p_int + 0.12 and float32:
                out[s] = "float32"
        if out:
            return out


def whole_events(rng, nmax=8, tmax=12):
    """(ref, est, window): reference events annotated on whole seconds (what ends up in an integer array), estimates at
    non-integral offsets around them or on whole seconds too, windows that are and are not whole numbers; the offsets
    sit on both sides of the window and exactly on it"""
    n = min(nmax, rng.choice([1, 2, 3, 4, 5, 6, 8]))
    ref = sorted(Fr(rng.randint(0, tmax)) for _ in range(n))
    if rng.random() < 0.6:
        ref = sorted(set(ref))
    w = rng.choice([Fr(1, 2), Fr(1, 2), Fr(1, 4), Fr(3, 8), Fr(3, 4), Fr(1), Fr(3, 2), Fr(1, 16), Fr(5, 4), Fr(2)])
    offs = [Fr(-22, 32), Fr(-19, 32), Fr(-13, 32), Fr(-10, 32), Fr(10, 32), Fr(13, 32), Fr(19, 32), Fr(22, 32),
            Fr(-35, 32), Fr(35, 32), Fr(-51, 32), Fr(51, 32), w, -w, w + Fr(1, 32), -w - Fr(1, 32)]
    est = []
    kind = rng.random()
    for r in ref:
        if rng.random() < 0.15:
            continue
        if kind < 0.25:
            est.append(max(Fr(0), r + rng.choice([-2, -1, 0, 0, 1, 2])))       # whole seconds on both sides
        else:
            est.append(max(Fr(0), r + rng.choice(offs)))
    for _ in range(rng.choice([0, 0, 1, 2])):
        est.append(Fr(rng.randint(0, tmax * 32), 32) if kind >= 0.25 else Fr(rng.randint(0, tmax)))
    return ref, sorted(est)[:nmax + 2], w
