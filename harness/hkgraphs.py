"""Bipartite graphs that are adversarial for the CONTROL FLOW of a Hopcroft-Karp style routine (util._bipartite_match).

A *chain* with k greedy-matched edges is the path   e* - r1 - e1 - r2 - e2 - ... - rk - ek - r*   (e's on the left = the
keys of the adjacency dict, r's on the right).  When the dict lists e1..ek before e* and every e_i lists r_i before
r_{i+1}, the greedy start pairs e_i with r_i on the whole chain and leaves e* and r* free: the only augmenting path has
2k+1 edges and the backward search (the recursion) is k+1 levels deep.

A *family* of chains with pairwise different k needs one phase per distinct k (a phase only augments along SHORTEST
augmenting paths), so chains 1..K need K phases on K(K+3)/2 left vertices -- more than any bound of the kind
c*sqrt(|U|), log|U|, "a handful".  Equal-length chains put many vertex-disjoint paths into one phase, a single long chain
stresses the depth of the recursion.  The same structures are embedded as event lists on the exact lattice (only direct
neighbours on a chain are within the window), so that match_events / the note matchers / the multi-f0 frame matcher
build these graphs themselves.

Everything here is only a SHAPE of input: what is checked on it is the same as everywhere else (the pairing is valid
and of maximum size; the proved transliteration returns the same pairs as the real routine).
"""
from fractions import Fraction as Fr

ORDERS = ("adversarial", "adversarial", "adversarial", "tail", "mixed", "shuffled", "natural")


def family_lengths(rng, tier, boost=1):
    """the multiset of chain lengths of one family"""
    kmax = 10 if tier == "quick" else 14
    u = rng.random()
    if u < 0.55:
        k = rng.randint(3, kmax)
        ls = list(range(1, k + 1))                 # one phase per chain
        if rng.random() < 0.3:
            ls = [x for x in ls if rng.random() < 0.85] or ls
    elif u < 0.7:
        k = rng.randint(2, kmax)
        ls = [k] * rng.randint(2, 8)                # many equal-length shortest paths in one phase
    elif u < 0.85:
        ls = [rng.randint(1, kmax) for _ in range(rng.randint(2, 9))]
    else:
        # one long chain: depth of the backward recursion (up to 120 levels quick / 392 thorough; the reference matchers
        # of the oracles recurse as deep, so this stays well below the interpreter's limit of 1000 frames)
        ls = [rng.randint(kmax, 12 * kmax if tier == "quick" else 28 * kmax)]
        if rng.random() < 0.5:
            ls += [1, 2, 3]
    rng.shuffle(ls)
    return ls


def chain_family(rng, lengths, order="adversarial", relabel=False, noise=0):
    """-> [(u, [v, ...]), ...] = the adjacency dict in insertion order.

    order: 'adversarial' each chain lists e1..ek and then e*;   'tail' all e* of all chains come last;
           'mixed' every chain adversarial or natural at random;   'natural' e* first (greedy is already maximum);
           'shuffled' keys and neighbour lists in random order"""
    items, tail = [], []
    u0 = v0 = 0
    for k in lengths:
        star = u0
        body = [(u0 + i, [v0 + i - 1, v0 + i]) for i in range(1, k + 1)]
        first = (star, [v0])
        o = order
        if o == "mixed":
            o = rng.choice(["adversarial", "natural"])
        if o == "natural":
            items += [first] + body
        elif o == "tail":
            items += body
            tail.append(first)
        else:
            items += body + [first]
        u0 += k + 1
        v0 += k + 1
    items += tail
    nu, nv = u0, v0
    for _ in range(noise):
        a, b = rng.randrange(nu), rng.randrange(nv)
        for u, vs in items:
            if u == a and b not in vs:
                vs.append(b)
    if order == "shuffled":
        items = [(u, sorted(vs, key=lambda x: rng.random())) for u, vs in items]
        rng.shuffle(items)
    if relabel:
        pu = rng.sample(range(2 * nu + 3), nu)
        pv = rng.sample(range(2 * nv + 3), nv)
        items = [(pu[u], [pv[v] for v in vs]) for u, vs in items]
    return items


def random_family(rng, tier, boost=1):
    order = rng.choice(ORDERS)
    ls = family_lengths(rng, tier, boost)
    noise = rng.choice([0, 0, 0, 1, 3])
    return chain_family(rng, ls, order, relabel=rng.random() < 0.3, noise=noise), \
        "chains %s n=%d%s" % (order, len(ls), " +noise" if noise else "")


def chain_events(rng, lengths, order="adversarial", step=Fr(1, 4), window=None, start=Fr(1), gap=None):
    """-> (ref, est, window): every chain laid out on a grid of `step` seconds (estimates on the even, references on the
    odd grid points), chains `gap` apart; with step <= window < 2*step only direct neighbours are feasible partners.
    The estimates of a chain are listed e1..ek, e* ('adversarial'), e* first ('natural'), or everything shuffled; the
    references ascending (shuffled with 'shuffled')."""
    if window is None:
        window = rng.choice([step, step * 3 / 2, step * 3 / 2, step * 7 / 4])
    assert step <= window < 2 * step
    if gap is None:
        gap = step * rng.choice([3, 4, 8])
    ref, est, tail = [], [], []
    base = start
    for k in lengths:
        pts = [base + step * t for t in range(2 * k + 2)]
        ce, cr = pts[0::2], pts[1::2]
        o = order
        if o == "mixed":
            o = rng.choice(["adversarial", "natural"])
        if o == "natural":
            est += ce
        elif o == "tail":
            est += ce[1:]
            tail += ce[:1]
        else:
            est += ce[1:] + ce[:1]
        ref += cr
        base = pts[-1] + gap
    est += tail
    if order == "shuffled":
        rng.shuffle(est)
        rng.shuffle(ref)
    return ref, est, window


def random_chain_events(rng, tier, max_span=None):
    """chain families as event lists on the 1/32 s lattice; `max_span` bounds the largest value (e.g. 12 for values
    compared modulo 12)"""
    while True:
        ls = family_lengths(rng, tier)
        step = rng.choice([Fr(1, 4), Fr(1, 16), Fr(1, 8), Fr(1, 2)]) if max_span is None else Fr(1, 16)
        order = rng.choice(ORDERS)
        gap = step * 3 if max_span is not None else None
        start = Fr(rng.randint(0, 64), 32) if max_span is None else Fr(0)
        ref, est, w = chain_events(rng, ls, order, step=step, start=start, gap=gap)
        if max_span is None or max(ref + est) + w < max_span - w:
            return ref, est, w, "chains %s n=%d" % (order, len(ls))
