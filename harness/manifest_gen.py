"""Regenerates MANIFEST.json from the table below (run by hand after registering / changing a check)."""
import json
import os

VERIF = os.path.dirname(os.path.dirname(os.path.abspath(__file__)))

TECH = "Lean 4 theorems over an executable model + checked model/code correspondence (line-protocol differential) + direct property oracle for failing-input search"

CHECKS = {
    "C05": dict(
        text="Lean 4 proof, for every bipartite feasibility graph, that the model's hit count (a certifying "
             "Kuhn/König algorithm with a proved checker and a proved exponential fallback) is the size of a valid "
             "one-to-one pairing of feasible pairs and that no larger one exists, plus order/enumeration "
             "independence; every pairing returned by the real util._bipartite_match / util.match_events on the "
             "explored instances is run through the proved checker (valid and of maximum size), exhaustively for all "
             "graphs up to 3x4 (quick) / 4x5 (thorough) vertices.",
        note="Trusted: Lean kernel, axioms propext/Classical.choice/Quot.sound, the correspondence harness. The Python "
             "Hopcroft-Karp is not transliterated: its outputs are certified per explored instance, not for all graphs. "
             "fastHitWindows = |ref-est|<=w is compared (exact lattice), not yet proved.",
        design="§4.1, §5 C05"),
}

NOT_YET = "check not built yet (work in progress; see DESIGN.md §9)"


def main():
    m = {
        "version": 1,
        "setup_cmd": "cd lean && lake build",
        "hooks": {
            "guard": "MIR_EVAL_VERIF",
            "enable": "no source hooks: checks import /repo in-process with PYTHONPATH=/repo; ./check exports "
                      "MIR_EVAL_VERIF=1 but nothing in mir_eval reads it",
            "baseline_off_cmd": "cd /repo && /venv/bin/python -m pytest -ra -q -p no:cacheprovider --timeout=900 "
                                "--continue-on-collection-errors",
            "source_commits": [],
            "add_only": True,
        },
        "engines": [{
            "name": "lean-proof+correspondence", "path": "check",
            "serves_properties": sorted(CHECKS),
            "kind_free_text": "Lean 4 theorems about a hand-written executable model and regenerated tables "
                              "(lean/), tied to /repo on every run by regeneration (harness/translate) and by a "
                              "line-protocol differential between the native model driver and in-process mir_eval "
                              "(harness/core.py), with a direct property oracle as failing-input search"}],
        "checks": [],
        "not_applicable": [],
        "notes": "Every check: ./check <id> --tier quick|thorough; exit 0 OK, 1 VIOLATION, 2 tool error. "
                 "Known findings in known_findings.json. See DESIGN.md.",
    }
    for i in range(1, 21):
        pid = "C%02d" % i
        if pid in CHECKS:
            c = CHECKS[pid]
            m["checks"].append({
                "property_id": pid,
                "quick_cmd": "./check %s --tier quick" % pid,
                "thorough_cmd": "./check %s --tier thorough" % pid,
                "evidence_file": "evidence/%s.json" % pid,
                "replay_cmd_template": "./check replay {path}",
                "engine": "lean-proof+correspondence",
                "level_claimed": {"category": "proof", "text": c["text"], "design_ref": c["design"]},
                "level_note": c["note"],
                "technique": c.get("technique", TECH),
            })
        else:
            m["not_applicable"].append({"property_id": pid, "reason": NOT_YET})
    with open(os.path.join(VERIF, "MANIFEST.json"), "w") as fh:
        json.dump(m, fh, indent=1)
        fh.write("\n")


if __name__ == "__main__":
    main()
