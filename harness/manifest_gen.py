"""Regenerates MANIFEST.json from the table below (run by hand after registering / changing a check)."""
import json
import os

VERIF = os.path.dirname(os.path.dirname(os.path.abspath(__file__)))

TECH = "Lean 4 theorems over an executable model + checked model/code correspondence (line-protocol differential) + direct property oracle for failing-input search"

CHECKS = {
    "C05": dict(
        text="Lean 4 proofs, for every bipartite feasibility graph: (1) a dict-order-faithful transliteration of the "
             "Python Hopcroft-Karp routine util._bipartite_match (greedy start, layered BFS, recursive augmentation with "
             "its del pred[u] / del preds[v] bookkeeping) returns a one-to-one pairing of feasible pairs of MAXIMUM size "
             "(Koenig cover from the final layering + weak duality; fuel bounds shown never to bind), and its size does not "
             "depend on dict order; (2) the same for an independent certifying model (Kuhn + Koenig certificate + proved "
             "brute-force fallback); (3) util._fast_hit_windows enumerates exactly the pairs with |ref-est| <= window; "
             "(4) note matching criteria as hit metrics. The transliteration is compared pair-for-pair with the real "
             "routine on ALL dicts up to 3x4 (quick) / 4x5 (thorough) and on shuffled random dicts; every pairing "
             "returned by match_events / match_notes / match_note_onsets / match_note_offsets / multipitch is run "
             "through the proved checker (valid and of maximum size).",
        note="Trusted: Lean kernel, axioms propext/Classical.choice/Quot.sound, the correspondence harness. That the "
             "transliteration equals the Python routine is checked (exhaustively on small dicts), not proved.",
        design="§4.1, §5 C05"),
    "C01": dict(
        text="Lean 4 proofs that every hit-based precision/recall/F (any feasibility predicate, any inputs incl. empty "
             "and duplicated, any beta) and util.f_measure lie in [0,1] and that hit counts never exceed either side; "
             "task-specific range theorems in Props/C01_<Task>.lean as they land. The model is tied to the code by value "
             "correspondence of the metric functions on the exact lattice; the range claim itself is searched on the "
             "real evaluate() of all 13 task modules with generators biased to degenerate shapes.",
        note="Range theorems exist for every task family (Props/C01_<Task>.lean), incl. the entropy-based scores over the "
             "reals (Props/C01_Entropy.lean: Shannon entropy in [0, log n], information gain in [0,1] and a number (not nan) "
             "whenever the estimated beats are strictly increasing (information_gain_finite_of_increasing), 0 <= MI <= min(H,H'), "
             "NMI, NCE over/under/F and V-measure scores in [0,1], AMI <= 1 via the hypergeometric expectation and "
             "Vandermonde; the loop's range is the whole support, weights summing to 1: hyp_weights_sum_one, "
             "emi_hypergeometric_full_support); binary64 rounding effects stay with correspondence and the oracle. Known findings: Cemgil > 1, standard_FPR precision > 1, pairwise/Rand 0/0, information gain nan for coincident "
             "estimated beats (NMI rounding noise was repaired by clipping MI at 0).",
        design="§5 C01"),
    "C02": dict(
        text="Lean 4 proof that any non-empty annotation scored against a copy of itself under a criterion that accepts "
             "identical items gets P = R = F = 1 (all hit-based metrics, any window >= 0, any beta), via max_reflexive; "
             "per-task perfect-estimate theorems in Props/C02_<Task>.lean; oracle: evaluate(x, copy(x)) on "
             "non-degenerate x for all 13 tasks must give the optimum of every score.",
        note="Non-degeneracy predicates are those of the statement (>= 5 beats, a voiced frame, an in-gamut chord, a "
             "reference triple for hierarchy - stated on the input by C02_Hierarchy.tmeasure_self_iff / lmeasure_self_iff: "
             "some query frame has two frames in its window at different LCA / meet depths -, two labels at frame "
             "level for NCE). Beat heuristics and entropy scores: "
             "oracle + correspondence unless a task theorem is listed in the evidence.",
        design="§5 C02"),
    "C06": dict(
        text="Lean 4 proof that exchanging reference and estimate (with the criterion's roles exchanged) exchanges "
             "precision and recall and keeps F at beta=1 for every hit-based metric (transpose of the feasibility "
             "graph preserves the maximum matching size), instantiated for symmetric windows; per-task swap theorems "
             "in Props/C06_<Task>.lean; oracle: evaluate(a,b) vs evaluate(b,a) on inputs admissible in both roles.",
        note="Offset-tolerant note matching is not symmetric (tolerance scales with the reference duration) and is not "
             "claimed, as in the statement.",
        design="§5 C06"),
    "C07": dict(
        text="Lean 4 proof that a criterion accepting a superset of pairs never lowers hits, precision, recall or F "
             "(max_mono + monotonicity of F in P and R, any beta), instantiated for event windows; per-task tolerance "
             "and nesting theorems in Props/C07_<Task>.lean; oracle: ascending tolerance ladders and nested score pairs "
             "on the real evaluate().",
        note="Tolerance ladders contain lattice-adjacent and threshold-coincident values on the exact lattice.",
        design="§5 C07"),
    "C08": dict(
        text="Lean 4 proofs that windowed hit counts (hence P/R/F) are invariant under a common time shift, under any "
             "transformation the criterion cannot see, and under any permutation of the reference or estimated items "
             "(index-bijection from List.Perm + max_relabel); per-task theorems in Props/C08_<Task>.lean; oracle: "
             "shift by lattice offsets, shuffles, random injective relabelings on the real evaluate().",
        note="Scores that depend on WHICH maximum matching is returned (average overlap ratio) are not claimed "
             "permutation invariant, as in the statement (precision/recall/F only). Segment labelling scores: the relabelling "
             "theorems hold at the level of label STRINGS (Props/C08_Segment.lean *_rename_labels: a renaming that is "
             "injective modulo the code's case folding and does not touch the fill value 'none' maps the frame index "
             "sequences of util.index_labels by an injective function), for the real-number reading of the entropy scores.",
        design="§5 C08"),
    "C10": dict(
        text="Lean 4 proofs over an inductive Harte grammar and string-level models of validate/split/join/encode that use "
             "tables REGENERATED from chord.py on every run: recognize∘render = id and soundness (acceptance = "
             "derivability), totality with InvalidChord as the only error for every string, encode range "
             "(root/bass in 0..11, 12-long 0/1 bitmap containing the bass), sentinels, encode semantics against a "
             "hand-transcribed specification of shorthands/degrees/reduction, join∘split preserves the encoding for "
             "every permutation of the degree set; CHORD_RE itself is REGENERATED (harness/translate/regex.py: the pattern "
             "string from chord.py's AST, parsed by Python's own re._parser, emitted as a Lean regex term) and proved, for "
             "every string, to accept exactly the grammar (Props/C10_Regex.lean: a verified regex matcher decides a "
             "denotational semantics with context-sensitive anchors; the pattern's language is decomposed structurally "
             "into accidentals / degrees / item list / shorthands / bass); the `$`-variant is proved to accept label+newline. "
             "validate_chord_label / split / join / reduce_extended_quality / scale_degree_to_bitmap / quality_to_bitmap / encode "
             "themselves are REGENERATED as shallow Lean definitions (harness/translate/scalars_chordfn.py -> MirGen/ChordFns.lean) "
             "and proved equal to the string-level models for all arguments, so every statement above holds of the code as translated "
             "(Props/C10_GenFns.lean).",
        note="Trusted on the regex path: Python's re implements the regex semantics (validated on every run: CHORD_RE and "
             "random patterns vs the verified matcher, incl. newlines, NUL, non-ASCII, runs of 4000 accidentals) and the translator. "
             "The finding (validate_chord_label accepted a valid label followed by one newline) was repaired (CHORD_RE ends with \\Z); acceptance = grammar is now proved without exception.",
        design="§5 C10"),
    "C18": dict(
        text="Lean 4 proofs for every multipitch input: total error = substitution + miss + false alarm, each >= 0, accuracy "
             "<= min(P, R), the same for chroma, per-frame true positives <= min(#ref, #est) and are maximum matchings "
             "of their criterion, chroma count >= raw count (circular distance <= absolute distance + monotonicity "
             "of maximum matchings), nearest-frame resampling incl. out-of-range => empty frame; value correspondence "
             "of metrics / compute_num_true_positives / resample_multipitch / compute_accuracy / compute_err_score; "
             "identities searched on the real 14-tuple.",
        note="Pitch is modelled in the log domain (MIDI numbers); log2 is exercised through the harness conversion "
             "only. Known finding: metrics() skips resampling when np.allclose(est_time, ref_time), whose relative "
             "tolerance reaches a whole frame for late time stamps.",
        design="§5 C18"),
    "C03": dict(
        text="Lean 4 proofs over a mini-language for evaluate() bodies whose programs and the signature table are "
             "REGENERATED from /repo's AST on every run: for every user keyword dictionary, each task's evaluate() raises "
             "nothing, produces the documented key list in order, and routes to every callee exactly the documented "
             "per-entry parameters (forced values override user values; unrelated keywords are ignored; "
             "filter_kwargs specification); real evaluate(x, **kw) is compared with the real metric functions called "
             "directly on the identically pre-processed input for keyword subsets incl. empty annotations.",
        note="The translator (harness/translate/signatures.py, evalprogs.py) is trusted and fails closed on statement "
             "forms outside its subset. Value-level scalar arity of every metric on every input is oracle-checked, "
             "only the syntactic return shape is proved. The findings of this property (pattern.evaluate forced 'thresh' instead of 'thres'; first_n_* / rand_index / ari "
             "returned 3-tuples on empty input) were repaired by fix: commits; their witnesses are regression inputs.",
        design="§5 C03"),
    "C04": dict(
        text="The Lean model is the executable definition of every event/frame/note metric (beat x6 incl. variations, "
             "onset, boundary detection/deviation, melody, multipitch, transcription + velocity, tempo, alignment, "
             "pattern), with 'algorithm = definition' theorems where the code is cleverer than the definition "
             "(_fast_hit_windows = tolerance predicate, matching number, metrical variations, chroma folding = distance "
             "to 1200Z, tempo hit iff, medians, PCS overlap, pattern score matrices, least-squares line); the property "
             "is decided by value correspondence on exact-lattice / margin streams, a disagreement being itself the "
             "failing input; documented defaults are pinned.",
        note="exp/log/erf/lgamma parts agree to 1e-9 only (Lean Float vs NumPy/SciPy); log2 on pitches is exercised "
             "through the harness conversion; key table is part of C09/C11's key model.",
        design="§5 C04"),
    "C12": dict(
        text="Lean 4 proofs: weighted_accuracy is invariant under positive rescaling of the weights, is the weighted "
             "mean over comparable entries, is 1 / 0 when all comparable comparisons are 1 / 0; splitting an interval "
             "at an interior point changes no label at any instant, no frame label, no merged chord segmentation and "
             "no chord score for any comparison function on abstract tokens (for ARBITRARY annotations: no alignment, "
             "contiguity or ordering needed); adjust_intervals commutes with cutting an interval (the cut survives or "
             "disappears, exceptions alike); hence the whole chord.evaluate pipeline on tokens (span, adjust_intervals "
             "of the estimate, merge_chord_intervals + under/overseg/seg, merge_labeled_intervals + durations + "
             "weighted_accuracy under any comparison function) returns the same scores or the same exception after "
             "cutting any reference interval (no hypothesis) or any estimate interval (only hypothesis: the rows after "
             "the cut one start no earlier than its end; shown necessary), also when the cut interval is cropped or "
             "padded; refinement oracle on chord.evaluate, segment metrics and hierarchy.lmeasure (exact on the lattice).",
        note="The frame-based segment / L-measure scores rest on samples_split_invariant plus the refinement oracle; "
             "chord labels enter the evaluate theorems as abstract tokens (one per distinct encoding, C10/C11).",
        design="§5 C12"),
    "C13": dict(
        text="Lean 4 proofs for time-ordered input of any size and arbitrary rational or absent crop points: "
             "adjust_intervals output spans [t_min, t_max], is ordered, stays inside the range, carries the documented "
             "label at every instant (partial, see findings), interpolate_intervals / intervals_to_samples give "
             "each time the label of the last closed interval containing it or the fill value, "
             "merge_labeled_intervals is the common refinement with conserved duration, adjust_events on time-ordered "
             "events returns exactly the documented list (events inside [t_min, t_max] in order, t_min / t_max added "
             "with the synthetic labels exactly when missing; one-sided versions; range, order, both bounds present; "
             "IndexError cases), boundaries<->intervals are "
             "mutually inverse on 5-decimal-exact contiguous segmentations and, for other times, return the 5-decimal "
             "rounding of the input whenever rounding keeps the boundaries apart (b2i_i2b_rounded, i2b_b2i_rounded); "
             "exhaustive small-scope correspondence in "
             "the thorough tier.",
        note="Repaired: zero-length intervals when an interval ends exactly at t_min / starts at t_max. Known findings that remain "
             "(full statements refuted in Lean, partial theorems proved): all intervals before t_min collapse to zero "
             "length; an internal gap next to a crop point comes back labelled; adjust_events keeps all events and adds no "
             "t_min when no event reaches t_min, and raises IndexError when t_min is None and every event lies after t_max.",
        design="§5 C13"),
    "C14": dict(
        text="Lean 4 proofs for each of the 26 validators (array descriptors): only ok or ValueError can come out "
             "(InvalidChord for labels), V x = ok iff the documented convention holds (written as an independent "
             "Prop), every documented fault class is rejected; exception-class correspondence of the real validators "
             "on valid and single-fault streams; oracle over every task entry point: valid inputs incl. degenerate and "
             "boundary-coincident shapes never raise, one single-fault corruption per documented fault class raises "
             "ValueError / InvalidChordException and nothing else.",
        note="Totality of the metric bodies on valid input (valid => a result, and which exception classes can escape on ANY "
             "input) is proved per task in Props/C14_<Task>.lean for beat, boundary, alignment, pattern, melody, multipitch, "
             "transcription(+velocity), segment labelling and chord-level scoring, onset (C14_Onset.f_measure_ok_iff), tempo "
             "(C14_Tempo.detection_total / detection_errors), key (C14_Key.weighted_score_errors: no KeyError escapes), "
             "hierarchy in C17; escapes found there (goto_threshold >= 1 -> IndexError, empty pattern occurrences -> ZeroDivisionError, "
             "empty melody series -> IndexError, ...) are stated as refuted full statements with the exact escaping set. NaN and non-array containers are out of scope. Repaired: p_score int(NaN), zero-length crop in segment/chord.evaluate on boundary coincidence, beat.evaluate "
             "flattening 2-D input. Known findings that remain: negative multipitch frequency accepted (repairing it would turn a "
             "baseline XPASS test into XFAIL), one-level hierarchies never validated, chord TypeError on a zero-span reference, "
             "estimate entirely outside the reference span.",
        design="§5 C14"),
    "C16": dict(
        text="Lean 4 proofs for label sequences of any length: the code's outer-equality pair counting equals the "
             "contingency-table binomial sums, pairwise P/R/F, Rand and ARI equal their textbook formulas (with the "
             "code's special cases), ARI = 1 when the partitions coincide and never exceeds 1, vmeasure = "
             "nce(marginal=True) definitionally, V is the harmonic mean, MI is symmetric and equals the textbook sum "
             "(over the reals); also over the reals: _entropy is the Shannon entropy -sum p log p (>= 0, > 0 iff two or "
             "more clusters), NMI = MI/max(sqrt(H H'), 1e-10), NCE over/under = 1 - H2(est|ref)/log2 k_est and "
             "1 - H2(ref|est)/log2 k_ref (0 with fewer than two clusters), V-measure scores = 1 - H(.|.)/H(.) = MI/H(.) "
             "(chain rule MI = H(est) - H(est|ref)), gammaln(k+1) = log k!, the AMI triple loop is the hypergeometric "
             "expectation sum (k/n) log(nk/(ab)) C(a,k)C(n-a,b-k)/C(n,b) over the whole support, the weights summing to 1 "
             "(hypergeometric_weights_sum_one, emi_is_hypergeometric_expectation), and AMI = (MI-EMI)/(max(H,H')-EMI), with "
             "the one-cluster/empty early returns; labels are compared case-insensitively; the frame sampler is the annotation's "
             "half-open denotation at the frame times, on annotations with gaps completed by the label of a row ending "
             "exactly there (frames_with_gaps); exact correspondence for the rational "
             "indices, 1e-9 for the transcendental ones; thorough tier enumerates all pairs of restricted-growth "
             "label sequences up to 8 frames. The index functions themselves (_contingency_matrix, _adjusted_rand_index, the "
             "bodies of pairwise / rand_index / ari, and - polymorphically over the model's number class - _entropy, "
             "_mutual_info_score, _normalized_mutual_info_score, nce, vmeasure) are re-translated from segment.py on every run "
             "(harness/translate/segindex.py -> lean/MirGen/SegIndex.lean) and proved equal to the hand model for all label "
             "sequences (Props/C16_GenIndex.lean), so a source change to one of them breaks a named <f>_eq_model theorem.",
        note="The textbook forms are over the reals (the Real instance of the model's Transc class); the executed "
             "Float instance is tied to them only through the shared definition and the 1e-9 correspondence.",
        design="§5 C16"),
    "C17": dict(
        text="Lean 4 proofs for all inputs: _count_inversions = #{(x,y) | x >= y}, _compare_frame_rankings = "
             "(#triples - #correct, #triples) for both transitive settings, the window slice minus the query is the "
             "window, _gauc equals the brute-force triplet definition and lies in [0,1], lca/meet specs, "
             "tmeasure/lmeasure equal the definition with roles exchanged for precision, parameter rejections, the "
             "self-score is (1,1,1) iff some query frame has two window frames at related LCA / meet depths "
             "(C02_Hierarchy.tmeasure_self_iff, lmeasure_self_iff); "
             "exact rational correspondence; brute-force triple enumeration oracle.",
        note="The finding (tmeasure / lmeasure raised IndexError when a query window holds exactly one frame) was repaired; the "
             "totality theorems now hold without exception.",
        design="§5 C17"),
    "C19": dict(
        text="Lean 4 proofs (a) about the logic around an ABSTRACT projection operator: the four components sum to "
             "the estimate for any projection, source criteria are scale-invariant under homogeneity, the returned "
             "permutation is a permutation maximising mean SIR (first maximiser in itertools order) and follows a "
             "reordering of the estimates for a unique maximiser, framewise windows / fall-back / per-window "
             "consistency / NaN masks / arities; and (b) (Props/C19_LS.lean over MirModel/SeparationLS.lean) about an EXACT "
             "rational model of the least-squares projection _project itself (delayed zero-padded references, Gram matrix, "
             "Gaussian elimination, projected signal) for all inputs: elimination is sound, unique and succeeds exactly on "
             "matrices with trivial kernel; the projection satisfies the normal equations, lies in the span, minimises "
             "the squared error, is homogeneous in the estimate, invariant under rescaling references and idempotent "
             "on the span, so that decomposition / scale-invariance / perfect-estimate theorems hold for the concrete "
             "model with NO hypothesis on the projection, end to end for every output of the exact bss_eval_sources "
             "incl. the permutation; normal equations are always consistent and the lstsq fall-back (elimination with free "
             "unknowns set to 0) is total and least-squares for every input (solveAny_normal_equations, projectAny_total) and "
             "returns the signal of any exact solution, lstsq's minimum-norm one included (projectAny_eq_of_solution); the "
             "product-of-ratios argmax of the model is the first argmax of the mean SIR in dB (bestPermMul_is_first_argmax_db); "
             "_project_images is _project channel by channel. The exact model is tied to the "
             "real _project, _project_images, _bss_decomp_mtifilt(_images), the criteria and bss_eval_sources/_images "
             "(forced filter length 1..3, cached-G path, lstsq fall-back) by correspondence at 1e-9. "
             "The code around the projections is REGENERATED from separation.py on every run (translator part sepcrit -> "
             "MirGen/SepCrit.lean: _safe_db, _bss_source_crit, _bss_image_crit, the arithmetic of _bss_decomp_mtifilt with "
             "_project as a parameter, _any_source_silent, the selection glue of bss_eval_sources and the window loops of both "
             "framewise functions) and Props/C19_Gen.lean proves the generated definitions equal to the hand model for all "
             "inputs and re-states the decomposition identity and the permutation optimality on them.",
        note="PARTIAL in one respect: that the FFT / Toeplitz / solve / fftconvolve pipeline computes the exact projection "
             "in binary64 is correspondence (small filter lengths) and numerical oracle (flen 512), not proof. Repaired: "
             "images-framewise isr uninitialised on silent windows, 4 arrays on empty input, AttributeError on a singular "
             "system under numpy 2. Known findings that remain: image SDR/ISR are not scale-invariant (by definition of the "
             "image criteria); on exactly rank-deficient references np.linalg.solve sometimes returns without "
             "LinAlgError and _project_images returns a signal that is not the projection.",
        design="§5 C19"),
    "C20": dict(
        text="Lean 4 proofs over List Char with abstract token converters, for files of any length: split/join round "
             "trip (last field may contain the delimiter), load_delimited returns the written rows in file order "
             "skipping column-0 comment lines (typed corollaries load_<wrapper>_roundtrip for the six delimited wrappers), "
             "wrong column count / unparsable number raise ValueError naming the "
             "1-based row, blank lines are malformed rows, key/tempo single-line and weight-range rules, ragged and "
             "pattern state machines; loaders compared bit-for-bit (struct.pack) from StringIO, path and open file. "
             "All 11 loaders of mir_eval/io.py are regenerated from the source on every run (MirGen/IOLoad.lean) and proved "
             "equal to the loader model for all texts, converters, delimiters and markers (Props/C20_GenIO.lean).",
        note="float(str)/repr(float) and Python's re are trusted; warnings are checked by the oracle only. The two findings (load_ragged_time_series(header=True) did not skip the header; load_patterns raised IndexError on a "
             "one-column data row) were repaired.",
        design="§5 C20"),
    "C09": dict(
        text="Lean 4 proofs: pitch_class_to_semitone depends only on (letter + #sharps - #flats) mod 12 for accidental runs "
             "of any length; all 12 chord comparison rules are invariant under joint transposition for every reachable "
             "pair incl. N and X; the key score takes values in {0, .2, .3, .5, 1}, equals the documented table and is "
             "invariant under enharmonic respelling, letter case and joint transposition for all key pairs (finite type, "
             "general proofs + string front end); in the log-domain pitch models, joint scaling of all frequencies leaves "
             "melody / multipitch / transcription scores unchanged, octave shifts of the estimate leave chroma scores "
             "unchanged (chroma distance is even and 1200-periodic), RPA/RCA ignore the estimated voicing; oracles on "
             "the real code for all of these (octaves exactly, other factors with margins), key pairs exhaustively.",
        note="log2 is trusted (whole octaves rely on NumPy's log2 being exact up to cancellation; checked by the oracle). "
             "Label level: encode_respell / encode_transpose are proved over C10's encode model (Props/C09_Labels.lean), so all 12 "
             "rules are invariant under joint transposition / respelling of LABELS; chord.evaluate itself is modelled on label "
             "strings as the code is (MirModel/ChordEvaluate.lean: the estimate is adjusted with 'N', neighbours are fused by the "
             "REDUCED encoding while the 12 rules compare the non-reduced one; correspondence suite chord_evaluate) and "
             "transpose_evaluate (Props/C09_Evaluate.lean) proves all 15 scores, or the exception, unchanged under joint "
             "transposition / respelling of the labels, from a general theorem: the pipeline is invariant under token maps that "
             "are injective on the fusing keys and preserve the comparison functions. Known "
             "findings: a frequency exactly at the 10 Hz base is treated as 'no pitch'.",
        design="§5 C09"),
    "C11": dict(
        text="Lean 4 proofs over encodings (root, 12-bit bitmap, bass) for ALL pairs of reachable encodings (not by "
             "enumeration): every rule returns -1/0/1, -1 depends on the reference alone, cmp a a != 0, "
             "tetrads_inv <= tetrads <= triads <= thirds <= root pointwise, each _inv rule below its plain rule, "
             "majmin => triads, sevenths => tetrads, a tetrads match is never a mirex mismatch, the vocabularies of "
             "majmin / sevenths / mirex / *_inv, X always ignored; the 12 real functions are compared with the model "
             "on ~5,200 labels (2,064 distinct encodings) and the lattice is asserted directly on the real functions. "
             "rotate_bitmap_to_root (mirex) is REGENERATED from the source and proved equal to the model's rotation (Props/C11_GenFns.lean)."
             " The twelve comparison functions, validate and rotate_bitmaps_to_roots are REGENERATED from the source (translate/chordcmp.py -> MirGen/ChordCmp.lean over MirModel/PyCmp.lean) and proved equal to the row model applied to the rows of encode_many for ALL label lists, exceptions included (Props/C11_GenCmp.lean).",
        note="Props/C11_Labels.lean bridges to C10: everything chord.encode can return is Reachable (encode_reachable), the "
             "rule model's quality bitmaps equal the regenerated tables, and the lattice is restated for grammar-derivable "
             "labels. Known finding: majmin_inv compares a maj/min reference whose bass is 8-11 semitones "
             "above the root although the docstring requires the bass to be a chord tone.",
        design="§5 C11"),
    "C15": dict(
        text="PARTIAL. Lean 4 proofs about an effect abstraction of the Python source REGENERATED on every run: a "
             "flow-sensitive may-alias / in-place-write / np.empty analysis is proved sound against a big-step "
             "semantics (safe => every execution, incl. early return and exceptions, leaves every pre-existing location "
             "unchanged and writes no global state), history invariant for any sequence of safe API calls, and the "
             "generated summaries of the public functions are checked safe / initialised / free of global writes by "
             "decide; the abstraction is validated at run time for all 153 public functions (deep snapshots, repeat "
             "calls, read-only inputs, poisoned np.empty, shuffled call histories).",
        note="The translator's classification table (which NumPy/SciPy/builtin calls allocate, return views or write in "
             "place) is trusted and validated, not verified. empty_init_sound (initOK => no path returns a partly written np.empty "
             "buffer) is proved. Bit-identical repeatability is observed, not modelled. "
             "The findings (freq_to_voicing wrote the caller's voicing array; adjust_intervals/adjust_events and chord.evaluate "
             "appended to the caller's label list; bss_eval_images_framewise returned uninitialised isr) were repaired: safe / "
             "initOK now hold for every public function (util.intersect_files excepted: beyond the analysis, clean at run time).",
        design="§5 C15"),
}

NOT_YET = "check not built yet (work in progress; see DESIGN.md §9)"


_FM = (" util.f_measure itself is REGENERATED from /repo's AST on every run (lean/MirGen/Scalars.lean) and proved equal to "
       "the hand model for all arguments (Props/%s_Gen.lean), so the P/R/F theorems speak about the code as translated.")
for _p in ("C01", "C02", "C06", "C07"):
    CHECKS[_p]["text"] += _FM % _p
CHECKS["C04"]["text"] += (" key.validate_key / split_key_string / weighted_score and KEY_TO_SEMITONE are REGENERATED from the "
                          "source on every run and proved equal to the key model (Props/C04_KeyGen.lean), incl. the documented "
                          "key-relationship table on the translated code.")
CHECKS["C04"]["text"] += (" The event-metric glue — util._fast_hit_windows, util.match_events (distance=None), onset.f_measure, "
                          "beat.f_measure, segment.detection, segment.deviation — is REGENERATED from the source on every run "
                          "(translator part `evglue` -> lean/MirGen/EvGlue.lean); Props/C04_GenGlue.lean proves the first five "
                          "equal to the hand models for all inputs (hit pairs = the tolerance predicate for unsorted / duplicated "
                          "event lists, the hit dict + the proved Hopcroft-Karp transliteration, the empty-input returns, Python "
                          "float division) and re-states the C04 / C05 / C07 statements on them; suite gen_evglue runs all six "
                          "against the real functions.")
CHECKS["C04"]["text"] += (" tempo.validate / tempo.detection and the transcription P/R/F functions (onset_, offset_precision_recall_f1, "
                          "precision_recall_f1_overlap) are regenerated as well (parts `evglue`, `trmatch`) and proved equal to the "
                          "definitions (Props/C04_GenGlue.lean, C04_GenTr.lean).")
CHECKS["C04"]["text"] += (" transcription.average_overlap_ratio, the `evaluate` glue of transcription and transcription_velocity "
                          "(the keywords of **kwargs as optional parameters) and transcription_velocity.match_notes / "
                          "precision_recall_f1_overlap are regenerated too (part `trvel` -> lean/MirGen/TrVel.lean; `np.linalg.lstsq` on "
                          "the design matrix [x, 1] is an extern read as the exact 2x2 normal-equation solution incl. the rank-deficient "
                          "minimum-norm case) and proved equal to the hand model for all inputs (Props/C04_GenTrVel.lean); suite gen_trvel.")
CHECKS["C05"]["text"] += (" util._fast_hit_windows / util.match_events and transcription.match_note_onsets / match_note_offsets / "
                          "match_notes are REGENERATED from the source on every run (translator parts `evglue`, `trmatch`); "
                          "Props/C05_GenGlue.lean and C05_GenTr.lean prove the translated definitions equal to the hand model and "
                          "state C05 on them: the hit pairs are exactly the tolerance predicate, every returned pair satisfies all "
                          "enabled criteria, no note is used twice, no valid pairing is larger; suites gen_evglue.util and "
                          "gen_trmatch run them against the real functions.")
CHECKS["C07"]["text"] += (" Props/C07_GenGlue.lean states the widening theorems on the REGENERATED onset.f_measure, beat.f_measure, "
                          "segment.detection and tempo.detection (translator part `evglue`).")
CHECKS["C04"]["text"] += (" The documented default parameter values are proved (decide) to be the defaults of the signature "
                          "table regenerated from the source (Props/C04_Defaults.lean).")
for _p in ("C09", "C10"):
    CHECKS[_p]["text"] += (" chord.pitch_class_to_semitone / scale_degree_to_semitone are REGENERATED from the source on every "
                           "run and proved equal to the hand models (Props/%s_Gen.lean)." % _p)
CHECKS["C05"]["text"] += (" Task level: the hit totals recovered from multipitch.metrics (raw and chroma), onset.f_measure and "
                          "beat.f_measure are compared with exact maximum-matching sizes.")
CHECKS["C12"]["text"] += (" chord.directional_hamming_distance, overseg, underseg, seg, merge_chord_intervals (encode_many as an extern "
                          "bound to the hand model) and weighted_accuracy are REGENERATED from the source on every run (translator "
                          "part chordseg -> MirGen/ChordSeg.lean, Python vs NumPy division with nan / inf explicit) and proved equal "
                          "to the hand model for all inputs, value / nan / exception class (Props/C12_Gen.lean).")
CHECKS["C13"]["text"] += (" Histories: re-expressing the SAME array / label-list objects to several ranges must give, at every "
                          "step, what a fresh copy of the annotation gives.")
CHECKS["C13"]["text"] += (" util.validate_intervals, intervals_to_durations, intervals_to_boundaries, boundaries_to_intervals, "
                          "sort_labeled_intervals, adjust_events and adjust_intervals are REGENERATED from the source on every run "
                          "(translator part utilint -> MirGen/UtilInt.lean) and proved equal to the hand model for all interval / "
                          "label lists and crop points, value or exception class (Props/C13_Gen.lean); since the loop stage also "
                          "interpolate_intervals, intervals_to_samples, merge_labeled_intervals, index_labels (both case modes, "
                          "with the inverse dict) and generate_labels, their `for` loops as structurally recursive definitions.")
CHECKS["C14"]["text"] += (" Valid annotation objects are scored a second time by the same and by other entry points of the task "
                          "(a call that damages its input makes the next call reject a valid annotation).")
CHECKS["C14"]["text"] += (" Twenty validators (util.validate_events / validate_intervals / validate_frequencies and the validate functions "
                          "of beat, onset, tempo, segment, alignment, melody, transcription(+velocity), multipitch, hierarchy, pattern, "
                          "separation) are regenerated from the source's AST on every run (lean/MirGen/Validators.lean) and proved equal "
                          "to the hand-written validator model for all arrays (Props/C14_GenVal.lean), so the accept/reject "
                          "characterisations are theorems about the code as translated.")
CHECKS["C15"]["text"] += (" Histories include evaluate() of several tasks with non-default metric keywords (keyword routing must "
                          "not depend on which same-named metric of another task ran before).")
CHECKS["C18"]["text"] += (" Call sequences: consecutive resampling / metrics calls whose estimate time bases share length and end "
                          "points but not the interior time stamps.")
CHECKS["C18"]["text"] += (" The count-level functions (compute_num_freqs, compute_num_true_positives, compute_accuracy, "
                          "compute_err_score), resample_multipitch, midi_to_chroma and metrics are REGENERATED from "
                          "mir_eval/multipitch.py on every run (translator part `multipitch` -> lean/MirGen/Multipitch.lean) and "
                          "Props/C18_Gen.lean proves each translated definition equal to the hand model for all inputs, so the "
                          "identities above are theorems about the code as translated; suite gen_multipitch runs the translated "
                          "definitions against the real functions (all count triples over {0..3} up to length 2/3, every length "
                          "combination incl. NumPy broadcasting).")
CHECKS["C17"]["text"] += (" _count_inversions (its two-pointer while loop as a fuel-indexed recursion whose fuel is proved never "
                          "to bind), _compare_frame_rankings, _gauc, _round, _hierarchy_bounds, _lca, _meet, tmeasure and lmeasure are "
                          "REGENERATED from mir_eval/hierarchy.py on every run (translator part `hierarchy` -> "
                          "lean/MirGen/Hierarchy.lean) and Props/C17_Gen.lean proves each translated definition equal to the hand "
                          "model for ALL inputs (rank vectors, matrices, windows, hierarchies, label lists, both transitive values; "
                          "frame_size > 0 for the private matrix builders, beta > 0 for the public functions; value or exception "
                          "class), so 'T-/L-measure = triplet definition' is a theorem about the code as translated; suite "
                          "gen_hierarchy runs the translated definitions against the real functions (exhaustively on small rank "
                          "vectors, on the hierarchy / label / fault streams).")
CHECKS["C04"]["text"] += (" The melody frame metrics (validate_voicing, validate, voicing_recall, voicing_false_alarm, "
                          "voicing_measures, raw_pitch_accuracy, raw_chroma_accuracy, overall_accuracy), freq_to_voicing, "
                          "constant_hop_timebase and the glue of evaluate (to_cent_voicing an extern) are REGENERATED from mir_eval/melody.py on every run (translator part `melody` -> "
                          "lean/MirGen/Melody.lean over the run-time library MirModel/PyMel.lean) and Props/C04_GenMelody.lean proves "
                          "each translated definition equal to the hand model for all arrays and tolerances and re-states the "
                          "published definitions, the [0, 1] range and the octave invariance of the chroma accuracy on the code as "
                          "translated; suite gen_melody runs the translated definitions and the run-time primitives against the "
                          "real functions / NumPy.")
CHECKS["C04"]["text"] += (" The pattern-discovery metrics (_occurrence_intersection, _compute_score_matrix, standard_FPR, "
                          "establishment_FPR, occurrence_FPR, three_layer_FPR with its closures, first_n_three_layer_P, "
                          "first_n_target_proportion_R) are REGENERATED from mir_eval/pattern.py on every run (translator part "
                          "`pattern` -> lean/MirGen/Pattern.lean over the run-time library MirModel/PyPat.lean and the validators "
                          "part's pattern.validate) and Props/C04_GenPattern.lean proves each translated definition equal to the "
                          "hand model for all pattern lists (value or exception class, ZeroDivisionError on empty occurrences, "
                          "precision above 1 in standard_FPR mirrored) and re-states the documented definitions and the [0, 1] "
                          "range on the code as translated; suite gen_pattern runs the translated definitions and the run-time "
                          "primitives against the real functions / NumPy.")
CHECKS["C04"]["text"] += (" Of mir_eval/beat.py, trim_beats, _get_reference_beat_variations (np.arange / np.interp / [k::2] slices) and "
                          "p_score (impulse trains, np.correlate and the Python slice, statement by statement) are REGENERATED on every run "
                          "(translator part `beat` -> lean/MirGen/Beat.lean over MirModel/PyBeat.lean) and Props/C04_GenBeat.lean proves "
                          "each translated definition equal to the hand model for all beat lists (value or exception class) and "
                          "re-states the variation / P-score definitions on the code as translated; suite gen_beat runs them and the "
                          "run-time primitives against the real functions / NumPy; goto, continuity, cemgil, information_gain and "
                          "evaluate stay hand model + correspondence.")
CHECKS["C04"]["text"] += (" The alignment metrics (absolute_error, percentage_correct, percentage_correct_segments in both variants, "
                          "karaoke_perceptual_metric for every interpretation of exp / erf) and the glue of alignment.evaluate are "
                          "REGENERATED from mir_eval/alignment.py on every run (translator part `alignment` -> lean/MirGen/Alignment.lean "
                          "over MirModel/PyAl.lean; validate is bound to the definition regenerated by part `validators`) and "
                          "Props/C04_GenAlignment.lean proves each translated definition equal to the hand model for all timestamp "
                          "lists, windows and durations; suite gen_alignment runs them and the run-time primitives against the real "
                          "functions / NumPy / SciPy; the glue of onset.evaluate / tempo.evaluate is regenerated likewise (part "
                          "`evalglue` -> lean/MirGen/EvalGlue.lean, Props/C04_GenEvalGlue.lean, suite gen_evalglue).")


def main():
    m = {
        "version": 1,
        "setup_cmd": "./setup.sh",
        "hooks": {
            "guard": "MIR_EVAL_VERIF",
            "enable": "no source hooks: checks import /repo in-process with PYTHONPATH=/repo; ./check exports "
                      "MIR_EVAL_VERIF=1 but nothing in mir_eval reads it",
            "baseline_off_cmd": "cd /repo && /venv/bin/python -m pytest -ra -q -p no:cacheprovider --timeout=900 "
                                "--continue-on-collection-errors",
            "source_commits": [],
            "add_only": True,
        },
        "engines": [{
            "name": "lean-proof+correspondence", "path": "check",
            "serves_properties": sorted(CHECKS),
            "kind_free_text": "Lean 4 theorems about a hand-written executable model and regenerated tables "
                              "(lean/), tied to /repo on every run by regeneration (harness/translate) and by a "
                              "line-protocol differential between the native model driver and in-process mir_eval "
                              "(harness/core.py), with a direct property oracle as failing-input search"}],
        "checks": [],
        "not_applicable": [],
        "notes": "Every check: ./check <id> --tier quick|thorough; exit 0 OK, 1 VIOLATION, 2 tool error. "
                 "Known findings in known_findings.json. See DESIGN.md.",
    }
    for i in range(1, 21):
        pid = "C%02d" % i
        if pid in CHECKS:
            c = CHECKS[pid]
            m["checks"].append({
                "property_id": pid,
                "quick_cmd": "./check %s --tier quick" % pid,
                "thorough_cmd": "./check %s --tier thorough" % pid,
                "evidence_file": "evidence/%s.json" % pid,
                "replay_cmd_template": "./check replay {path}",
                "engine": "lean-proof+correspondence",
                "level_claimed": {"category": "proof", "text": c["text"], "design_ref": c["design"]},
                "level_note": c["note"],
                "technique": c.get("technique", TECH),
            })
        else:
            m["not_applicable"].append({"property_id": pid, "reason": NOT_YET})
    with open(os.path.join(VERIF, "MANIFEST.json"), "w") as fh:
        json.dump(m, fh, indent=1)
        fh.write("\n")


if __name__ == "__main__":
    main()
