"""C09, pitch part: oracle on the real melody / multipitch / transcription evaluate()."""
import tasks as T
import relcheck as R

FACTORS = ["2", "1/2", "4", "1/4", "3/2", "5/4", "1001/1000", "4/3"]
OCTAVES = ["2", "1/2", "4"]


def make():
    checkers, oracles = {}, {}
    for name in R.PITCH_TASKS:
        task = T.TASKS[name]
        site = "%s.evaluate(pitch)" % name

        def chk(inp, task=task):
            return R.check_pitch(task, inp)

        def gen(rng, tier, shard, nshards, boost, task=task):
            n = (60 if tier == "quick" else 1500) * boost
            for _ in range(n):
                inp = task.gen(rng)
                inp["transform"] = {"factor": rng.choice(FACTORS), "octave": rng.choice(OCTAVES)}
                yield inp
        checkers[site] = chk
        oracles[site] = gen
    return checkers, oracles
