"""Shared plumbing for the relational property modules C01, C02, C06, C07, C08 (oracle side)."""
from fractions import Fraction as Fr

import tasks as T
import relcheck as R


def make(check, self_inputs=False, budget_quick=60, budget_thorough=1500, tasks=None):
    checkers, oracles = {}, {}
    for name, task in T.TASKS.items():
        if tasks is not None and name not in tasks:
            continue
        site = "%s.evaluate" % name

        def chk(inp, task=task):
            return check(task, inp)

        def gen(rng, tier, shard, nshards, boost, task=task):
            n = (budget_quick if tier == "quick" else budget_thorough) * boost
            for i in range(n):
                inp = task.gen_self(rng) if self_inputs else task.gen(rng)
                inp["transform"] = {"shift": str(Fr(rng.randint(1, 128), 32)), "seed": rng.randint(0, 10 ** 6)}
                yield inp
        checkers[site] = chk
        oracles[site] = gen
    return checkers, oracles
