"""Shared plumbing for the relational property modules C01, C02, C06, C07, C08 (oracle side)."""
from fractions import Fraction as Fr

import tasks as T
import relcheck as R


def fresh_library(task_name):
    """re-execute mir_eval.util and the task's module: module-level tables / caches are as after a fresh import, so the
    next call is 'the first call of a process' (a table polluted by earlier calls, or one that is only consistent after a
    warm-up call, shows here and replays from the input alone)"""
    import importlib
    import sys
    for n in ("mir_eval.util", "mir_eval." + task_name):
        if n in sys.modules:
            importlib.reload(sys.modules[n])


def make(check, self_inputs=False, budget_quick=60, budget_thorough=1500, tasks=None):
    checkers, oracles = {}, {}
    for name, task in T.TASKS.items():
        if tasks is not None and name not in tasks:
            continue
        site = "%s.evaluate" % name

        def chk(inp, task=task, name=name):
            if inp.get("fresh"):
                fresh_library(name)
            return check(task, inp)

        def gen(rng, tier, shard, nshards, boost, task=task):
            n = (budget_quick if tier == "quick" else budget_thorough) * boost
            for i in range(n):
                inp = task.gen_self(rng) if self_inputs else task.gen(rng)
                if rng.random() < 0.12:
                    # whole-number annotations handed over in the caller's dtype (int64 / int32 / float32 arrays)
                    inp = task.gen_typed(rng, self_inputs) or inp
                inp["transform"] = {"shift": str(Fr(rng.randint(1, 128), 32)), "seed": rng.randint(0, 10 ** 6)}
                if getattr(task, "BIG_SHIFT", False) and rng.random() < 0.25:
                    # hours into a recording: still exact in binary64 on the dyadic lattice, far beyond single precision
                    inp["transform"]["shift"] = str(Fr(2) ** rng.choice([12, 14, 16]) + Fr(rng.randint(0, 31), 32))
                if rng.random() < 0.15:
                    inp["fresh"] = True      # scored as the first call after the library's module state is reset
                if rng.random() < 0.15:
                    # scored through the same array / list objects as an earlier call, updated in place in between
                    inp["recycle"] = rng.choice(["labels", "scale", "both"])
                    if rng.random() < 0.5:
                        inp["direct"] = True     # tasks that know how: entries from the public metric functions one by one
                yield inp
        checkers[site] = chk
        oracles[site] = gen
    return checkers, oracles


# task-level oracles written with the task slices (harness/suites/*.py, harness/props/t_*.py), routed to the
# property they check so that a failure is never attributed to another property
EXTRA = {
    "C01": [("t_transcription", "transcription.range", None), ("t_misc", None, "range"), ("t_pattern", "pattern.range", None), ("t_pattern", "pattern.standard_FPR", None),
            ("t_melody", "melody.evaluate:range", None), ("t_multipitch", "multipitch.metrics/range", None),
            ("t_hierrel", "chord.weighted_accuracy:range", None), ("t_hierrel", "chord.seg:range", None)],
    "C02": [("t_transcription", "transcription.self", None), ("t_transcription", "transcription.self_aor", None),
            ("t_misc", None, "self"), ("t_pattern", "pattern.self", None), ("t_melody", "melody.evaluate:self", None),
            ("t_multipitch", "multipitch.metrics/self", None),
            ("t_hierrel", "hierarchy:self", None), ("t_hierrel", "chord.evaluate:self", None),
            ("t_hierrel", "key:self", None)],
    "C04": [("t_misc", None, "definition"), ("t_melody", "melody.frames:definition", None),
            ("t_transcription", "transcription.definition", None),
            ("t_transcription", "transcription_velocity.definition", None),
            ("t_beat", "beat.p_score:mckinney", None)],
    "C05": [("t_transcription", "transcription.definition", None),
            ("t_transcription", "transcription_velocity.definition", None)],
    "C06": [("t_transcription", "transcription.swap", None), ("t_misc", None, "swap"), ("t_pattern", "pattern.swap", None), ("t_multipitch", "multipitch.metrics/swap", None),
            ("t_hierrel", "chord.seg:swap", None)],
    "C07": [("t_transcription", "transcription.widen", None), ("t_misc", None, "widen"), ("t_melody", "melody.evaluate:tolerance", None),
            ("t_melody", "melody.frames:tolerance", None), ("t_multipitch", "multipitch.metrics/widen", None)],
    "C08": [("t_transcription", "transcription.shift_perm", None), ("t_misc", None, "shift"), ("t_misc", None, "est-swap"), ("t_pattern", "pattern.shift", None),
            ("t_pattern", "pattern.perm", None), ("t_multipitch", "multipitch.metrics/shift+permute", None),
            ("t_hierrel", "hierarchy:relabel", None), ("t_hierrel", "chord.evaluate:shift", None)],
    "C09": [("t_transcription", "transcription.pitch_scale", None), ("t_melody", "melody.evaluate:octave", None), ("t_multipitch", "multipitch.metrics/transpose+octave", None)],
}


def extra(pid):
    """-> (checkers, oracles) taken from the task modules for property `pid`"""
    import importlib
    checkers, oracles = {}, {}
    for modname, site, prop in EXTRA.get(pid, []):
        try:
            mod = importlib.import_module("props." + modname)
        except ImportError:
            continue
        sites = [site] if site else [s for s in mod.ORACLES if s != "definition"]
        for st in sites:
            if st not in mod.ORACLES or st not in mod.CHECKERS:
                continue
            name = "%s[%s]" % (st, prop) if prop else st

            def gen(rng, tier, shard, nshards, boost, g=mod.ORACLES[st], prop=prop):
                for inp in g(rng, tier, shard, nshards, boost):
                    if prop is None or (isinstance(inp, dict) and inp.get("prop") == prop):
                        yield inp
            checkers[name] = mod.CHECKERS[st]
            oracles[name] = gen
    return checkers, oracles
