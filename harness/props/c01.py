"""C01 — relational property (range) over every task's evaluate(); see DESIGN.md §5 C01."""
import glob
import os

import relcheck as R
import suites as SU
from props import _relational

PID = "C01"
# util.f_measure is also REGENERATED from the source (harness/translate/scalars.py -> lean/MirGen/Scalars.lean); Props/C01_Gen.lean restates
# the property on the generated definition through C06_Gen.f_measure_eq_model
TRANSLATOR_PARTS = ["scalars"]
_here = os.path.dirname(os.path.abspath(__file__))
_props = os.path.join(os.path.dirname(os.path.dirname(_here)), "lean", "MirProofs", "Props")
LEAN_MODULES = ["MirProofs.Props.C01"] + sorted(
    "MirProofs.Props." + os.path.basename(f)[:-5] for f in glob.glob(os.path.join(_props, "C01_*.lean")))
RULE = ("valid (reference, estimate) pairs per task on the exact 1/32 s lattice (pitch on a 1/8-semitone lattice), "
        "biased to degenerate shapes (empty, single, duplicated, clustered, one-label, all-distinct-label); the "
        "range relation is checked on the real evaluate(); correspondence = value agreement of the modelled "
        "metric functions with the real ones; non-trivial = both sides non-empty")
ASSUMPTIONS = ["theorems are about the Lean model; they transfer to the code where the correspondence suites agree",
               "binary64 on the exact lattice performs the modelled rational comparisons exactly"]
UNPROVED = [
    "C01.Entropy (information gain): the nan region is characterised exactly in terms of the model "
    "(information_gain_finite_partial: a number in [0,1] iff some backward beat error is finite) and on inputs by "
    "harness/regions.py; the input-level sufficient condition is proved (information_gain_finite_of_increasing: "
    "strictly increasing estimated beats => a number in [0,1], any reference) and so is the necessary one "
    "(information_gain_nan_needs_coincident_beats: nan on validated input => two consecutive estimated beats "
    "coincide); exactly WHICH inputs with coincident estimated beats give nan is characterised on the model only",
    "C01.Entropy: all entropy-range theorems (information gain, MI, NMI, NCE/V, AMI) are about the real-number reading "
    "of the model's definitions; binary64 rounding (e.g. MI noise over the 1e-10 NMI floor, AMI with a denominator at "
    "rounding level) is covered by correspondence and the oracle only",
]
SUITES, _classifiers = SU.load_all()
from suites import fixtures as _FX  # noqa: E402
RULE += "; " + _FX.RULE_NOTE
CHECKERS, ORACLES = _relational.make(R.check_range, self_inputs=False)
_xc, _xo = _relational.extra(PID)
CHECKERS.update(_xc)
ORACLES.update(_xo)
