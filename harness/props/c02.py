"""C02 — relational property (perfect estimate) over every task's evaluate(); see DESIGN.md §5 C02."""
import glob
import os

import relcheck as R
import suites as SU
from props import _relational

PID = "C02"
# util.f_measure is also REGENERATED from the source (harness/translate/scalars.py -> lean/MirGen/Scalars.lean); Props/C02_Gen.lean restates
# the property on the generated definition through C06_Gen.f_measure_eq_model
TRANSLATOR_PARTS = ["scalars"]
_here = os.path.dirname(os.path.abspath(__file__))
_props = os.path.join(os.path.dirname(os.path.dirname(_here)), "lean", "MirProofs", "Props")
LEAN_MODULES = ["MirProofs.Props.C02"] + sorted(
    "MirProofs.Props." + os.path.basename(f)[:-5] for f in glob.glob(os.path.join(_props, "C02_*.lean")))
RULE = ("valid (reference, estimate) pairs per task on the exact 1/32 s lattice (pitch on a 1/8-semitone lattice), "
        "biased to degenerate shapes (empty, single, duplicated, clustered, one-label, all-distinct-label); the "
        "perfect estimate relation is checked on the real evaluate(); correspondence = value agreement of the modelled "
        "metric functions with the real ones; non-trivial = both sides non-empty")
ASSUMPTIONS = ["theorems are about the Lean model; they transfer to the code where the correspondence suites agree",
               "binary64 on the exact lattice performs the modelled rational comparisons exactly"]
UNPROVED = [
    "C02.Segment (entropy-based scores): the self theorems (MI = H, NMI = 1, NCE / V = (1,1,1), AMI = 1) are about the "
    "real-number reading of the model; NMI(y,y) = 1 needs H(y) >= 1e-10, the code's floor (proved for <= 10^10 "
    "frames; nmi_self_full_statement is false of the model at 10^12 frames, not reachable by running the code); "
    "AMI(y,y) = 1 is proved unless every frame has its own label, where numerator and denominator are both 0 "
    "(ami_self_all_singletons: the binary64 result there is nan or 1.0 by rounding - outside the non-degenerate inputs)",
]
SUITES, _classifiers = SU.load_all()
CHECKERS, ORACLES = _relational.make(R.check_self, self_inputs=True)
_xc, _xo = _relational.extra(PID)
CHECKERS.update(_xc)
ORACLES.update(_xo)
