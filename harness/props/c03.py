"""C03 — evaluate() is exactly the documented bundle of the individual metrics.

Proof side: lean/MirProofs/Props/C03.lean (generic theorems for all keyword dictionaries + per-task obligations
over the programs GENERATED from the current source by harness/translate/{signatures,evalprogs}.py).

Correspondence (model <-> code):
  trace       the Lean interpreter `run prog_<task> sigs kw` against the REAL evaluate(x, **kw) observed with
              sys.setprofile: same callee sequence, every callee's keyword-capable parameters hold the value the model
              says it receives (or the function's default), same key list/order of the result.
  signatures  Gen.sigs (from the AST) against the runtime objects: co_varnames[:co_argcount], util.has_kwargs.
  spec        the hand-written Lean `EvalSpec.<task>` against the Python transcription `SPEC` used by the oracle.

Oracle (the property itself, on the real code only): evaluate(x, **kw) against the real metric functions called
directly per SPEC on the identically pre-processed input, kw over all subsets (<= 3) of the union of the callees'
keyword parameters with in-range non-default values, plus an unrelated keyword; empty annotations for every task;
fixed key list; every value a real scalar.
"""
import collections
import copy
import importlib
import inspect
import itertools
import math
import sys
from fractions import Fraction as Fr

import numpy as np

import mir_eval

from core import Case

PID = "C03"
LEAN_MODULES = ["MirProofs.Props.C03"]
TRANSLATOR_PARTS = ["signatures", "evalprogs"]      # the generated files this property depends on
RULE = ("per task: small random valid annotations (incl. empty) x all subsets (<=3) of the callees' keyword "
        "parameters with in-range non-default values (+ an unrelated keyword); non-trivial = evaluate() returned "
        "a dictionary (did not raise)")
ASSUMPTIONS = [
    "the translator harness/translate/{signatures,evalprogs}.py reads the evaluate() bodies and signatures correctly "
    "(checked on every run by the `trace` and `signatures` correspondence suites)",
    "metric functions are deterministic, so evaluate() and a direct call on equal inputs agree bit for bit",
    "return arity is judged syntactically from `return` statements (tuple display vs other expression)",
]
UNPROVED = [
    "metric_arity_f for all inputs (that each public metric returns exactly the documented number of scalars on every "
    "input is a statement about the metric models of other slices; here only the syntactic return shapes are proved, "
    "the value-level claim is checked by the oracle)",
    "multipitch: that unrelated keywords are ignored is decided inside multipitch.metrics (it has **kwargs and filters "
    "again); evaluate() provably forwards everything (forwards_all_multipitch); the rest is oracle-only",
]

TASKS = ["beat", "onset", "segment", "chord", "melody", "multipitch", "transcription", "transcription_velocity",
         "tempo", "key", "pattern", "hierarchy", "alignment"]
UNRELATED = "zzz_unrelated_keyword"

# ----------------------------------------------------------------------------------------------------
# SPEC: Python transcription of lean/MirModel/EvalSpec.lean (kept equal by the `spec` suite)

SpecCall = collections.namedtuple("SpecCall", "fn targets args named forced cond passkw")


def V(n):
    return ("var", n)


def L(s):
    return ("lit", s)


def S(k):
    return ("score", k)


def M(n, m):
    return ("method", n, m)


def call(fn, targets, args, named=(), forced=(), cond=None, passkw=True):
    return SpecCall(fn, list(targets), list(args), list(named), list(forced), cond, passkw)


def sc(*ks):
    return [S(k) for k in ks]


def vs(*ns):
    return [V(n) for n in ns]


def _chord_cmp(name, tmp):
    return [call("chord." + name, vs(tmp), vs("ref_labels", "est_labels"), passkw=False),
            call("chord.weighted_accuracy", sc(name), vs(tmp, "durations"), passkw=False)]


def _build_spec():
    spec = {}
    a = vs("reference_beats", "estimated_beats")
    spec["beat"] = (["reference_beats", "estimated_beats"], [], [
        call("beat.validate", [], a, passkw=False),
        call("beat.trim_beats", vs("reference_beats"), vs("reference_beats")),
        call("beat.trim_beats", vs("estimated_beats"), vs("estimated_beats")),
        call("beat.f_measure", sc("F-measure"), a),
        call("beat.cemgil", sc("Cemgil", "Cemgil Best Metric Level"), a),
        call("beat.goto", sc("Goto"), a),
        call("beat.p_score", sc("P-score"), a),
        call("beat.continuity", sc("Correct Metric Level Continuous", "Correct Metric Level Total",
                                   "Any Metric Level Continuous", "Any Metric Level Total"), a),
        call("beat.information_gain", sc("Information gain"), a)])
    spec["onset"] = (["reference_onsets", "estimated_onsets"], [], [
        call("onset.f_measure", sc("F-measure", "Precision", "Recall"), vs("reference_onsets", "estimated_onsets"))])
    b = vs("ref_intervals", "est_intervals")
    s = vs("ref_intervals", "ref_labels", "est_intervals", "est_labels")
    spec["segment"] = (["ref_intervals", "ref_labels", "est_intervals", "est_labels"], [], [
        call("util.adjust_intervals", vs("ref_intervals", "ref_labels"), vs("ref_intervals"),
             named=[("labels", V("ref_labels")), ("t_min", L("0.0"))], passkw=False),
        call("util.adjust_intervals", vs("est_intervals", "est_labels"), vs("est_intervals"),
             named=[("labels", V("est_labels")), ("t_min", L("0.0")), ("t_max", M("ref_intervals", "max"))],
             passkw=False),
        call("segment.detection", sc("Precision@0.5", "Recall@0.5", "F-measure@0.5"), b, forced=[("window", Fr(1, 2))]),
        call("segment.detection", sc("Precision@3.0", "Recall@3.0", "F-measure@3.0"), b, forced=[("window", Fr(3))]),
        call("segment.deviation", sc("Ref-to-est deviation", "Est-to-ref deviation"), b),
        call("segment.pairwise", sc("Pairwise Precision", "Pairwise Recall", "Pairwise F-measure"), s),
        call("segment.rand_index", sc("Rand Index"), s),
        call("segment.ari", sc("Adjusted Rand Index"), s),
        call("segment.mutual_information", sc("Mutual Information", "Adjusted Mutual Information",
                                              "Normalized Mutual Information"), s),
        call("segment.nce", sc("NCE Over", "NCE Under", "NCE F-measure"), s),
        call("segment.vmeasure", sc("V Precision", "V Recall", "V-measure"), s)])
    chord = [
        call("util.adjust_intervals", vs("est_intervals", "est_labels"),
             [V("est_intervals"), V("est_labels"), M("ref_intervals", "min"), M("ref_intervals", "max"),
              L("NO_CHORD"), L("NO_CHORD")], passkw=False),
        call("chord.merge_chord_intervals", vs("merged_ref_intervals"), vs("ref_intervals", "ref_labels"), passkw=False),
        call("chord.merge_chord_intervals", vs("merged_est_intervals"), vs("est_intervals", "est_labels"), passkw=False),
        call("util.merge_labeled_intervals", vs("intervals", "ref_labels", "est_labels"),
             vs("ref_intervals", "ref_labels", "est_intervals", "est_labels"), passkw=False),
        call("util.intervals_to_durations", vs("durations"), vs("intervals"), passkw=False)]
    for i, nm in enumerate(["thirds", "thirds_inv", "triads", "triads_inv", "tetrads", "tetrads_inv", "root", "mirex",
                            "majmin", "majmin_inv", "sevenths", "sevenths_inv"]):
        chord += _chord_cmp(nm, "_t%d" % (i + 1))
    chord += [
        call("chord.underseg", sc("underseg"), vs("merged_ref_intervals", "merged_est_intervals"), passkw=False),
        call("chord.overseg", sc("overseg"), vs("merged_ref_intervals", "merged_est_intervals"), passkw=False),
        call("builtins.min", sc("seg"), [S("overseg"), S("underseg")], passkw=False)]
    spec["chord"] = (["ref_intervals", "ref_labels", "est_intervals", "est_labels"], [], chord)
    p = vs("ref_voicing", "ref_cent", "est_voicing", "est_cent")
    spec["melody"] = (["ref_time", "ref_freq", "est_time", "est_freq", "est_voicing", "ref_reward"], [], [
        call("melody.to_cent_voicing", vs("ref_voicing", "ref_cent", "est_voicing", "est_cent"),
             vs("ref_time", "ref_freq", "est_time", "est_freq", "est_voicing", "ref_reward")),
        call("melody.voicing_recall", sc("Voicing Recall"), vs("ref_voicing", "est_voicing")),
        call("melody.voicing_false_alarm", sc("Voicing False Alarm"), vs("ref_voicing", "est_voicing")),
        call("melody.raw_pitch_accuracy", sc("Raw Pitch Accuracy"), p),
        call("melody.raw_chroma_accuracy", sc("Raw Chroma Accuracy"), p),
        call("melody.overall_accuracy", sc("Overall Accuracy"), p)])
    spec["multipitch"] = (["ref_time", "ref_freqs", "est_time", "est_freqs"], [], [
        call("multipitch.metrics",
             sc("Precision", "Recall", "Accuracy", "Substitution Error", "Miss Error", "False Alarm Error",
                "Total Error", "Chroma Precision", "Chroma Recall", "Chroma Accuracy", "Chroma Substitution Error",
                "Chroma Miss Error", "Chroma False Alarm Error", "Chroma Total Error"),
             vs("ref_time", "ref_freqs", "est_time", "est_freqs"))])
    n = vs("ref_intervals", "ref_pitches", "est_intervals", "est_pitches")
    i2 = vs("ref_intervals", "est_intervals")
    spec["transcription"] = (["ref_intervals", "ref_pitches", "est_intervals", "est_pitches"],
                             [("offset_ratio", Fr(1, 5))], [
        call("transcription.precision_recall_f1_overlap",
             sc("Precision", "Recall", "F-measure", "Average_Overlap_Ratio"), n, cond="offset_ratio"),
        call("transcription.precision_recall_f1_overlap",
             sc("Precision_no_offset", "Recall_no_offset", "F-measure_no_offset", "Average_Overlap_Ratio_no_offset"), n,
             forced=[("offset_ratio", None)]),
        call("transcription.onset_precision_recall_f1", sc("Onset_Precision", "Onset_Recall", "Onset_F-measure"), i2),
        call("transcription.offset_precision_recall_f1", sc("Offset_Precision", "Offset_Recall", "Offset_F-measure"),
             i2, cond="offset_ratio")])
    nv = vs("ref_intervals", "ref_pitches", "ref_velocities", "est_intervals", "est_pitches", "est_velocities")
    spec["transcription_velocity"] = (
        ["ref_intervals", "ref_pitches", "ref_velocities", "est_intervals", "est_pitches", "est_velocities"],
        [("offset_ratio", Fr(1, 5))], [
            call("transcription_velocity.precision_recall_f1_overlap",
                 sc("Precision", "Recall", "F-measure", "Average_Overlap_Ratio"), nv, cond="offset_ratio"),
            call("transcription_velocity.precision_recall_f1_overlap",
                 sc("Precision_no_offset", "Recall_no_offset", "F-measure_no_offset",
                    "Average_Overlap_Ratio_no_offset"), nv, forced=[("offset_ratio", None)])])
    spec["tempo"] = (["reference_tempi", "reference_weight", "estimated_tempi"], [], [
        call("tempo.detection", sc("P-score", "One-correct", "Both-correct"),
             vs("reference_tempi", "reference_weight", "estimated_tempi"))])
    spec["key"] = (["reference_key", "estimated_key"], [], [
        call("key.weighted_score", sc("Weighted Score"), vs("reference_key", "estimated_key"), passkw=False)])
    pa = vs("ref_patterns", "est_patterns")
    spec["pattern"] = (["ref_patterns", "est_patterns"], [("n", 5)], [
        call("pattern.standard_FPR", sc("F", "P", "R"), pa),
        call("pattern.establishment_FPR", sc("F_est", "P_est", "R_est"), pa),
        call("pattern.occurrence_FPR", sc("F_occ.5", "P_occ.5", "R_occ.5"), pa, forced=[("thres", Fr(1, 2))]),
        call("pattern.occurrence_FPR", sc("F_occ.75", "P_occ.75", "R_occ.75"), pa, forced=[("thres", Fr(3, 4))]),
        call("pattern.three_layer_FPR", sc("F_3", "P_3", "R_3"), pa),
        call("pattern.first_n_three_layer_P", sc("FFP"), pa),
        call("pattern.first_n_target_proportion_R", sc("FFTP_est"), pa)])
    spec["hierarchy"] = (["ref_intervals_hier", "ref_labels_hier", "est_intervals_hier", "est_labels_hier"], [], [
        call("hierarchy._hierarchy_bounds", vs("_", "t_end"), vs("ref_intervals_hier"), passkw=False),
        call("hierarchy._align_intervals", vs("ref_intervals_hier", "ref_labels_hier"),
             vs("ref_intervals_hier", "ref_labels_hier"), named=[("t_min", L("0.0")), ("t_max", L("None"))],
             passkw=False),
        call("hierarchy._align_intervals", vs("est_intervals_hier", "est_labels_hier"),
             vs("est_intervals_hier", "est_labels_hier"), named=[("t_min", L("0.0")), ("t_max", V("t_end"))],
             passkw=False),
        call("hierarchy.tmeasure", sc("T-Precision reduced", "T-Recall reduced", "T-Measure reduced"),
             vs("ref_intervals_hier", "est_intervals_hier"), forced=[("transitive", False)]),
        call("hierarchy.tmeasure", sc("T-Precision full", "T-Recall full", "T-Measure full"),
             vs("ref_intervals_hier", "est_intervals_hier"), forced=[("transitive", True)]),
        call("hierarchy.lmeasure", sc("L-Precision", "L-Recall", "L-Measure"),
             vs("ref_intervals_hier", "ref_labels_hier", "est_intervals_hier", "est_labels_hier"))])
    al = vs("reference_timestamps", "estimated_timestamps")
    spec["alignment"] = (["reference_timestamps", "estimated_timestamps"], [], [
        call("alignment.percentage_correct", sc("pc"), al),
        call("alignment.absolute_error", sc("mae", "aae"), al, passkw=False),
        call("alignment.percentage_correct_segments", sc("pcs"), al),
        call("alignment.karaoke_perceptual_metric", sc("perceptual"), al, passkw=False)])
    return spec


SPEC = _build_spec()


def spec_keys(task, kw_eff):
    """documented key list (in order) for the defaulted keyword dictionary"""
    keys = []
    for c in SPEC[task][2]:
        if c.cond is not None and kw_eff.get(c.cond) is None:
            continue
        for t in c.targets:
            if t[0] == "score" and t[1] not in keys:
                keys.append(t[1])
    return keys


def _spec_value(v):
    """forced/default value -> what is passed to the real function"""
    return float(v) if isinstance(v, Fr) else v


def resolve(qn):
    mod, name = qn.split(".", 1)
    if mod == "builtins":
        return getattr(__import__("builtins"), name)
    return getattr(getattr(mir_eval, mod), name)


def accepted_names(f):
    """(names a direct keyword call may use, has **kwargs)"""
    sig = inspect.signature(f)
    names = [p.name for p in sig.parameters.values()
             if p.kind in (p.POSITIONAL_OR_KEYWORD, p.KEYWORD_ONLY)]
    varkw = any(p.kind == p.VAR_KEYWORD for p in sig.parameters.values())
    return names, varkw


class ArityError(Exception):
    def __init__(self, msg, scores):
        super().__init__(msg)
        self.scores = scores          # did the call write score keys (vs. a pre-processing step)?


def run_spec(task, inputs, kw):
    """The documented bundle, executed on the real functions: -> OrderedDict of scores."""
    names, defaults, calls = SPEC[task]
    module = getattr(mir_eval, task)
    env = dict(inputs)
    scores = collections.OrderedDict()
    kw_eff = dict(kw)
    for k, v in defaults:
        kw_eff.setdefault(k, _spec_value(v))

    def ev(a):
        if a[0] == "var":
            return env[a[1]]
        if a[0] == "lit":
            if a[1] == "None":
                return None
            try:
                return float(a[1]) if ("." in a[1] or "e" in a[1]) else int(a[1])
            except ValueError:
                return getattr(module, a[1])
        if a[0] == "score":
            return scores[a[1]]
        if a[0] == "method":
            return getattr(env[a[1]], a[2])()
        raise ValueError(a)

    for c in calls:
        if c.cond is not None and kw_eff.get(c.cond) is None:
            continue
        f = resolve(c.fn)
        args = [ev(a) for a in c.args]
        named = {k: ev(a) for k, a in c.named}
        extra = {}
        if c.passkw:
            acc, varkw = accepted_names(f)
            extra = dict(kw_eff) if varkw else {k: v for k, v in kw_eff.items() if k in acc}
            for k, v in c.forced:
                extra[k] = _spec_value(v)
        res = f(*args, **named, **extra)
        if len(c.targets) == 0:
            vals = []                 # result discarded (validate)
        elif len(c.targets) == 1:
            vals = [res]
        else:
            if not isinstance(res, (tuple, list)) or len(res) != len(c.targets):
                raise ArityError("%s returned %r for %d targets" % (c.fn, type(res).__name__, len(c.targets)),
                                 any(t[0] == "score" for t in c.targets))
            vals = list(res)
        for t, val in zip(c.targets, vals):
            if t[0] == "score":
                scores[t[1]] = val
            else:
                env[t[1]] = val
    return scores


# ----------------------------------------------------------------------------------------------------
# keyword parameters and in-range non-default values

KWVALUES = {
    "beat": {"min_beat_time": [0.0, 2.5], "f_measure_threshold": [0.05, 0.1], "cemgil_sigma": [0.02, 0.08],
             "goto_threshold": [0.25, 0.5], "goto_mu": [0.1, 0.3], "goto_sigma": [0.1, 0.3],
             "p_score_threshold": [0.1, 0.3], "continuity_phase_threshold": [0.1, 0.25],
             "continuity_period_threshold": [0.1, 0.25], "bins": [21, 31]},
    "onset": {"window": [0.03, 0.1]},
    "segment": {"window": [0.25, 1.0], "beta": [0.5, 2.0], "trim": [True], "frame_size": [0.05, 0.2],
                "marginal": [True]},
    "chord": {},
    "melody": {"base_frequency": [20.0, 55.0], "hop": [0.01, 0.02], "kind": ["nearest"],
               "cent_tolerance": [25, 100]},
    "multipitch": {"window": [0.25, 1.0]},
    "transcription": {"onset_tolerance": [0.03, 0.1], "pitch_tolerance": [25.0, 100.0],
                      "offset_ratio": [None, 0.1, 0.5], "offset_min_tolerance": [0.03, 0.1], "strict": [True],
                      "beta": [0.5, 2.0]},
    "transcription_velocity": {"onset_tolerance": [0.03, 0.1], "pitch_tolerance": [25.0, 100.0],
                               "offset_ratio": [None, 0.1, 0.5], "offset_min_tolerance": [0.03, 0.1],
                               "strict": [True], "velocity_tolerance": [0.05, 0.2], "beta": [0.5, 2.0]},
    "tempo": {"tol": [0.04, 0.16]},
    "key": {},
    "pattern": {"tol": [1e-3], "thres": [0.5, 0.6], "n": [1, 3]},
    "hierarchy": {"transitive": [True, False], "window": [5.0, 10.0], "frame_size": [0.25, 0.5],
                  "beta": [0.5, 2.0]},
    "alignment": {"window": [0.1, 0.5], "duration": [100.0]},
}
# keyword parameters of callees for which no second valid value exists / that cannot be passed through evaluate
KW_SKIP = {"pattern": {"similarity_metric"}, "multipitch": {"chroma"}}


def callee_keyword_union(task):
    """union of the keyword-capable parameters of the functions that receive the caller's keywords (runtime view)"""
    out = []
    for c in SPEC[task][2]:
        if not c.passkw:
            continue
        f = resolve(c.fn)
        sig = inspect.signature(f)
        params = [p for p in sig.parameters.values() if p.kind in (p.POSITIONAL_OR_KEYWORD, p.KEYWORD_ONLY)]
        bound = set(k for k, _ in c.named)
        for p in params[len(c.args):]:
            if p.name not in bound and p.name not in out:
                out.append(p.name)
    if task == "multipitch":
        for p in list(inspect.signature(mir_eval.multipitch.compute_num_true_positives).parameters.values())[2:]:
            if p.name not in out:
                out.append(p.name)
    return out


def kw_subsets(task):
    """all subsets of size <= 3 of the testable keyword union, as sorted name tuples"""
    union = [k for k in callee_keyword_union(task) if k in KWVALUES[task]]
    subs = []
    for r in range(0, 4):
        subs += list(itertools.combinations(union, r))
    return subs


def untested_keywords():
    out = {}
    for t in TASKS:
        miss = [k for k in callee_keyword_union(t) if k not in KWVALUES[t] and k not in KW_SKIP.get(t, ())]
        if miss:
            out[t] = miss
    return out


_UNRELATED_NAMES = {}


def unrelated_names(task):
    """keyword names that no function of the task module (or util) accepts: the fixed marker plus every LOCAL
    variable name of those functions (a keyword filter that consults the wrong part of a code object would let
    them through); read off the code objects of the source under test"""
    if task not in _UNRELATED_NAMES:
        params, local = set(), set()
        for mod in TASKS + ["util"]:
            m = getattr(mir_eval, mod)
            for f in vars(m).values():
                f = _real(f)
                if inspect.isfunction(f) and f.__module__ == m.__name__:
                    c = f.__code__
                    start = c.co_argcount + c.co_kwonlyargcount + bool(c.co_flags & 0x04) + bool(c.co_flags & 0x08)
                    params.update(c.co_varnames[:start])        # a parameter of ANY task's function is not unrelated
                    if mod in (task, "util"):
                        local.update(c.co_varnames[start:])
                        local.update(c.co_names)
        names = sorted(n for n in local - params if n.isidentifier() and not n.startswith("_"))
        _UNRELATED_NAMES[task] = [UNRELATED] + names
    return _UNRELATED_NAMES[task]


def draw_kw(rng, task, names, unrelated):
    kw = {k: rng.choice(KWVALUES[task][k]) for k in names}
    if unrelated:
        pool = unrelated_names(task)
        kw[UNRELATED if rng.random() < 0.4 else rng.choice(pool)] = rng.choice([1, 0.5, None, "x"])
    return kw


# ----------------------------------------------------------------------------------------------------
# inputs (JSON-able descriptions) and their materialisation

CHORDS = ["N", "C:maj", "A:min", "G:7", "D:min7", "F:maj7", "E:dim", "C:maj/3", "Bb:sus4", "F#:hdim7", "X", "A:min/b3"]
KEYS = ["C major", "a minor", "F# major", "Eb minor", "G major", "d minor", "B major", "c# minor"]


def _times(rng, n, lo, hi):
    return sorted(round(rng.uniform(lo, hi), 3) for _ in range(n))


def _segments(rng, n, start, labels):
    """n contiguous intervals from `start`, random labels"""
    t = start
    ivs, labs = [], []
    for _ in range(n):
        d = round(rng.uniform(0.5, 4.0), 2)
        ivs.append([round(t, 2), round(t + d, 2)])
        t = round(t + d, 2)
        labs.append(rng.choice(labels))
    return ivs, labs


def _notes(rng, n):
    ivs, pitches = [], []
    for _ in range(n):
        on = round(rng.uniform(0, 10), 3)
        ivs.append([on, round(on + rng.uniform(0.1, 1.0), 3)])
        pitches.append(round(440.0 * 2 ** (rng.randint(-12, 12) / 12.0), 3))
        if rng.random() < 0.25:
            # a unison: same pitch, (almost) the same onset, another duration -> several maximum matchings once
            # offsets are ignored
            on2 = round(max(0.0, on + rng.choice([0.0, 0.017, -0.015])), 3)
            ivs.append([on2, round(on2 + rng.uniform(0.1, 1.0) * rng.choice([0.5, 2.0]), 3)])
            pitches.append(pitches[-1])
    return ivs, pitches


def _perturb_notes(rng, ivs, pitches):
    """an estimate close to the reference (so that matches happen), with drops and insertions"""
    out_i, out_p = [], []
    if rng.random() < 0.2:
        # every note found (onsets and offsets well inside the tolerances), listed in the opposite order
        for iv, p in reversed(list(zip(ivs, pitches))):
            on = round(max(0.0, iv[0] + rng.choice([0, 0.01, -0.015])), 3)
            out_i.append([on, round(max(on + 0.05, iv[1] + rng.choice([0, 0.01, -0.01])), 3)])
            out_p.append(p)
        return out_i, out_p
    for iv, p in zip(ivs, pitches):
        if rng.random() < 0.2:
            continue
        on = round(max(0.0, iv[0] + rng.choice([0, 0.02, -0.02, 0.04, 0.08])), 3)
        off = round(max(on + 0.05, iv[1] + rng.choice([0, 0.03, -0.03, 0.15, 0.4])), 3)
        out_i.append([on, off])
        out_p.append(round(p * rng.choice([1.0, 1.0, 1.01, 1.03, 2.0]), 3))
    if rng.random() < 0.3:
        a, b = _notes(rng, 1)
        out_i += a
        out_p += b
    return out_i, out_p


def _pattern(rng, nocc, npts):
    base = sorted({(float(rng.randint(0, 12)), float(rng.randint(55, 75))) for _ in range(npts)})
    occs = []
    for k in range(nocc):
        shift = 16.0 * k
        occ = [[o + shift, m] for (o, m) in base]
        if k > 0 and occ and rng.random() < 0.6:       # a varied repetition
            j = rng.randrange(len(occ))
            occ[j] = [occ[j][0], occ[j][1] + rng.choice([1.0, 2.0])]
            if len(occ) > 2 and rng.random() < 0.5:
                del occ[rng.randrange(len(occ))]
        occs.append(occ)
    return occs


def _vary_patterns(rng, pats):
    out = copy.deepcopy(pats)
    for pat in out:
        for occ in pat:
            for pt in occ:
                if rng.random() < 0.25:
                    pt[1] += rng.choice([1.0, -1.0])
            if len(occ) > 2 and rng.random() < 0.3:
                del occ[rng.randrange(len(occ))]
    if out and rng.random() < 0.3:
        del out[rng.randrange(len(out))]
    if rng.random() < 0.3:
        out.append(_pattern(rng, rng.randint(1, 2), rng.randint(2, 5)))
    return out


def _hier(rng, span, nlevels):
    ivs, labs = [], []
    for lvl in range(nlevels):
        n = min(2 + 2 * lvl + rng.randint(0, 1), int(span) - 1)
        cuts = sorted(set(round(rng.uniform(1.0, span - 1.0), 0) for _ in range(max(0, n - 1))))
        b = [0.0] + cuts + [float(span)]
        ivs.append([[b[i], b[i + 1]] for i in range(len(b) - 1)])
        labs.append([rng.choice("abcd") for _ in range(len(b) - 1)])
    return ivs, labs


def gen_data(rng, task, empty):
    """JSON-able description of one valid annotation pair for `task`; `empty` in {None,'ref','est','both'}"""
    e_ref = empty in ("ref", "both")
    e_est = empty in ("est", "both")
    if task in ("beat", "onset"):
        hi = 40.0 if task == "beat" else 20.0
        ref = [] if e_ref else _times(rng, rng.randint(1, 30), 0.0, hi)
        if task == "beat" and not e_ref and rng.random() < 0.7:      # a roughly periodic sequence
            period = rng.choice([0.4, 0.5, 0.6])
            ref = [round(1.0 + period * i, 3) for i in range(rng.randint(15, 60))]
        est = [] if e_est else sorted(round(max(0.0, t + rng.choice([0, 0.01, -0.02, 0.06, 0.2])), 3)
                                      for t in ref if rng.random() < 0.85) or _times(rng, 3, 0.0, hi)
        if e_ref and not e_est:
            est = _times(rng, rng.randint(1, 10), 0.0, hi)
        return {"ref": ref, "est": sorted(est)}
    if task == "segment":
        ri, rl = ([], []) if e_ref else _segments(rng, rng.randint(1, 6), rng.choice([0.0, 0.0, 0.5]), "ABCD")
        ei, el = ([], []) if e_est else _segments(rng, rng.randint(1, 6), rng.choice([0.0, 0.0, 0.3]), "abc")
        return {"ref_i": ri, "ref_l": rl, "est_i": ei, "est_l": el}
    if task == "chord":
        ri, rl = ([], []) if e_ref else _segments(rng, rng.randint(1, 6), rng.choice([0.0, 1.0]), CHORDS[:-2] + ["C:maj"] * 3)
        ei, el = ([], []) if e_est else _segments(rng, rng.randint(1, 6), rng.choice([0.0, 0.5]), CHORDS)
        return {"ref_i": ri, "ref_l": rl, "est_i": ei, "est_l": el}
    if task == "melody":
        n = 0 if e_ref else rng.randint(2, 40)
        m = 0 if e_est else rng.randint(2, 40)
        hop_r, hop_e = rng.choice([0.01, 0.02]), rng.choice([0.01, 0.01, 0.02])
        rf = [rng.choice([0.0, 220.0, 440.0, 330.0, 233.08]) for _ in range(n)]
        ef = [rng.choice([0.0, 220.0, 442.0, 330.0, 466.16, 880.0]) for _ in range(m)]
        return {"ref_t": [round(hop_r * i, 4) for i in range(n)], "ref_f": rf,
                "est_t": [round(hop_e * i, 4) for i in range(m)], "est_f": ef,
                "est_v": rng.choice([None, None, "ones"]), "ref_r": None}
    if task == "multipitch":
        n = 0 if e_ref else rng.randint(1, 15)
        m = 0 if e_est else rng.randint(1, 15)
        fr = lambda: [round(440.0 * 2 ** (rng.randint(-12, 12) / 12.0), 3) for _ in range(rng.randint(0, 3))]
        return {"ref_t": [round(0.01 * i, 4) for i in range(n)], "ref_f": [fr() for _ in range(n)],
                "est_t": [round(0.01 * i, 4) for i in range(m)], "est_f": [fr() for _ in range(m)]}
    if task in ("transcription", "transcription_velocity"):
        ri, rp = ([], []) if e_ref else _notes(rng, rng.randint(1, 8))
        if e_est:
            ei, ep = [], []
        elif e_ref:
            ei, ep = _notes(rng, rng.randint(1, 5))
        else:
            ei, ep = _perturb_notes(rng, ri, rp)
        d = {"ref_i": ri, "ref_p": rp, "est_i": ei, "est_p": ep}
        if task == "transcription_velocity":
            d["ref_v"] = [rng.randint(1, 127) for _ in ri]
            d["est_v"] = [rng.randint(1, 127) for _ in ei]
        return d
    if task == "tempo":
        a = round(rng.uniform(50, 100), 1)
        ref = [a, round(a * rng.choice([2.0, 3.0, 1.5]), 1)]
        est = [round(ref[0] * rng.choice([1.0, 1.02, 1.1, 0.5]), 1), round(ref[1] * rng.choice([1.0, 0.97, 1.2]), 1)]
        return {"ref": ref, "w": rng.choice([0.0, 0.25, 0.5, 1.0]), "est": est}
    if task == "key":
        return {"ref": rng.choice(KEYS), "est": rng.choice(KEYS)}
    if task == "pattern":
        ref = [] if e_ref else [_pattern(rng, rng.randint(1, 3), rng.randint(2, 6)) for _ in range(rng.randint(1, 3))]
        if e_est:
            est = []
        elif e_ref:
            est = [_pattern(rng, 2, 3)]
        else:
            est = _vary_patterns(rng, ref)
        return {"ref": ref, "est": est}
    if task == "hierarchy":
        span = rng.choice([12, 16, 20])
        ri, rl = ([], []) if e_ref else _hier(rng, span, rng.randint(1, 3))
        ei, el = ([], []) if e_est else _hier(rng, rng.choice([span, span, span - 2]), rng.randint(1, 3))
        return {"ref_i": ri, "ref_l": rl, "est_i": ei, "est_l": el}
    if task == "alignment":
        n = 0 if (e_ref or e_est) else rng.randint(2, 12)
        ref = _times(rng, n, 0.0, 30.0)
        est = sorted(round(max(0.0, t + rng.choice([0, 0.05, -0.1, 0.2, 0.5, -0.4])), 3) for t in ref)
        return {"ref": ref, "est": est}
    raise KeyError(task)


def _iv(x):
    return np.asarray(x, dtype=float).reshape(-1, 2)


def materialize(task, d):
    """description -> list of evaluate()'s positional arguments (fresh objects on every call)"""
    if task in ("beat", "onset", "alignment"):
        return [np.asarray(d["ref"], dtype=float), np.asarray(d["est"], dtype=float)]
    if task in ("segment", "chord"):
        return [_iv(d["ref_i"]), list(d["ref_l"]), _iv(d["est_i"]), list(d["est_l"])]
    if task == "melody":
        ev = None if d["est_v"] is None else np.ones(len(d["est_t"]))
        return [np.asarray(d["ref_t"], dtype=float), np.asarray(d["ref_f"], dtype=float),
                np.asarray(d["est_t"], dtype=float), np.asarray(d["est_f"], dtype=float), ev, None]
    if task == "multipitch":
        return [np.asarray(d["ref_t"], dtype=float), [np.asarray(f, dtype=float) for f in d["ref_f"]],
                np.asarray(d["est_t"], dtype=float), [np.asarray(f, dtype=float) for f in d["est_f"]]]
    if task == "transcription":
        return [_iv(d["ref_i"]), np.asarray(d["ref_p"], dtype=float), _iv(d["est_i"]), np.asarray(d["est_p"], dtype=float)]
    if task == "transcription_velocity":
        return [_iv(d["ref_i"]), np.asarray(d["ref_p"], dtype=float), np.asarray(d["ref_v"], dtype=float),
                _iv(d["est_i"]), np.asarray(d["est_p"], dtype=float), np.asarray(d["est_v"], dtype=float)]
    if task == "tempo":
        return [np.asarray(d["ref"], dtype=float), float(d["w"]), np.asarray(d["est"], dtype=float)]
    if task == "key":
        return [d["ref"], d["est"]]
    if task == "pattern":
        conv = lambda pats: [[[(float(o), float(m)) for o, m in occ] for occ in pat] for pat in pats]
        return [conv(d["ref"]), conv(d["est"])]
    if task == "hierarchy":
        return [[_iv(l) for l in d["ref_i"]], [list(l) for l in d["ref_l"]],
                [_iv(l) for l in d["est_i"]], [list(l) for l in d["est_l"]]]
    raise KeyError(task)


EMPTIES = {t: ["both", "ref", "est"] for t in TASKS}
EMPTIES["tempo"] = []
EMPTIES["key"] = []
EMPTIES["alignment"] = ["both"]


# ----------------------------------------------------------------------------------------------------
# the property on the real code

def is_real_scalar(v):
    """Python / NumPy real scalar; booleans count (tempo documents `one_correct`, `both_correct` as bool)"""
    return isinstance(v, (bool, np.bool_, int, float, np.integer, np.floating))


def same_value(a, b):
    try:
        if a == b:
            return True
        return bool(a != a and b != b)
    except Exception:  # noqa: BLE001
        return False


def check_evaluate(inp, mask=()):
    """None when `task.evaluate(x, **kw)` is exactly the documented bundle on this input, else what failed.
    `mask`: score keys whose value is not judged (for region predicates of known findings; none at present)."""
    task, d, kw = inp["task"], inp["data"], dict(inp.get("kw") or {})
    module = getattr(mir_eval, task)
    names = SPEC[task][0]
    exc_e = exc_s = None
    got = want = None
    try:
        got = module.evaluate(*materialize(task, d), **dict(kw))
    except Exception as e:  # noqa: BLE001
        exc_e = e
    try:
        want = run_spec(task, dict(zip(names, materialize(task, d))), dict(kw))
    except ArityError as e:
        if e.scores or exc_e is None:
            return "the documented bundle cannot be formed: %s (evaluate %s)" % (
                e, "raised %s" % type(exc_e).__name__ if exc_e is not None else "returned")
        return None                  # pre-processing fails on both routes (C14's business)
    except Exception as e:  # noqa: BLE001
        exc_s = e
    if exc_e is not None or exc_s is not None:
        if exc_e is not None and exc_s is not None and type(exc_e) is type(exc_s):
            return None              # not evaluable on either route (C14's business)
        return "evaluate(%s) %s but the documented bundle %s" % (
            ", ".join("%s=%r" % kv for kv in kw.items()),
            "raised %s: %s" % (type(exc_e).__name__, exc_e) if exc_e is not None else "returned",
            "raised %s: %s" % (type(exc_s).__name__, exc_s) if exc_s is not None else "returned")
    if not isinstance(got, dict):
        return "evaluate returned %s, not a mapping" % type(got).__name__
    kw_eff = dict(kw)
    for k, v in SPEC[task][1]:
        kw_eff.setdefault(k, _spec_value(v))
    keys = spec_keys(task, kw_eff)
    if list(got.keys()) != keys:
        return "key list %r differs from the documented %r" % (list(got.keys()), keys)
    for k in keys:
        if k in mask:
            continue
        v = got[k]
        if not is_real_scalar(v):
            return "scores[%r] = %r is not a real scalar (kw=%r)" % (k, v, kw)
        if want is not None:
            if k not in want:
                return "documented bundle has no %r" % k
            if not same_value(v, want[k]):
                return "scores[%r] = %r but the documented call gives %r (kw=%r)" % (k, v, want[k], kw)
    return None


def empty_args(fn):
    """empty annotations for a direct call of a bundle function"""
    mod = fn.split(".")[0]
    e2 = np.zeros((0, 2))
    e1 = np.zeros(0)
    if fn in ("segment.detection", "segment.deviation"):
        return [e2, e2]
    if mod == "segment":
        return [e2, [], e2, []]
    if mod == "pattern":
        return [[], []]
    if mod in ("beat", "onset"):
        return [e1, e1]
    if fn == "transcription.precision_recall_f1_overlap":
        return [e2, e1, e2, e1]
    if mod == "transcription":
        return [e2, e2]
    if mod == "transcription_velocity":
        return [e2, e1, e1, e2, e1, e1]
    return None


def bundle_functions():
    """{function: number of score keys of one entry} for every function that writes score keys"""
    out = {}
    for t in TASKS:
        for c in SPEC[t][2]:
            n = sum(1 for x in c.targets if x[0] == "score")
            if n and not c.fn.startswith("builtins."):
                out[c.fn] = n
    return out


def check_metric_scalar(inp):
    """A public metric of a bundle, called directly on EMPTY annotations, returns as many real scalars as the bundle
    has keys for it."""
    fn = inp["fn"]
    n = bundle_functions()[fn]
    args = empty_args(fn)
    if args is None:
        return None
    try:
        res = resolve(fn)(*args)
    except Exception:  # noqa: BLE001
        return None                   # rejecting empty input is C14's business
    vals = [res] if n == 1 else res
    if n > 1 and (not isinstance(res, (tuple, list)) or len(res) != n):
        return "%s(empty) returned %r, documented: %d values" % (fn, res, n)
    for v in vals:
        if not is_real_scalar(v):
            return "%s(empty) returned %r where %s documented" % (
                fn, res, "a scalar is" if n == 1 else "%d scalars are" % n)
    return None


def _oracle_gen(task):
    def gen(rng, tier, shard, nshards, boost):
        n_in = (6 if tier == "quick" else 40) * boost
        if task == "hierarchy":                      # ~0.2 s per evaluate
            n_in = (3 if tier == "quick" else 12) * boost
        subs = kw_subsets(task)
        floor = (48 if tier == "quick" else 400) * boost          # tasks with few keywords still get inputs
        n_in = max(n_in, -(-floor // len(subs)))
        if len(subs) < nshards:                                    # spread single-subset tasks over the shards
            subs = subs * (-(-nshards // len(subs)))
            n_in = max(1, n_in * len(kw_subsets(task)) // len(subs))
        idx = 0
        # empty annotations, with and without keywords
        for e in EMPTIES[task]:
            for names in subs:
                if len(names) > (1 if tier == "quick" else 2):
                    continue
                idx += 1
                if idx % nshards != shard:
                    continue
                yield {"task": task, "data": gen_data(rng, task, e), "kw": draw_kw(rng, task, names, idx % 3 == 0)}
        for names in subs:
            idx += 1
            if idx % nshards != shard:
                continue
            for j in range(n_in):
                yield {"task": task, "data": gen_data(rng, task, None),
                       "kw": draw_kw(rng, task, names, (idx + j) % 3 == 0)}
    return gen


def _scalar_gen(fn):
    def gen(rng, tier, shard, nshards, boost):
        if shard == 0:
            yield {"fn": fn, "empty": True}
    return gen


CHECKERS = {}
ORACLES = {}
for _t in TASKS:
    CHECKERS["%s.evaluate" % _t] = check_evaluate
    ORACLES["%s.evaluate" % _t] = _oracle_gen(_t)
for _fn in bundle_functions():
    if empty_args(_fn) is not None:
        CHECKERS[_fn] = check_metric_scalar
        ORACLES[_fn] = _scalar_gen(_fn)


# ----------------------------------------------------------------------------------------------------
# correspondence: Lean interpreter vs the observed call trace of the real evaluate()

def enc_kv(v):
    if v is None:
        return ["n"]
    if isinstance(v, bool):
        return ["b", v]
    if isinstance(v, int):
        return ["i", v]
    if isinstance(v, float):
        return ["f", Fr(repr(v))]
    if isinstance(v, str):
        return ["s", v]
    raise TypeError(v)


def enc_kw(kw):
    return [[k, enc_kv(v)] for k, v in kw.items()]


_CODES = None


def _ckey(co):
    """identity of a code object that survives a re-executed module (importlib.reload) — the code objects are new, their
    file / name / first line are not"""
    return (co.co_filename, co.co_name, co.co_firstlineno)


def _real(f):
    """the library function behind a harness/recycle.py wrapper (installed in the modules' namespaces by an earlier
    correspondence case of the same worker process)"""
    return getattr(f, "_recycle_real", f)


def _codes():
    global _CODES
    if _CODES is None:
        _CODES = {}
        for mod in TASKS + ["util"]:
            m = getattr(mir_eval, mod)
            for name, f in vars(m).items():
                f = _real(f)
                if inspect.isfunction(f) and f.__module__ == m.__name__:
                    _CODES[_ckey(f.__code__)] = "%s.%s" % (mod, name)
    return _CODES


def _harness_frame(frame):
    fn = frame.f_code.co_filename
    return fn.startswith("<recycle:") or fn.endswith(("recycle.py", "relcheck.py"))


def _caller(frame):
    """the nearest calling frame that is not one of the harness's forwarding wrappers"""
    back = frame.f_back
    while back is not None and _harness_frame(back):
        back = back.f_back
    return back


def _plain(v):
    if isinstance(v, (np.floating, np.integer)):
        return v.item()
    return v


def trace_evaluate(task, d, kw):
    """Run the real evaluate under sys.setprofile.  -> [[callee, via_filter, [[param, value]...]]...], [keys]
    for the calls made directly by evaluate() or by filter_kwargs on its behalf; only keyword-capable
    parameters with plain values are reported."""
    module = getattr(mir_eval, task)
    ev_code = _ckey(_real(module.evaluate).__code__)
    fk_code = _ckey(_real(mir_eval.util.filter_kwargs).__code__)
    codes = _codes()
    rec = []

    def prof(frame, event, arg):
        if event != "call":
            return
        name = codes.get(_ckey(frame.f_code))
        if name is None or name in ("util.filter_kwargs", "util.has_kwargs"):
            return
        back = _caller(frame)
        via = False
        if back is not None and _ckey(back.f_code) == fk_code:
            via = True
            back = _caller(back)
        if back is None or _ckey(back.f_code) != ev_code:
            return
        co = frame.f_code
        params = list(co.co_varnames[:co.co_argcount + co.co_kwonlyargcount])
        vals = []
        for p in params:
            v = _plain(frame.f_locals.get(p))
            if v is None or isinstance(v, (bool, int, float, str)):
                vals.append([p, v])
        if co.co_flags & inspect.CO_VARKEYWORDS:
            extra = frame.f_locals.get(co.co_varnames[co.co_argcount + co.co_kwonlyargcount +
                                                        (1 if co.co_flags & inspect.CO_VARARGS else 0)])
            for k in sorted(extra or {}):
                vals.append(["**" + k, _plain(extra[k])])
        rec.append([name, via, vals])

    args = materialize(task, d)
    old = sys.getprofile()
    # the call trace is observed on the library's own calls: with the recycling wrappers switched off they only forward
    # (a wrapper that is on calls its function twice, once on a same-shaped variant)
    rstate = sys.modules["recycle"]._STATE if "recycle" in sys.modules else None
    ron = rstate["on"] if rstate is not None else False
    if rstate is not None:
        rstate["on"] = False
    sys.setprofile(prof)
    try:
        res = module.evaluate(*args, **dict(kw))
    finally:
        sys.setprofile(old)
        if rstate is not None:
            rstate["on"] = ron
    return [rec, list(res.keys())]


def model_trace_post(task, d):
    """model value of `evalprog.run` -> the form `trace_evaluate` reports (defaults filled in from the real
    signature for parameters the model says are not passed)."""
    npos_plain = None

    def post(mv):
        records, keys, returned = mv
        out = []
        for (idx, fn, outs, npos, named, via, passkw, kwargs) in records:
            if fn.startswith("builtins."):
                continue
            f = resolve(fn)
            sig = inspect.signature(f)
            got = {k: v for k, v in kwargs}
            vals = []
            plist = [p for p in sig.parameters.values() if p.kind in (p.POSITIONAL_OR_KEYWORD, p.KEYWORD_ONLY,
                                                                      p.POSITIONAL_ONLY)]
            for i, p in enumerate(plist):
                if i < int(npos) or p.name in named:
                    continue          # bound positionally / by name: an annotation, not reported by the model
                if p.name in got:
                    v = got.pop(p.name)
                else:
                    v = p.default if p.default is not inspect.Parameter.empty else None
                v = _plain(v)
                if v is None or isinstance(v, (bool, int, float, str, Fr)):
                    vals.append([p.name, v])
            # what is left was not bound to a named parameter
            for k in sorted(got):
                vals.append(["**" + k, got[k]])
            out.append([fn, via, vals])
        return [out, keys] if returned else ["did not return", keys]
    return post


def _strip_positional(task, d, kw):
    """real-side trace with positionally/explicitly bound parameters removed, like the model's view"""
    rec, keys = trace_evaluate(task, d, kw)
    calls = [c for c in SPEC[task][2] if not c.fn.startswith("builtins.")]
    out = []
    ci = 0
    kw_eff = dict(kw)
    for k, v in SPEC[task][1]:
        kw_eff.setdefault(k, _spec_value(v))
    live = [c for c in calls if not (c.cond is not None and kw_eff.get(c.cond) is None)]
    for i, (name, via, vals) in enumerate(rec):
        # the number of positional arguments is taken from the *generated program* through the model's record (same
        # index); here we only need a stable rule: drop parameters whose value is not plain (arrays) — already done —
        # and those bound positionally per the documented bundle when the callee matches
        drop = set()
        if i < len(live) and live[i].fn == name:
            f = resolve(name)
            plist = [p.name for p in inspect.signature(f).parameters.values()
                     if p.kind in (p.POSITIONAL_OR_KEYWORD, p.KEYWORD_ONLY, p.POSITIONAL_ONLY)]
            drop = set(plist[:len(live[i].args)]) | set(k for k, _ in live[i].named)
        out.append([name, via, [pv for pv in vals if pv[0] not in drop]])
    return [out, keys]


def _evaluable(task, d, kw):
    import warnings
    try:
        with warnings.catch_warnings():
            warnings.simplefilter("ignore")
            getattr(mir_eval, task).evaluate(*materialize(task, d), **dict(kw))
        return True
    except Exception:  # noqa: BLE001
        return False


def suite_trace(rng, tier, shard, nshards):
    n_in = 2 if tier == "quick" else 8
    idx = 0
    for task in TASKS:
        for names in kw_subsets(task):
            idx += 1
            if idx % nshards != shard:
                continue
            for j in range(n_in):
                d = gen_data(rng, task, None)
                kw = draw_kw(rng, task, names, (idx + j) % 3 == 0)
                if not _evaluable(task, d, kw):
                    continue          # outside the domain of the correspondence (the oracle still sees such inputs)
                yield Case("evalprog.run", [task, enc_kw(kw)],
                           lambda task=task, d=d, kw=kw: _strip_positional(task, d, kw),
                           tag="%s:%d kw" % (task, len(kw)),
                           info={"task": task, "data": d, "kw": kw}, nontrivial=True,
                           post=model_trace_post(task, d))


def suite_signatures(rng, tier, shard, nshards):
    for i, (code, qn) in enumerate(sorted(_codes().items(), key=lambda kv: kv[1])):
        if i % nshards != shard:
            continue
        f = resolve(qn)
        yield Case("evalprog.sig", [qn],
                   lambda f=f: [list(f.__code__.co_varnames[:f.__code__.co_argcount]),
                                bool(mir_eval.util.has_kwargs(f))],
                   tag=qn.split(".")[0], info={"fn": qn}, nontrivial=True)
        if qn in ("util.filter_kwargs", "util.has_kwargs"):
            continue
        kw = {"window": 1, "beta": 2, UNRELATED: 3}
        for p in list(f.__code__.co_varnames[:f.__code__.co_argcount])[-2:]:
            kw[p] = 4
        for p in list(f.__code__.co_varnames[f.__code__.co_argcount:])[:3]:
            kw.setdefault(p, 5)       # local variable names are not parameters
        yield Case("evalprog.filter_kwargs", [qn, enc_kw(kw)],
                   lambda f=f, kw=kw: [[k, v] for k, v in _filter_probe(f, kw).items()],
                   tag="filter:" + qn.split(".")[0], info={"fn": qn, "kw": kw}, nontrivial=True)


def _filter_probe(f, kw):
    """the dictionary the REAL util.filter_kwargs passes for `f`: run it on a stand-in that shares f's signature
    objects (`__code__` for co_varnames/co_argcount, `__signature__` for has_kwargs) but records instead of computing."""
    got = {}

    def probe(**kwargs):
        got.update(kwargs)

    class Standin:
        __code__ = f.__code__
        __signature__ = inspect.signature(f)

        def __call__(self, *a, **k):
            return probe(**k)

    mir_eval.util.filter_kwargs(Standin(), **kw)
    return got


def _spec_to_proto(task):
    names, defaults, calls = SPEC[task]

    def kv(v):
        return v

    def arg(a):
        return list(a)
    return [list(names), [[k, kv(v)] for k, v in defaults],
            [[c.fn, [list(t) for t in c.targets], [arg(a) for a in c.args],
              [[k, arg(a)] for k, a in c.named], [[k, kv(v)] for k, v in c.forced], c.cond, c.passkw]
             for c in calls]]


def suite_spec(rng, tier, shard, nshards):
    for i, task in enumerate(TASKS):
        if i % nshards != shard:
            continue
        yield Case("evalspec.bundle", [task], lambda task=task: _spec_to_proto(task), tag="spec",
                   info={"task": task}, nontrivial=True)


SUITES = {"trace": suite_trace, "signatures": suite_signatures, "spec": suite_spec}


def classify(suite, d):
    info = d.get("info") or {}
    if suite == "trace" and "task" in info:
        return "%s.evaluate" % info["task"], {"task": info["task"], "data": info["data"], "kw": info["kw"]}
    return None
