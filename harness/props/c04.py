"""C04 — event, frame and note metrics equal their published definitions.

The Lean model *is* the executable definition (with `algorithm = definition` theorems where the code uses a
cleverer algorithm); the property is decided by the value correspondence on exact-lattice / margin inputs, so a
disagreement is itself the failing input (after the streams have excluded threshold-rounding cases by construction).
"""
import glob
import inspect
import os

import mir_eval

import suites as SU

PID = "C04"
# mir_eval.key is also REGENERATED from the source (translate/scalars.py); Props/C04_KeyGen.lean proves the generated
# definitions equal to the hand-written key model
TRANSLATOR_PARTS = ["scalars_key", "defaults"]   # defaults: Props/C04_Defaults.lean (documented defaults, decide)
_here = os.path.dirname(os.path.abspath(__file__))
_props = os.path.join(os.path.dirname(os.path.dirname(_here)), "lean", "MirProofs", "Props")
LEAN_MODULES = sorted("MirProofs.Props." + os.path.basename(f)[:-5]
                      for f in glob.glob(os.path.join(_props, "C04*.lean")))
RULE = ("every modelled metric function on stream E (exact 1/32 s lattice with deliberate threshold coincidences, "
        "empty / single / duplicated inputs, all documented parameter values) and stream D (margins) where pitch "
        "matters; key pairs and tempo-hit lattices exhaustively; documented defaults pinned; non-trivial = both "
        "sides non-empty")
ASSUMPTIONS = ["exp/log/erf/lgamma of Lean Float vs NumPy/SciPy agree to 1e-9 (both libm-class)",
               "log2 on pitches is exercised through the harness conversion only"]
UNPROVED = []
CORRESPONDENCE_IS_PROPERTY = True
SUITES, _cl = SU.load_all()
from suites import fixtures as _FX  # noqa: E402
RULE += "; " + _FX.RULE_NOTE

# documented defaults (from the docstrings) are pinned: a changed default is a C04 matter
DOCUMENTED_DEFAULTS = {
    ("beat", "trim_beats"): {"min_beat_time": 5.0},
    ("beat", "f_measure"): {"f_measure_threshold": 0.07},
    ("beat", "cemgil"): {"cemgil_sigma": 0.04},
    ("beat", "goto"): {"goto_threshold": 0.35, "goto_mu": 0.2, "goto_sigma": 0.2},
    ("beat", "p_score"): {"p_score_threshold": 0.2},
    ("beat", "continuity"): {"continuity_phase_threshold": 0.175, "continuity_period_threshold": 0.175},
    ("beat", "information_gain"): {"bins": 41},
    ("onset", "f_measure"): {"window": 0.05},
    ("segment", "detection"): {"window": 0.5, "beta": 1.0, "trim": False},
    ("segment", "deviation"): {"trim": False},
    ("melody", "raw_pitch_accuracy"): {"cent_tolerance": 50},
    ("melody", "raw_chroma_accuracy"): {"cent_tolerance": 50},
    ("melody", "overall_accuracy"): {"cent_tolerance": 50},
    ("multipitch", "compute_num_true_positives"): {"window": 0.5, "chroma": False},
    ("transcription", "match_notes"): {"onset_tolerance": 0.05, "pitch_tolerance": 50.0, "offset_ratio": 0.2,
                                       "offset_min_tolerance": 0.05, "strict": False},
    ("transcription", "precision_recall_f1_overlap"): {"onset_tolerance": 0.05, "pitch_tolerance": 50.0,
                                                       "offset_ratio": 0.2, "offset_min_tolerance": 0.05,
                                                       "strict": False, "beta": 1.0},
    ("transcription", "onset_precision_recall_f1"): {"onset_tolerance": 0.05, "strict": False, "beta": 1.0},
    ("transcription", "offset_precision_recall_f1"): {"offset_ratio": 0.2, "offset_min_tolerance": 0.05,
                                                      "strict": False, "beta": 1.0},
    ("transcription_velocity", "match_notes"): {"velocity_tolerance": 0.1},
    ("tempo", "detection"): {"tol": 0.08},
    ("alignment", "percentage_correct"): {"window": 0.3},
    ("pattern", "standard_FPR"): {"tol": 1e-5},
    ("pattern", "establishment_FPR"): {"similarity_metric": "cardinality_score"},
    ("pattern", "occurrence_FPR"): {"thres": 0.75, "similarity_metric": "cardinality_score"},
    ("pattern", "three_layer_FPR"): {},
    ("pattern", "first_n_three_layer_P"): {"n": 5},
    ("pattern", "first_n_target_proportion_R"): {"n": 5},
}


def check_defaults(inp):
    mod, fn = inp["module"], inp["function"]
    f = getattr(getattr(mir_eval, mod), fn)
    sig = inspect.signature(f)
    for k, v in DOCUMENTED_DEFAULTS[(mod, fn)].items():
        if k not in sig.parameters:
            return "%s.%s has no parameter %r (documented default %r)" % (mod, fn, k, v)
        d = sig.parameters[k].default
        if d != v or type(d) is bool and type(v) is not bool:
            return "%s.%s default %s=%r differs from the documented %r" % (mod, fn, k, d, v)
    return None


def gen_defaults(rng, tier, shard, nshards, boost):
    for i, (mod, fn) in enumerate(sorted(DOCUMENTED_DEFAULTS)):
        if i % nshards == shard:
            yield {"module": mod, "function": fn}


def suite_gen_key(rng, tier, shard, nshards):
    """mir_eval.key as REGENERATED from the source (driver op `gen.scalar`, lean/MirGen/Scalars.lean) vs the real
    functions: key pairs (quick: a sample + every related pair class; thorough: all ordered pairs), malformed keys"""
    import chordlabels as cl
    from props import c09
    keys = cl.all_keys()
    pairs = []
    if tier == "thorough":
        pairs = [(r, e) for r in keys for e in keys]
    else:
        for _ in range(1500):
            pairs.append((keys[rng.randrange(len(keys))], keys[rng.randrange(len(keys))]))
    bad = c09.KEY_STRINGS_BAD
    for b in bad:
        pairs.append((b, keys[rng.randrange(len(keys))]))
        pairs.append((keys[rng.randrange(len(keys))], b))
    for i, (r, e) in enumerate(pairs):
        if i % nshards != shard:
            continue
        yield Case("gen.scalar", ["key.weighted_score", r, e], lambda r=r, e=e: mir_eval.key.weighted_score(r, e),
                   tag="gen weighted_score", info={"ref": r, "est": e})
    singles = list(bad) + [keys[rng.randrange(len(keys))] for _ in range(40)] + ["X", "x"]
    for i, k in enumerate(singles):
        if i % nshards != shard:
            continue
        yield Case("gen.scalar", ["key.validate_key", k], lambda k=k: mir_eval.key.validate_key(k),
                   tag="gen validate_key", info={"key": k})
        yield Case("gen.scalar", ["key.split_key_string", k], lambda k=k: mir_eval.key.split_key_string(k),
                   tag="gen split_key_string", info={"key": k})
        yield Case("gen.scalar", ["key.validate", k, "C major"], lambda k=k: mir_eval.key.validate(k, "C major"),
                   tag="gen validate", info={"key": k})


from core import Case  # noqa: E402
SUITES["gen_scalar.key"] = suite_gen_key

CHECKERS = {"documented_defaults": check_defaults}
ORACLES = {"documented_defaults": gen_defaults}
from props import _relational  # noqa: E402
_xc, _xo = _relational.extra(PID)
CHECKERS.update(_xc)
ORACLES.update(_xo)
