"""C04 — event, frame and note metrics equal their published definitions.

The Lean model *is* the executable definition (with `algorithm = definition` theorems where the code uses a
cleverer algorithm); the property is decided by the value correspondence on exact-lattice / margin inputs, so a
disagreement is itself the failing input (after the streams have excluded threshold-rounding cases by construction).
"""
import glob
import inspect
import os

import mir_eval

import suites as SU

PID = "C04"
# mir_eval.key is also REGENERATED from the source (translate/scalars.py); Props/C04_KeyGen.lean proves the generated
# definitions equal to the hand-written key model
TRANSLATOR_PARTS = ["scalars_key", "defaults"]   # defaults: Props/C04_Defaults.lean (documented defaults, decide)
# the event-metric glue (util._fast_hit_windows, util.match_events, onset / beat f_measure, segment.detection / deviation)
# is REGENERATED too (translate/evglue.py -> MirGen/EvGlue.lean); Props/C04_GenGlue.lean proves it equal to the hand models
TRANSLATOR_PARTS += ["evglue"]
# ... and the transcription P / R / F functions (translate/trmatch.py -> MirGen/TrMatch.lean; Props/C04_GenTr.lean)
TRANSLATOR_PARTS += ["trmatch"]
# mir_eval.melody's frame metrics, validation, freq_to_voicing and constant_hop_timebase are REGENERATED from the source
# (translate/melody.py -> lean/MirGen/Melody.lean); Props/C04_GenMelody.lean proves the generated definitions equal to the
# hand-written melody model for all inputs; suite `gen_melody` runs them (driver op `gen.melody`) against the real functions
TRANSLATOR_PARTS += ["melody"]
# mir_eval.pattern's metrics are REGENERATED from the source (translate/pattern.py -> lean/MirGen/Pattern.lean, over the
# validators part's Mir.GenV.pattern.validate / _n_onset_midi); Props/C04_GenPattern.lean proves the generated definitions
# equal to the hand-written pattern model for all pattern lists; suite `gen_pattern` runs them (driver op `gen.pattern`)
TRANSLATOR_PARTS += ["validators", "pattern"]
TRANSLATOR_PARTS += ["beat"]     # trim_beats, _get_reference_beat_variations, p_score regenerated (lean/MirGen/Beat.lean); Props/C04_GenBeat.lean; suite gen_beat
# mir_eval.alignment's metrics and the glue of its `evaluate` are REGENERATED from the source (translate/alignment.py ->
# lean/MirGen/Alignment.lean; `validate` is the definition of the `validators` part, hence that part is regenerated here too);
# Props/C04_GenAlignment.lean proves the generated definitions equal to the hand-written alignment model for all timestamp
# lists; suite `gen_alignment` runs them (driver op `gen.alignment`) against the real functions
TRANSLATOR_PARTS += ["validators", "alignment"]
# ... and the `evaluate` glue of onset / tempo (translate/evalglue.py -> lean/MirGen/EvalGlue.lean, over the metric definitions
# of the `evglue` part; Props/C04_GenEvalGlue.lean; suite `gen_evalglue`)
TRANSLATOR_PARTS += ["evalglue"]
_here = os.path.dirname(os.path.abspath(__file__))
_props = os.path.join(os.path.dirname(os.path.dirname(_here)), "lean", "MirProofs", "Props")
LEAN_MODULES = sorted("MirProofs.Props." + os.path.basename(f)[:-5]
                      for f in glob.glob(os.path.join(_props, "C04*.lean")))
RULE = ("every modelled metric function on stream E (exact 1/32 s lattice with deliberate threshold coincidences, "
        "empty / single / duplicated inputs, all documented parameter values) and stream D (margins) where pitch "
        "matters; key pairs and tempo-hit lattices exhaustively; documented defaults pinned; non-trivial = both "
        "sides non-empty")
ASSUMPTIONS = ["exp/log/erf/lgamma of Lean Float vs NumPy/SciPy agree to 1e-9 (both libm-class)",
               "log2 on pitches is exercised through the harness conversion only"]
UNPROVED = []
CORRESPONDENCE_IS_PROPERTY = True
SUITES, _cl = SU.load_all()
from suites import fixtures as _FX  # noqa: E402
RULE += "; " + _FX.RULE_NOTE

# documented defaults (from the docstrings) are pinned: a changed default is a C04 matter
DOCUMENTED_DEFAULTS = {
    ("beat", "trim_beats"): {"min_beat_time": 5.0},
    ("beat", "f_measure"): {"f_measure_threshold": 0.07},
    ("beat", "cemgil"): {"cemgil_sigma": 0.04},
    ("beat", "goto"): {"goto_threshold": 0.35, "goto_mu": 0.2, "goto_sigma": 0.2},
    ("beat", "p_score"): {"p_score_threshold": 0.2},
    ("beat", "continuity"): {"continuity_phase_threshold": 0.175, "continuity_period_threshold": 0.175},
    ("beat", "information_gain"): {"bins": 41},
    ("onset", "f_measure"): {"window": 0.05},
    ("segment", "detection"): {"window": 0.5, "beta": 1.0, "trim": False},
    ("segment", "deviation"): {"trim": False},
    ("melody", "raw_pitch_accuracy"): {"cent_tolerance": 50},
    ("melody", "raw_chroma_accuracy"): {"cent_tolerance": 50},
    ("melody", "overall_accuracy"): {"cent_tolerance": 50},
    ("multipitch", "compute_num_true_positives"): {"window": 0.5, "chroma": False},
    ("transcription", "match_notes"): {"onset_tolerance": 0.05, "pitch_tolerance": 50.0, "offset_ratio": 0.2,
                                       "offset_min_tolerance": 0.05, "strict": False},
    ("transcription", "precision_recall_f1_overlap"): {"onset_tolerance": 0.05, "pitch_tolerance": 50.0,
                                                       "offset_ratio": 0.2, "offset_min_tolerance": 0.05,
                                                       "strict": False, "beta": 1.0},
    ("transcription", "onset_precision_recall_f1"): {"onset_tolerance": 0.05, "strict": False, "beta": 1.0},
    ("transcription", "offset_precision_recall_f1"): {"offset_ratio": 0.2, "offset_min_tolerance": 0.05,
                                                      "strict": False, "beta": 1.0},
    ("transcription_velocity", "match_notes"): {"velocity_tolerance": 0.1},
    ("tempo", "detection"): {"tol": 0.08},
    ("alignment", "percentage_correct"): {"window": 0.3},
    ("pattern", "standard_FPR"): {"tol": 1e-5},
    ("pattern", "establishment_FPR"): {"similarity_metric": "cardinality_score"},
    ("pattern", "occurrence_FPR"): {"thres": 0.75, "similarity_metric": "cardinality_score"},
    ("pattern", "three_layer_FPR"): {},
    ("pattern", "first_n_three_layer_P"): {"n": 5},
    ("pattern", "first_n_target_proportion_R"): {"n": 5},
}


def check_defaults(inp):
    mod, fn = inp["module"], inp["function"]
    f = getattr(getattr(mir_eval, mod), fn)
    sig = inspect.signature(f)
    for k, v in DOCUMENTED_DEFAULTS[(mod, fn)].items():
        if k not in sig.parameters:
            return "%s.%s has no parameter %r (documented default %r)" % (mod, fn, k, v)
        d = sig.parameters[k].default
        if d != v or type(d) is bool and type(v) is not bool:
            return "%s.%s default %s=%r differs from the documented %r" % (mod, fn, k, d, v)
    return None


def gen_defaults(rng, tier, shard, nshards, boost):
    for i, (mod, fn) in enumerate(sorted(DOCUMENTED_DEFAULTS)):
        if i % nshards == shard:
            yield {"module": mod, "function": fn}


def suite_gen_key(rng, tier, shard, nshards):
    """mir_eval.key as REGENERATED from the source (driver op `gen.scalar`, lean/MirGen/Scalars.lean) vs the real
    functions: key pairs (quick: a sample + every related pair class; thorough: all ordered pairs), malformed keys"""
    import chordlabels as cl
    from props import c09
    keys = cl.all_keys()
    pairs = []
    if tier == "thorough":
        pairs = [(r, e) for r in keys for e in keys]
    else:
        for _ in range(1500):
            pairs.append((keys[rng.randrange(len(keys))], keys[rng.randrange(len(keys))]))
    bad = c09.KEY_STRINGS_BAD
    for b in bad:
        pairs.append((b, keys[rng.randrange(len(keys))]))
        pairs.append((keys[rng.randrange(len(keys))], b))
    for i, (r, e) in enumerate(pairs):
        if i % nshards != shard:
            continue
        yield Case("gen.scalar", ["key.weighted_score", r, e], lambda r=r, e=e: mir_eval.key.weighted_score(r, e),
                   tag="gen weighted_score", info={"ref": r, "est": e})
    singles = list(bad) + [keys[rng.randrange(len(keys))] for _ in range(40)] + ["X", "x"]
    for i, k in enumerate(singles):
        if i % nshards != shard:
            continue
        yield Case("gen.scalar", ["key.validate_key", k], lambda k=k: mir_eval.key.validate_key(k),
                   tag="gen validate_key", info={"key": k})
        yield Case("gen.scalar", ["key.split_key_string", k], lambda k=k: mir_eval.key.split_key_string(k),
                   tag="gen split_key_string", info={"key": k})
        yield Case("gen.scalar", ["key.validate", k, "C major"], lambda k=k: mir_eval.key.validate(k, "C major"),
                   tag="gen validate", info={"key": k})


from core import Case  # noqa: E402
SUITES["gen_scalar.key"] = suite_gen_key

# ----------------------------------------------------------------------------------------
# the event-metric glue as REGENERATED from the source (driver op `gen.evglue`, lean/MirGen/EvGlue.lean) vs the real
# functions: exercises the translator's semantic assumptions of lean/MirModel/PyEvGlue.lean (argsort + searchsorted windows,
# slices, the hit dict in insertion order + Hopcroft-Karp, Python float division, b[1:-1], outer differences / medians)
import numpy as _np  # noqa: E402
from fractions import Fraction as _Fr  # noqa: E402


def _retarget_glue(case, fn):
    info = dict(case.info or {}, op="gen.evglue", fn=fn) if isinstance(case.info, dict) else {"op": "gen.evglue", "fn": fn,
                                                                                            "orig": case.info}
    return Case("gen.evglue", [fn] + list(case.args), case.call, tol=case.tol, tag="gen " + (case.tag or fn), info=info,
                nontrivial=case.nontrivial, post=case.post)


def suite_gen_evglue(rng, tier, shard, nshards):
    """the translated definitions vs the real functions: util._fast_hit_windows (hit pairs compared as sets),
    util.match_events (pairs; sizes only when the reference holds equal values, whose argsort order NumPy leaves open) on
    unsorted / duplicated / empty event lists with pairs exactly at the window; onset.f_measure, beat.f_measure,
    segment.detection, segment.deviation on the existing onset / beat / boundary streams."""
    import evglue_cases
    for c in evglue_cases.util_cases(rng, tier):
        yield c
    import mir_eval.tempo as _T
    for _ in range(120 if tier == "quick" else 2000):
        rt = [_Fr(rng.choice([0, 0, 60, 90, 120, 121, -1]), 1) for _ in range(rng.choice([2, 2, 2, 2, 1, 3, 0]))]
        et = [_Fr(rng.choice([0, 60, 64, 90, 120, 180, -5]), 1) for _ in range(rng.choice([2, 2, 2, 2, 1, 3]))]
        wt = rng.choice([_Fr(0), _Fr(1, 4), _Fr(1, 2), _Fr(1), _Fr(5, 4), _Fr(-1, 8)])
        yield Case("gen.evglue", ["tempo.validate", rt, wt, et],
                   lambda rt=rt, wt=wt, et=et: _T.validate(_np.array([float(x) for x in rt]), float(wt),
                                                           _np.array([float(x) for x in et])),
                   tag="gen tempo.validate", info={"op": "gen.evglue", "fn": "tempo.validate", "ref": [str(x) for x in rt],
                                                   "weight": str(wt), "est": [str(x) for x in et]})
        tol = rng.choice([_Fr(2, 25), _Fr(0), _Fr(1, 2), _Fr(1), _Fr(3, 2), _Fr(-1, 10), _Fr(1, 15)])
        yield Case("gen.evglue", ["tempo.detection", rt, wt, et, tol],
                   lambda rt=rt, wt=wt, et=et, tol=tol: list(_T.detection(_np.array([float(x) for x in rt]), float(wt),
                                                                       _np.array([float(x) for x in et]), float(tol))),
                   tag="gen tempo.detection faults", info={"op": "gen.evglue", "fn": "tempo.detection",
                                                          "ref": [str(x) for x in rt], "weight": str(wt),
                                                          "est": [str(x) for x in et], "tol": str(tol)})
    lim = 200 if tier == "quick" else None
    for key, fn in (("onset.onset.f_measure", "onset.f_measure"), ("onset.onset.exhaustive", "onset.f_measure"),
                    ("beat.beat.f_measure", "beat.f_measure"), ("boundary.segment.detection", "segment.detection"),
                    ("boundary.segment.deviation", "segment.deviation"), ("fixtures.onset", "onset.f_measure"),
                    ("fixtures.beat", "beat.f_measure"), ("fixtures.segment_boundary", None),
                    ("tempo.tempo.detection", "tempo.detection"), ("tempo.tempo.exhaustive", "tempo.detection"),
                    ("fixtures.tempo", "tempo.detection")):
        if key not in SUITES:
            continue
        for k, c in enumerate(SUITES[key](rng, tier, shard, nshards)):
            if lim is not None and k >= lim:
                break
            f = fn or c.op
            if c.op == f and f in ("onset.f_measure", "beat.f_measure", "segment.detection", "segment.deviation",
                                   "tempo.detection", "tempo.validate"):
                yield _retarget_glue(c, f)


SUITES["gen_evglue"] = suite_gen_evglue


def suite_gen_trmatch_prf(rng, tier, shard, nshards):
    import evglue_cases
    for c in evglue_cases.trmatch_cases(rng, tier, shard, nshards, only=("onset_precision_recall_f1",
                                                                        "offset_precision_recall_f1",
                                                                        "precision_recall_f1_overlap")):
        yield c


SUITES["gen_trmatch.prf"] = suite_gen_trmatch_prf


# ------------------------------------------------------------------------------------------------
# suite gen_melody: the GENERATED melody definitions (lean/MirGen/Melody.lean, driver op `gen.melody`) vs the real
# functions, and the run-time library's primitives themselves (`pymel.*`) vs NumPy on the shapes the validating
# functions never let through — lean/MirModel/PyMel.lean is the translator's semantic assumption

def _gm_available():
    """the functions the translator emitted on THIS run (driver op `gen.melody "?"`): cases are generated for those only — a
    function that left the subset is reported as a translator problem / broken theorems, never as a disagreeing input"""
    import core
    import proto
    try:
        outs = core.run_driver(["0 gen.melody %s\n" % proto.enc("?")])
        v = proto.dec_line(outs[0])[1]
    except Exception:  # noqa: BLE001
        return set()
    return set(v) if isinstance(v, list) else set()


def _gm_retarget(case, extra=()):
    """a case of a hand-model melody suite asked of the generated definition instead"""
    fn = case.op.split(".", 1)[1]
    info = dict(case.info or {}, op="gen.melody", fn=fn)
    return Case("gen.melody", [fn] + list(case.args) + list(extra), case.call, tol=case.tol, tag="gen " + case.tag,
                info=info, nontrivial=case.nontrivial, post=case.post)


def _gm_frame_cases(rv, rc, ev, ec, tol, tag):
    import gen
    import proto
    from mir_eval import melody as M
    info = {k: proto.jsonable(v) for k, v in dict(rv=rv, rc=rc, ev=ev, ec=ec, tol=tol).items()}
    a = (rv, rc, ev, ec)
    nontrivial = bool(rv) and any(v > 0 for v in rv)
    for fn, f in (("raw_pitch_accuracy", M.raw_pitch_accuracy), ("raw_chroma_accuracy", M.raw_chroma_accuracy),
                  ("overall_accuracy", M.overall_accuracy)):
        yield Case("gen.melody", [fn, rv, rc, ev, ec, tol],
                   lambda f=f, a=a, tol=tol: f(*[gen.arr(x) for x in a], cent_tolerance=float(tol)),
                   tag=tag, nontrivial=nontrivial, info=dict(info, op="gen.melody", fn=fn))


def _gm_voicing_cases(rv, ev, tag):
    import gen
    import proto
    from mir_eval import melody as M
    info = {k: proto.jsonable(v) for k, v in dict(rv=rv, ev=ev).items()}
    for fn, f in (("voicing_recall", M.voicing_recall), ("voicing_false_alarm", M.voicing_false_alarm),
                  ("voicing_measures", M.voicing_measures), ("validate_voicing", M.validate_voicing)):
        yield Case("gen.melody", [fn, rv, ev], lambda f=f, rv=rv, ev=ev: f(gen.arr(rv), gen.arr(ev)),
                   tag=tag, nontrivial=any(v > 0 for v in rv), info=dict(info, op="gen.melody", fn=fn))


def _gm_prim_cases(rng, tier):
    """the primitives of lean/MirModel/PyMel.lean against NumPy: every combination of lengths 0..3 (broadcasting of a
    length-1 operand, also against length 0; ValueError / IndexError otherwise; the empty boolean mask)"""
    import itertools
    import numpy as np
    import gen
    from fractions import Fraction as Fr
    reps = 1 if tier == "quick" else 6
    vals = [Fr(0), Fr(1), Fr(1, 2), Fr(-3, 4), Fr(100), Fr(5, 4)]
    for la, lb in itertools.product(range(4), repeat=2):
        for _ in range(reps):
            a = [rng.choice(vals) for _ in range(la)]
            b = [rng.choice(vals) for _ in range(lb)]
            ma = [rng.random() < 0.5 for _ in range(la)]
            mb = [rng.random() < 0.5 for _ in range(lb)]
            tag = "prim lengths %s" % ("equal" if la == lb else "one" if 1 in (la, lb) else "unequal")
            info = {"op": "pymel", "a": [str(x) for x in a], "b": [str(x) for x in b], "ma": ma, "mb": mb}
            A, B = gen.arr(a), gen.arr(b)
            MA, MB = np.array(ma, dtype=bool), np.array(mb, dtype=bool)
            yield Case("pymel.vsub", [a, b], lambda A=A, B=B: A - B, tag=tag, info=info)
            yield Case("pymel.vadd", [a, b], lambda A=A, B=B: A + B, tag=tag, info=info)
            yield Case("pymel.vmul", [a, b], lambda A=A, B=B: A * B, tag=tag, info=info)
            yield Case("pymel.vmulMask", [a, mb], lambda A=A, MB=MB: A * MB, tag=tag, info=info)
            yield Case("pymel.logicalAnd", [ma, mb], lambda MA=MA, MB=MB: np.logical_and(MA, MB), tag=tag, info=info)
            yield Case("pymel.logicalOr", [ma, mb], lambda MA=MA, MB=MB: np.logical_or(MA, MB), tag=tag, info=info)
            yield Case("pymel.getMask", [a, mb], lambda A=A, MB=MB: A[MB], tag=tag, info=info)

            def assign(A=A, MB=MB):
                w = np.array(A, dtype=float)
                w[MB] = 7
                return w
            yield Case("pymel.maskAssign", [a, mb, Fr(7)], assign, tag=tag, info=info)
            yield Case("pymel.countTrue", [mb], lambda MB=MB: int(sum(MB)), tag=tag, info=info)
    for num in (-2, -1, 0, 1, 2, 3, 5):
        for stop in (Fr(0), Fr(3, 4), Fr(-1), Fr(5, 2)):
            yield Case("pymel.linspace", [Fr(0), stop, num], lambda stop=stop, num=num: np.linspace(0, float(stop), num),
                       tag="prim linspace", info={"op": "pymel.linspace", "stop": str(stop), "num": num})
    special = ["nan", "inf", "-inf", Fr(0), Fr(3, 2), Fr(-2)]

    def f64(x):
        return np.float64(float(x)) if not isinstance(x, str) else np.float64(x)
    for op, fn in (("add", lambda x, y: x + y), ("sub", lambda x, y: x - y), ("mul", lambda x, y: x * y),
                   ("div", lambda x, y: x / y)):
        for x in special:
            for y in special:
                def call(fn=fn, x=x, y=y):
                    with np.errstate(all="ignore"):
                        return float(fn(f64(x), f64(y)))
                yield Case("pymel.arith", [op, x, y], call, tag="prim arith",
                           info={"op": "pymel.arith", "fn": op, "x": str(x), "y": str(y)})


def suite_gen_melody(rng, tier, shard, nshards):
    avail = _gm_available()
    for c in _suite_gen_melody(rng, tier, shard, nshards):
        if c.op != "gen.melody" or c.args[0] in avail:
            yield c


def _suite_gen_melody(rng, tier, shard, nshards):
    """frame metrics: ALL frame sequences up to length 1 (quick: 2 with a reduced alphabet) over voicings {0, 1/2, 1} and
    cent pairs on / next to / an octave from the tolerance, every combination of lengths 0..3 for the unvalidated voicing
    rates (broadcasting), the existing melody streams (frame measures, voicing measures, chroma folding, constant-hop
    time base, freq_to_voicing, evaluate on the E and D streams) re-targeted at the generated definitions, and the run-time primitives against NumPy"""
    import itertools
    from fractions import Fraction as Fr
    from suites import melody as MS
    voic = [Fr(0), Fr(1, 2), Fr(1)]
    pairs = [(Fr(0), Fr(0)), (Fr(0), Fr(3000)), (Fr(3000), Fr(0)), (Fr(3000), Fr(3040)), (Fr(3000), Fr(3050)),
             (Fr(3000), Fr(4210)), (Fr(3000), Fr(1750))]
    frames = [(v, r, w, e) for v in voic for (r, e) in pairs for w in voic]
    small = [f for f in frames if f[0] != Fr(1, 2) or f[2] != Fr(1, 2)] if tier == "quick" else frames
    seqs = [()] + [(f,) for f in frames]
    seqs += [(f, g) for f in small[::2] for g in small[1::3]] if tier == "quick" else [(f, g) for f in frames for g in frames]
    k = 0
    for seq in seqs:
        rv, rc, ev, ec = ([f[i] for f in seq] for i in range(4))
        for tol in (Fr(50),):
            k += 1
            if k % nshards != shard:
                continue
            for c in _gm_frame_cases(rv, rc, ev, ec, tol, "all n=%d" % len(seq)):
                yield c
            if len(seq) <= 1 or (rc[0] == 0 and ec[0] == 0):
                for c in _gm_voicing_cases(rv, ev, "all n=%d" % len(seq)):
                    yield c
    # the unvalidated voicing rates on every combination of lengths (each shard draws its own values)
    for la, lb in itertools.product(range(4), repeat=2):
        for _ in range(2 if tier == "quick" else 10):
            rv = [rng.choice(voic + [Fr(0)]) for _ in range(la)]
            ev = [rng.choice(voic) for _ in range(lb)]
            for c in _gm_voicing_cases(rv, ev, "lengths %s" % ("equal" if la == lb else "unequal")):
                yield c
    for c in _gm_prim_cases(rng, tier):
        yield c
    # the existing melody streams asked of the generated definitions
    for name, cap in (("melody.frame_measures", 200), ("melody.voicing_measures", 200), ("melody.chroma_dist", 100),
                      ("melody.constant_hop_timebase", 150), ("melody.hz_conversions", 150), ("melody.evaluate", 150)):
        for j, c in enumerate(MS.SUITES[name](rng, tier, shard, nshards)):
            if tier == "quick" and j >= cap:
                break
            if c.op in ("melody.hz2cents",):
                continue                                     # not translated (log2): stays a hand-model suite
            yield _gm_retarget(c)


SUITES["gen_melody"] = suite_gen_melody

# ------------------------------------------------------------------------------------------------
# suite gen_pattern: the GENERATED pattern definitions (lean/MirGen/Pattern.lean, driver op `gen.pattern`) vs the real
# functions on the existing pattern streams, and the run-time primitives (`pypat.*`, lean/MirModel/PyPat.lean) vs NumPy

def _gp_available():
    import core
    import proto
    try:
        outs = core.run_driver(["0 gen.pattern %s\n" % proto.enc("?")])
        v = proto.dec_line(outs[0])[1]
    except Exception:  # noqa: BLE001
        return set()
    return set(v) if isinstance(v, list) else set()


def _gp_prim_cases(rng, tier):
    import numpy as np
    from fractions import Fraction as Fr

    def f64(m):
        return np.asarray([[float(x) for x in r] for r in m], dtype=float).reshape(len(m), len(m[0]) if m else 0)

    def q():
        return Fr(rng.randint(-64, 64), 32)
    for _ in range(60 if tier == "quick" else 400):
        n, d = rng.choice([0, 1, 1, 2, 3, 4]), 2
        P = [[q() for _ in range(d)] for _ in range(n)]
        Q = [[q() for _ in range(d)] for _ in range(n)]
        if n:
            yield Case("pypat.msub", [P, Q], lambda P=P, Q=Q: (f64(P) - f64(Q)).tolist(), tag="prim msub",
                       info={"op": "pypat.msub"})
        yield Case("pypat.diffabsmax", [P], lambda P=P: float(np.max(np.abs(np.diff(f64(P), axis=0)))),
                   tag="prim diffabsmax n=%d" % n, info={"op": "pypat.diffabsmax", "P": [[str(x) for x in r] for r in P]})
        pts = [[Fr(rng.randint(0, 3)), Fr(rng.randint(60, 62))] for _ in range(rng.randint(0, 5))]
        pts2 = [[Fr(rng.randint(0, 3)), Fr(rng.randint(60, 62))] for _ in range(rng.randint(0, 5))]
        yield Case("pypat.setlen", [pts], lambda pts=pts: len(set(tuple(float(x) for x in p) for p in pts)),
                   tag="prim set", info={"op": "pypat.setlen"})
        yield Case("pypat.inter", [pts, pts2],
                   lambda a=pts, b=pts2: sorted(list(x) for x in (set(tuple(float(x) for x in p) for p in a)
                                                                 & set(tuple(float(x) for x in p) for p in b))),
                   tag="prim inter", info={"op": "pypat.inter"})
        r, c = rng.choice([1, 1, 2, 3]), rng.choice([1, 2, 3])
        M = [[q() for _ in range(c)] for _ in range(r)]
        for ax in (0, 1):
            yield Case("pypat.maxaxis%d" % ax, [r, c, M], lambda M=M, ax=ax: np.max(f64(M), axis=ax).tolist(),
                       tag="prim maxaxis%d" % ax, info={"op": "pypat.maxaxis"})
        rows = [rng.randint(0, r if rng.random() < 0.1 else r - 1) for _ in range(rng.randint(1, 4))]
        cols = [rng.randint(0, c - 1) for _ in range(rng.randint(1, 4))]
        yield Case("pypat.ix", [M, rows, cols],
                   lambda M=M, rows=rows, cols=cols: f64(M)[np.ix_(np.asarray(rows), np.asarray(cols))].tolist(),
                   tag="prim ix", info={"op": "pypat.ix"})
        a, b = rng.randint(0, 5), rng.choice([0, 1, 2, 3])

        def div(a=a, b=b):
            return a / float(b)
        yield Case("pypat.divF", [Fr(a), Fr(b)], div, tag="prim divF", info={"op": "pypat.divF"})
        k, n_ = rng.randint(0, 5), rng.randint(-3, 7)
        yield Case("pypat.minInt", [k, n_], lambda k=k, n_=n_: min(k, n_), tag="prim min", info={"op": "pypat.minInt"})
        xs = [Fr(i) for i in range(k)]
        yield Case("pypat.sliceTo", [xs, n_], lambda xs=xs, n_=n_: [float(x) for x in xs][:n_], tag="prim slice",
                   info={"op": "pypat.sliceTo"})


def suite_gen_pattern(rng, tier, shard, nshards):
    from suites import pattern as PS
    avail = _gp_available()
    if shard == 0:
        for c in _gp_prim_cases(rng, tier):
            yield c
    for name, cap in (("pattern_helpers", 400), ("pattern_standard", 200), ("pattern_establishment", 200),
                      ("pattern_occurrence", 200), ("pattern_three_layer", 200), ("pattern_first_n", 200),
                      ("pattern_exhaustive", 300)):
        for j, c in enumerate(PS.SUITES[name](rng, tier, shard, nshards)):
            if tier == "quick" and j >= cap:
                break
            fn = c.op.split(".", 1)[1]
            if not c.op.startswith("pattern.") or fn not in avail:
                continue
            info = dict(c.info or {}, op="gen.pattern", fn=fn)
            yield Case("gen.pattern", [fn] + list(c.args), c.call, tol=c.tol, tag="gen " + c.tag, info=info,
                       nontrivial=c.nontrivial, post=c.post)


SUITES["gen_pattern"] = suite_gen_pattern


# ------------------------------------------------------------------------------------------------
# suite gen_beat: the GENERATED beat definitions (lean/MirGen/Beat.lean, driver op `gen.beat`) vs the real functions, and the
# primitives of lean/MirModel/PyBeat.lean (`pybeat.*`: np.arange, np.interp, a[k::2]) vs NumPy — the translator's semantic
# assumptions

def _gb_available():
    """the functions the translator emitted on THIS run (driver op `gen.beat "?"`)"""
    import core
    import proto
    try:
        outs = core.run_driver(["0 gen.beat %s\n" % proto.enc("?")])
        v = proto.dec_line(outs[0])[1]
    except Exception:  # noqa: BLE001
        return set()
    return set(v) if isinstance(v, list) else set()


def _gb_case(fn, args, call, tag, nontrivial=True):
    from suites import beat as BS
    return Case("gen.beat", [fn] + list(args), call, tag=tag, nontrivial=nontrivial,
                info={"op": "gen.beat", "fn": fn, "args": BS.jargs(list(args))})


def _gb_prim_cases(rng, tier):
    import itertools
    import numpy as np
    import gen
    from fractions import Fraction as Fr
    halves = [Fr(k, 2) for k in range(-2, 9)]
    for start, stop in itertools.product(halves[::2], halves):
        for step in (Fr(1, 2), Fr(1), Fr(3, 2), Fr(1, 4)):
            yield Case("pybeat.arange", [start, stop, step],
                       lambda a=start, b=stop, c=step: np.arange(float(a), float(b), float(c)), tag="prim arange",
                       info={"op": "pybeat.arange", "args": [str(start), str(stop), str(step)]})
    vals = [Fr(0), Fr(1, 2), Fr(1), Fr(3, 2), Fr(2), Fr(5, 2), Fr(-1), Fr(3), Fr(7, 4)]
    for lx, lp, lf in itertools.product(range(4), range(5), range(5)):
        if lp != lf and rng.random() < 0.5:
            continue
        for _ in range(2 if tier == "quick" else 8):
            xs = [rng.choice(vals) for _ in range(lx)]
            xp = sorted(rng.choice(vals) for _ in range(lp))                 # non-decreasing, duplicates on purpose
            if rng.random() < 0.5:
                xp = [Fr(i) for i in range(lp)]
            fp = [rng.choice(vals) * 3 for _ in range(lf)]
            yield Case("pybeat.interp", [xs, xp, fp],
                       lambda xs=xs, xp=xp, fp=fp: np.interp(gen.arr(xs), gen.arr(xp), gen.arr(fp)),
                       tag="prim interp %s" % ("equal" if lp == lf else "unequal"),
                       info={"op": "pybeat.interp", "args": [[str(v) for v in w] for w in (xs, xp, fp)]})
    for n in range(7):
        a = [Fr(rng.randint(0, 64), 32) for _ in range(n)]
        for k in range(4):
            yield Case("pybeat.step2", [a, k], lambda a=a, k=k: gen.arr(a)[k::2], tag="prim step2",
                       info={"op": "pybeat.step2", "args": [[str(v) for v in a], k]})
    # the p_score primitives
    def P(op, args, call, tag):
        from suites import beat as BS
        return Case("pybeat." + op, args, call, tag="prim " + tag, info={"op": "pybeat." + op, "args": BS.jargs(args)})
    for n in range(4):
        for _ in range(3):
            a = [Fr(rng.randint(-64, 64), 32) for _ in range(n)]
            yield P("vmin", [a], lambda a=a: gen.arr(a).min(), "min/max")
            yield P("vmax", [a], lambda a=a: np.max(gen.arr(a)), "min/max")
    for q in (Fr(100), Fr(5, 2), Fr(-5, 2), Fr(0), Fr(-7), Fr(199, 2), Fr(-1, 32)):
        yield P("truncR", [q], lambda q=q: int(float(q)), "int")
    for n in (-2, -1, 0, 1, 3):
        yield P("zeros", [n], lambda n=n: np.zeros(n), "zeros")
    for n in (0, 1, 3, 5):
        for _ in range(6):
            t = [rng.choice([0, 0, 1]) for _ in range(n)]
            idx = [rng.randint(-n - 1, n) for _ in range(rng.randint(0, 3))]

            def store(t=t, idx=idx):
                w = np.array(t, dtype=float)
                w[np.array(idx, dtype=np.int64)] = 1.0
                return w
            yield P("setOnes", [t, idx], store, "setOnes")
            yield P("flatnonzero", [t], lambda t=t: np.flatnonzero(np.array(t, dtype=float)), "flatnonzero")
            v = [rng.choice([0, 1]) for _ in range(rng.choice([0, 1, 2, 4]))]
            yield P("correlate", [t, v], lambda t=t, v=v: np.correlate(np.array(t, dtype=float), np.array(v, dtype=float), "full"),
                    "correlate")
    for n in range(5):
        for _ in range(4):
            l = [rng.randint(1, 9) for _ in range(n)]
            if n:                                            # np.median([]) = nan (with a RuntimeWarning): via roundMul only
                yield P("median", [l], lambda l=l: float(np.median(np.array(l, dtype=np.int64))), "median")
            for a in (Fr(1, 5), Fr(1, 2), Fr(1, 4), Fr(3, 2), Fr(-1, 2), Fr(0)):
                def rm(a=a, l=l):
                    import warnings
                    with warnings.catch_warnings():
                        warnings.simplefilter("ignore")
                        return int(np.round(float(a) * np.median(np.array(l, dtype=np.int64))))
                yield P("roundMul", [a, l], rm, "int(round(thr * median))")


def suite_gen_beat(rng, tier, shard, nshards):
    avail = _gb_available()
    for c in _suite_gen_beat(rng, tier, shard, nshards):
        if c.op != "gen.beat" or c.args[0] in avail:
            yield c


def _suite_gen_beat(rng, tier, shard, nshards):
    """ALL beat lists of length <= 3 (quick) / 4 over a 4-point lattice (duplicates included) through
    `_get_reference_beat_variations` and `trim_beats` with the threshold on / between / outside the beats; the existing
    beat pre-processing stream re-targeted at the generated definitions; the run-time primitives against NumPy"""
    import itertools
    import mir_eval.beat as B
    from fractions import Fraction as Fr
    from suites import beat as BS
    lat = [Fr(5), Fr(11, 2), Fr(6), Fr(29, 4)]
    k = 0
    for n in range(0, 4 if tier == "quick" else 5):
        for combo in itertools.combinations_with_replacement(lat, n):
            k += 1
            if k % nshards != shard:
                continue
            x = list(combo)
            yield _gb_case("_get_reference_beat_variations", [x],
                           lambda x=x: list(B._get_reference_beat_variations(BS.A(x))), "all n=%d" % n, n > 1)
            for t in (None, Fr(5), Fr(11, 2), Fr(23, 4), Fr(8), Fr(0)):
                call = (lambda x=x: B.trim_beats(BS.A(x))) if t is None else (lambda x=x, t=t: B.trim_beats(BS.A(x), float(t)))
                yield _gb_case("trim_beats", [x, t], call, "all n=%d" % n, n > 0)
            # not sorted (trim_beats does not validate)
            if n >= 2:
                y = x[::-1]
                yield _gb_case("trim_beats", [y, Fr(11, 2)], lambda y=y: B.trim_beats(BS.A(y), 5.5), "unsorted n=%d" % n)
    for c in BS.SUITES["beat.pre"](rng, tier, shard, nshards):
        if c.op in ("beat.trim_beats", "beat._get_reference_beat_variations"):
            fn = c.op.split(".", 1)[1]
            yield Case("gen.beat", [fn] + list(c.args), c.call, tol=c.tol, tag="gen " + c.tag,
                       info=dict(c.info or {}, op="gen.beat", fn=fn), nontrivial=c.nontrivial, post=c.post)
    # p_score: the existing streams (regular / degenerate / loose pairs, every threshold incl. > 1 where the slice start wraps
    # around, 0 and negative ones) asked of the generated definition ...
    for name, real_op in (("beat.p_score", "beat.p_score"), ("beat.p_score_literal", "beat.p_score_literal")):
        for j, c in enumerate(BS.SUITES[name](rng, tier, shard, nshards)):
            if tier == "quick" and j >= 40:
                break                                        # (per shard; the full-correlation model is quadratic in the span)
            if c.op == real_op:
                yield Case("gen.beat", ["p_score"] + list(c.args), c.call, tol=c.tol, tag="gen p_score " + c.tag,
                           info=dict(c.info or {}, op="gen.beat", fn="p_score"), nontrivial=c.nontrivial, post=c.post)
    # ... and ALL pairs of beat lists of length <= 2 (quick) / 3 over a small lattice: empty, one beat, duplicates, all beats
    # in one 10 ms sample, unsorted (ValueError), default threshold (None) and a wrapping one
    plat = [Fr(5), Fr(5) + Fr(1, 128), Fr(11, 2), Fr(13, 2)]
    lists = [list(t) for n in range(0, 3 if tier == "quick" else 4) for t in itertools.product(plat, repeat=n)]
    k = 0
    for r in lists:
        for e in lists:
            k += 1
            if k % nshards != shard:
                continue
            for thr in (None, Fr(3)):
                call = (lambda r=r, e=e: B.p_score(BS.A(r), BS.A(e))) if thr is None else \
                    (lambda r=r, e=e, thr=thr: B.p_score(BS.A(r), BS.A(e), float(thr)))
                yield _gb_case("p_score", [r, e, thr], call, "all pairs n<=%d" % max(len(r), len(e)),
                               len(r) >= 2 and len(e) >= 2)
    if shard == 0:
        for c in _gb_prim_cases(rng, tier):
            yield c


SUITES["gen_beat"] = suite_gen_beat


# ------------------------------------------------------------------------------------------------
# suite gen_alignment: the GENERATED alignment definitions (lean/MirGen/Alignment.lean, driver op `gen.alignment`) vs the real
# functions, and the run-time library's primitives themselves (`pyal.*`) vs NumPy / SciPy on the shapes `alignment.validate`
# never lets through (empty / unequal lengths) — lean/MirModel/PyAl.lean is the translator's semantic assumption

def _ga_available():
    """the functions the translator emitted on THIS run (driver op `gen.alignment "?"`)"""
    import core
    import proto
    try:
        outs = core.run_driver(["0 gen.alignment %s\n" % proto.enc("?")])
        v = proto.dec_line(outs[0])[1]
    except Exception:  # noqa: BLE001
        return set()
    return set(v) if isinstance(v, list) else set()


def _ga_retarget(case):
    fn = case.op.split(".", 1)[1]
    info = dict(case.info or {}, op="gen.alignment", fn=fn)
    return Case("gen.alignment", [fn] + list(case.args), case.call, tol=case.tol, tag="gen " + case.tag, info=info,
                nontrivial=case.nontrivial, post=case.post)


def _ga_prim_cases(rng, tier):
    import itertools
    import warnings
    import numpy as np
    import gen
    from fractions import Fraction as Fr
    from scipy.stats import skewnorm
    reps = 2 if tier == "quick" else 10
    vals = [Fr(0), Fr(1), Fr(1, 2), Fr(-3, 4), Fr(100), Fr(5, 4), Fr(7, 32)]

    def quiet(f):
        def g():
            with warnings.catch_warnings():
                warnings.simplefilter("ignore")
                with np.errstate(all="ignore"):
                    return f()
        return g
    for la in range(7):
        for _ in range(reps):
            a = [rng.choice(vals) for _ in range(la)]
            m = [rng.random() < 0.5 for _ in range(la)]
            A, M = gen.arr(a), np.array(m, dtype=bool)
            info = {"op": "pyal", "a": [str(x) for x in a], "m": m}
            tag = "prim n=%d" % la
            yield Case("pyal.median", [a], quiet(lambda A=A: float(np.median(A))), tag=tag, info=info)
            yield Case("pyal.mean", [a], quiet(lambda A=A: float(np.mean(A))), tag=tag, info=info)
            yield Case("pyal.meanMask", [m], quiet(lambda M=M: float(np.mean(M))), tag=tag, info=info)
            yield Case("pyal.max", [a], lambda A=A: float(np.max(A)), tag=tag, info=info)
            yield Case("pyal.dropLast", [a], lambda A=A: A[:-1], tag=tag, info=info)
            yield Case("pyal.drop1", [a], lambda A=A: A[1:], tag=tag, info=info)
            for i in range(-la - 1, la + 1):
                yield Case("pyal.getIdx", [a, i], lambda A=A, i=i: float(A[i]), tag=tag, info=dict(info, i=i))
    for la, lb in itertools.product(range(4), repeat=2):
        for _ in range(reps):
            a = [rng.choice(vals) for _ in range(la)]
            b = [rng.choice(vals) for _ in range(lb)]
            A, B = gen.arr(a), gen.arr(b)
            tag = "prim lengths %s" % ("equal" if la == lb else "one" if 1 in (la, lb) else "unequal")
            info = {"op": "pyal", "a": [str(x) for x in a], "b": [str(x) for x in b]}
            yield Case("pyal.vmax", [a, b], lambda A=A, B=B: np.maximum(A, B), tag=tag, info=info)
            yield Case("pyal.vmin", [a, b], lambda A=A, B=B: np.minimum(A, B), tag=tag, info=info)
    for _ in range(40 if tier == "quick" else 400):
        x = Fr(rng.randint(-6 * 64, 6 * 64), 64)
        a = rng.choice([Fr(0), Fr(112244251, 100000000), Fr(-2), Fr(3)])
        loc = rng.choice([Fr(0), Fr(-22270315, 100000000), Fr(1, 2)])
        sc = rng.choice([Fr(1), Fr(29779424, 100000000), Fr(2)])
        yield Case("pyal.skewnormPdf", [x, a, loc, sc],
                   lambda x=x, a=a, loc=loc, sc=sc: float(skewnorm.pdf(float(x), float(a), loc=float(loc), scale=float(sc))),
                   tol=1e-9, tag="prim skewnorm.pdf", info={"op": "pyal.skewnormPdf", "x": str(x), "a": str(a),
                                                            "loc": str(loc), "scale": str(sc)})


def suite_gen_alignment(rng, tier, shard, nshards):
    """the existing alignment streams (E lattice with offsets on / next to the window, D decimals, X faults: empty, unequal
    sizes, decreasing, negative, bad durations, identical reference; evaluate with / without window / duration; the
    perceptual sweep) asked of the GENERATED definitions, and the run-time primitives against NumPy / SciPy"""
    from suites import alignment as AS
    avail = _ga_available()
    for name, cap in (("alignment.metrics", 1500), ("alignment.evaluate", 200), ("alignment.perceptual_sweep", 100)):
        for j, c in enumerate(AS.SUITES[name](rng, tier, shard, nshards)):
            if tier == "quick" and j >= cap:
                break
            if c.op == "alignment.validate":
                continue                                  # the `validators` part's definition: suite gen_validators (C14)
            if c.op.split(".", 1)[1] in avail:
                yield _ga_retarget(c)
    # the corner the streams above do not reach: all timestamps 0, where `duration <= 0` is the ONLY guard between
    # `duration = 0` and 0/0 (any positive timestamp already exceeds a non-positive duration) — asked of the hand model AND of
    # the generated definition
    from fractions import Fraction as _F
    for n in (1, 2, 3):
        z = [_F(0)] * n
        for d in (_F(0), _F(-1), _F(1, 32), None):
            c = AS.case("alignment.percentage_correct_segments", [z, list(z), d], "X all-zero timestamps duration=%s" % d,
                        nontrivial=False)
            if "percentage_correct_segments" in avail:
                yield _ga_retarget(c)
    for c in _ga_prim_cases(rng, tier):
        yield c


SUITES["gen_alignment"] = suite_gen_alignment


def suite_alignment_zero_corner(rng, tier, shard, nshards):
    """HAND MODEL vs the real `percentage_correct_segments` where all timestamps are 0 (see suite_gen_alignment): not a gen_*
    suite, so a disagreement here is a failing input of C04"""
    from fractions import Fraction as _F
    from suites import alignment as AS
    for n in (1, 2, 3):
        z = [_F(0)] * n
        for d in (_F(0), _F(-1), _F(1, 32), None):
            yield AS.case("alignment.percentage_correct_segments", [z, list(z), d],
                          "X all-zero timestamps duration=%s" % d, nontrivial=False)


SUITES["alignment.zero_corner"] = suite_alignment_zero_corner


def suite_gen_evalglue(rng, tier, shard, nshards):
    """the existing `onset.evaluate` / `tempo.evaluate` streams (window / tol given or defaulted, faults) asked of the GENERATED
    glue (lean/MirGen/EvalGlue.lean, driver op `gen.evalglue`)"""
    import core
    import proto
    from suites import onset as OS, tempo as TS
    try:
        outs = core.run_driver(["0 gen.evalglue %s\n" % proto.enc("?")])
        avail = proto.dec_line(outs[0])[1]
        avail = set(avail) if isinstance(avail, list) else set()
    except Exception:  # noqa: BLE001
        avail = set()
    for gen_suite in (OS.SUITES["onset.evaluate"], TS.SUITES["tempo.evaluate"]):
        for j, c in enumerate(gen_suite(rng, tier, shard, nshards)):
            if tier == "quick" and j >= 400:
                break
            if c.op in avail:
                info = dict(c.info or {}, op="gen.evalglue", fn=c.op)
                yield Case("gen.evalglue", [c.op] + list(c.args), c.call, tol=c.tol, tag="gen " + c.tag, info=info,
                           nontrivial=c.nontrivial, post=c.post)


SUITES["gen_evalglue"] = suite_gen_evalglue

CHECKERS = {"documented_defaults": check_defaults}
ORACLES = {"documented_defaults": gen_defaults}
from props import _relational  # noqa: E402
_xc, _xo = _relational.extra(PID)
CHECKERS.update(_xc)
ORACLES.update(_xo)
