"""C04 — event, frame and note metrics equal their published definitions.

The Lean model *is* the executable definition (with `algorithm = definition` theorems where the code uses a
cleverer algorithm); the property is decided by the value correspondence on exact-lattice / margin inputs, so a
disagreement is itself the failing input (after the streams have excluded threshold-rounding cases by construction).
"""
import glob
import inspect
import os

import mir_eval

import suites as SU

PID = "C04"
# mir_eval.key is also REGENERATED from the source (translate/scalars.py); Props/C04_KeyGen.lean proves the generated
# definitions equal to the hand-written key model
TRANSLATOR_PARTS = ["scalars_key", "defaults"]   # defaults: Props/C04_Defaults.lean (documented defaults, decide)
# the event-metric glue (util._fast_hit_windows, util.match_events, onset / beat f_measure, segment.detection / deviation)
# is REGENERATED too (translate/evglue.py -> MirGen/EvGlue.lean); Props/C04_GenGlue.lean proves it equal to the hand models
TRANSLATOR_PARTS += ["evglue"]
# ... and the transcription P / R / F functions (translate/trmatch.py -> MirGen/TrMatch.lean; Props/C04_GenTr.lean)
TRANSLATOR_PARTS += ["trmatch"]
# mir_eval.melody's frame metrics, validation, freq_to_voicing and constant_hop_timebase are REGENERATED from the source
# (translate/melody.py -> lean/MirGen/Melody.lean); Props/C04_GenMelody.lean proves the generated definitions equal to the
# hand-written melody model for all inputs; suite `gen_melody` runs them (driver op `gen.melody`) against the real functions
TRANSLATOR_PARTS += ["melody"]
# transcription.average_overlap_ratio and transcription_velocity.match_notes / precision_recall_f1_overlap are REGENERATED
# (translate/trvel.py -> lean/MirGen/TrVel.lean); Props/C04_GenTrVel.lean proves them equal to the hand model; suite gen_trvel
TRANSLATOR_PARTS += ["trvel"]
_here = os.path.dirname(os.path.abspath(__file__))
_props = os.path.join(os.path.dirname(os.path.dirname(_here)), "lean", "MirProofs", "Props")
LEAN_MODULES = sorted("MirProofs.Props." + os.path.basename(f)[:-5]
                      for f in glob.glob(os.path.join(_props, "C04*.lean")))
RULE = ("every modelled metric function on stream E (exact 1/32 s lattice with deliberate threshold coincidences, "
        "empty / single / duplicated inputs, all documented parameter values) and stream D (margins) where pitch "
        "matters; key pairs and tempo-hit lattices exhaustively; documented defaults pinned; non-trivial = both "
        "sides non-empty")
ASSUMPTIONS = ["exp/log/erf/lgamma of Lean Float vs NumPy/SciPy agree to 1e-9 (both libm-class)",
               "log2 on pitches is exercised through the harness conversion only"]
UNPROVED = []
CORRESPONDENCE_IS_PROPERTY = True
SUITES, _cl = SU.load_all()
from suites import fixtures as _FX  # noqa: E402
RULE += "; " + _FX.RULE_NOTE

# documented defaults (from the docstrings) are pinned: a changed default is a C04 matter
DOCUMENTED_DEFAULTS = {
    ("beat", "trim_beats"): {"min_beat_time": 5.0},
    ("beat", "f_measure"): {"f_measure_threshold": 0.07},
    ("beat", "cemgil"): {"cemgil_sigma": 0.04},
    ("beat", "goto"): {"goto_threshold": 0.35, "goto_mu": 0.2, "goto_sigma": 0.2},
    ("beat", "p_score"): {"p_score_threshold": 0.2},
    ("beat", "continuity"): {"continuity_phase_threshold": 0.175, "continuity_period_threshold": 0.175},
    ("beat", "information_gain"): {"bins": 41},
    ("onset", "f_measure"): {"window": 0.05},
    ("segment", "detection"): {"window": 0.5, "beta": 1.0, "trim": False},
    ("segment", "deviation"): {"trim": False},
    ("melody", "raw_pitch_accuracy"): {"cent_tolerance": 50},
    ("melody", "raw_chroma_accuracy"): {"cent_tolerance": 50},
    ("melody", "overall_accuracy"): {"cent_tolerance": 50},
    ("multipitch", "compute_num_true_positives"): {"window": 0.5, "chroma": False},
    ("transcription", "match_notes"): {"onset_tolerance": 0.05, "pitch_tolerance": 50.0, "offset_ratio": 0.2,
                                       "offset_min_tolerance": 0.05, "strict": False},
    ("transcription", "precision_recall_f1_overlap"): {"onset_tolerance": 0.05, "pitch_tolerance": 50.0,
                                                       "offset_ratio": 0.2, "offset_min_tolerance": 0.05,
                                                       "strict": False, "beta": 1.0},
    ("transcription", "onset_precision_recall_f1"): {"onset_tolerance": 0.05, "strict": False, "beta": 1.0},
    ("transcription", "offset_precision_recall_f1"): {"offset_ratio": 0.2, "offset_min_tolerance": 0.05,
                                                      "strict": False, "beta": 1.0},
    ("transcription_velocity", "match_notes"): {"velocity_tolerance": 0.1},
    ("tempo", "detection"): {"tol": 0.08},
    ("alignment", "percentage_correct"): {"window": 0.3},
    ("pattern", "standard_FPR"): {"tol": 1e-5},
    ("pattern", "establishment_FPR"): {"similarity_metric": "cardinality_score"},
    ("pattern", "occurrence_FPR"): {"thres": 0.75, "similarity_metric": "cardinality_score"},
    ("pattern", "three_layer_FPR"): {},
    ("pattern", "first_n_three_layer_P"): {"n": 5},
    ("pattern", "first_n_target_proportion_R"): {"n": 5},
}


def check_defaults(inp):
    mod, fn = inp["module"], inp["function"]
    f = getattr(getattr(mir_eval, mod), fn)
    sig = inspect.signature(f)
    for k, v in DOCUMENTED_DEFAULTS[(mod, fn)].items():
        if k not in sig.parameters:
            return "%s.%s has no parameter %r (documented default %r)" % (mod, fn, k, v)
        d = sig.parameters[k].default
        if d != v or type(d) is bool and type(v) is not bool:
            return "%s.%s default %s=%r differs from the documented %r" % (mod, fn, k, d, v)
    return None


def gen_defaults(rng, tier, shard, nshards, boost):
    for i, (mod, fn) in enumerate(sorted(DOCUMENTED_DEFAULTS)):
        if i % nshards == shard:
            yield {"module": mod, "function": fn}


def suite_gen_key(rng, tier, shard, nshards):
    """mir_eval.key as REGENERATED from the source (driver op `gen.scalar`, lean/MirGen/Scalars.lean) vs the real
    functions: key pairs (quick: a sample + every related pair class; thorough: all ordered pairs), malformed keys"""
    import chordlabels as cl
    from props import c09
    keys = cl.all_keys()
    pairs = []
    if tier == "thorough":
        pairs = [(r, e) for r in keys for e in keys]
    else:
        for _ in range(1500):
            pairs.append((keys[rng.randrange(len(keys))], keys[rng.randrange(len(keys))]))
    bad = c09.KEY_STRINGS_BAD
    for b in bad:
        pairs.append((b, keys[rng.randrange(len(keys))]))
        pairs.append((keys[rng.randrange(len(keys))], b))
    for i, (r, e) in enumerate(pairs):
        if i % nshards != shard:
            continue
        yield Case("gen.scalar", ["key.weighted_score", r, e], lambda r=r, e=e: mir_eval.key.weighted_score(r, e),
                   tag="gen weighted_score", info={"ref": r, "est": e})
    singles = list(bad) + [keys[rng.randrange(len(keys))] for _ in range(40)] + ["X", "x"]
    for i, k in enumerate(singles):
        if i % nshards != shard:
            continue
        yield Case("gen.scalar", ["key.validate_key", k], lambda k=k: mir_eval.key.validate_key(k),
                   tag="gen validate_key", info={"key": k})
        yield Case("gen.scalar", ["key.split_key_string", k], lambda k=k: mir_eval.key.split_key_string(k),
                   tag="gen split_key_string", info={"key": k})
        yield Case("gen.scalar", ["key.validate", k, "C major"], lambda k=k: mir_eval.key.validate(k, "C major"),
                   tag="gen validate", info={"key": k})


from core import Case  # noqa: E402
SUITES["gen_scalar.key"] = suite_gen_key

# ----------------------------------------------------------------------------------------
# the event-metric glue as REGENERATED from the source (driver op `gen.evglue`, lean/MirGen/EvGlue.lean) vs the real
# functions: exercises the translator's semantic assumptions of lean/MirModel/PyEvGlue.lean (argsort + searchsorted windows,
# slices, the hit dict in insertion order + Hopcroft-Karp, Python float division, b[1:-1], outer differences / medians)
import numpy as _np  # noqa: E402
from fractions import Fraction as _Fr  # noqa: E402


def _retarget_glue(case, fn):
    info = dict(case.info or {}, op="gen.evglue", fn=fn) if isinstance(case.info, dict) else {"op": "gen.evglue", "fn": fn,
                                                                                            "orig": case.info}
    return Case("gen.evglue", [fn] + list(case.args), case.call, tol=case.tol, tag="gen " + (case.tag or fn), info=info,
                nontrivial=case.nontrivial, post=case.post)


def suite_gen_evglue(rng, tier, shard, nshards):
    """the translated definitions vs the real functions: util._fast_hit_windows (hit pairs compared as sets),
    util.match_events (pairs; sizes only when the reference holds equal values, whose argsort order NumPy leaves open) on
    unsorted / duplicated / empty event lists with pairs exactly at the window; onset.f_measure, beat.f_measure,
    segment.detection, segment.deviation on the existing onset / beat / boundary streams."""
    import evglue_cases
    for c in evglue_cases.util_cases(rng, tier):
        yield c
    import mir_eval.tempo as _T
    for _ in range(120 if tier == "quick" else 2000):
        rt = [_Fr(rng.choice([0, 0, 60, 90, 120, 121, -1]), 1) for _ in range(rng.choice([2, 2, 2, 2, 1, 3, 0]))]
        et = [_Fr(rng.choice([0, 60, 64, 90, 120, 180, -5]), 1) for _ in range(rng.choice([2, 2, 2, 2, 1, 3]))]
        wt = rng.choice([_Fr(0), _Fr(1, 4), _Fr(1, 2), _Fr(1), _Fr(5, 4), _Fr(-1, 8)])
        yield Case("gen.evglue", ["tempo.validate", rt, wt, et],
                   lambda rt=rt, wt=wt, et=et: _T.validate(_np.array([float(x) for x in rt]), float(wt),
                                                           _np.array([float(x) for x in et])),
                   tag="gen tempo.validate", info={"op": "gen.evglue", "fn": "tempo.validate", "ref": [str(x) for x in rt],
                                                   "weight": str(wt), "est": [str(x) for x in et]})
        tol = rng.choice([_Fr(2, 25), _Fr(0), _Fr(1, 2), _Fr(1), _Fr(3, 2), _Fr(-1, 10), _Fr(1, 15)])
        yield Case("gen.evglue", ["tempo.detection", rt, wt, et, tol],
                   lambda rt=rt, wt=wt, et=et, tol=tol: list(_T.detection(_np.array([float(x) for x in rt]), float(wt),
                                                                       _np.array([float(x) for x in et]), float(tol))),
                   tag="gen tempo.detection faults", info={"op": "gen.evglue", "fn": "tempo.detection",
                                                          "ref": [str(x) for x in rt], "weight": str(wt),
                                                          "est": [str(x) for x in et], "tol": str(tol)})
    lim = 200 if tier == "quick" else None
    for key, fn in (("onset.onset.f_measure", "onset.f_measure"), ("onset.onset.exhaustive", "onset.f_measure"),
                    ("beat.beat.f_measure", "beat.f_measure"), ("boundary.segment.detection", "segment.detection"),
                    ("boundary.segment.deviation", "segment.deviation"), ("fixtures.onset", "onset.f_measure"),
                    ("fixtures.beat", "beat.f_measure"), ("fixtures.segment_boundary", None),
                    ("tempo.tempo.detection", "tempo.detection"), ("tempo.tempo.exhaustive", "tempo.detection"),
                    ("fixtures.tempo", "tempo.detection")):
        if key not in SUITES:
            continue
        for k, c in enumerate(SUITES[key](rng, tier, shard, nshards)):
            if lim is not None and k >= lim:
                break
            f = fn or c.op
            if c.op == f and f in ("onset.f_measure", "beat.f_measure", "segment.detection", "segment.deviation",
                                   "tempo.detection", "tempo.validate"):
                yield _retarget_glue(c, f)


SUITES["gen_evglue"] = suite_gen_evglue


def suite_gen_trmatch_prf(rng, tier, shard, nshards):
    import evglue_cases
    for c in evglue_cases.trmatch_cases(rng, tier, shard, nshards, only=("onset_precision_recall_f1",
                                                                        "offset_precision_recall_f1",
                                                                        "precision_recall_f1_overlap")):
        yield c


SUITES["gen_trmatch.prf"] = suite_gen_trmatch_prf


# ------------------------------------------------------------------------------------------------
# suite gen_melody: the GENERATED melody definitions (lean/MirGen/Melody.lean, driver op `gen.melody`) vs the real
# functions, and the run-time library's primitives themselves (`pymel.*`) vs NumPy on the shapes the validating
# functions never let through — lean/MirModel/PyMel.lean is the translator's semantic assumption

def _gm_available():
    """the functions the translator emitted on THIS run (driver op `gen.melody "?"`): cases are generated for those only — a
    function that left the subset is reported as a translator problem / broken theorems, never as a disagreeing input"""
    import core
    import proto
    try:
        outs = core.run_driver(["0 gen.melody %s\n" % proto.enc("?")])
        v = proto.dec_line(outs[0])[1]
    except Exception:  # noqa: BLE001
        return set()
    return set(v) if isinstance(v, list) else set()


def _gm_retarget(case, extra=()):
    """a case of a hand-model melody suite asked of the generated definition instead"""
    fn = case.op.split(".", 1)[1]
    info = dict(case.info or {}, op="gen.melody", fn=fn)
    return Case("gen.melody", [fn] + list(case.args) + list(extra), case.call, tol=case.tol, tag="gen " + case.tag,
                info=info, nontrivial=case.nontrivial, post=case.post)


def _gm_frame_cases(rv, rc, ev, ec, tol, tag):
    import gen
    import proto
    from mir_eval import melody as M
    info = {k: proto.jsonable(v) for k, v in dict(rv=rv, rc=rc, ev=ev, ec=ec, tol=tol).items()}
    a = (rv, rc, ev, ec)
    nontrivial = bool(rv) and any(v > 0 for v in rv)
    for fn, f in (("raw_pitch_accuracy", M.raw_pitch_accuracy), ("raw_chroma_accuracy", M.raw_chroma_accuracy),
                  ("overall_accuracy", M.overall_accuracy)):
        yield Case("gen.melody", [fn, rv, rc, ev, ec, tol],
                   lambda f=f, a=a, tol=tol: f(*[gen.arr(x) for x in a], cent_tolerance=float(tol)),
                   tag=tag, nontrivial=nontrivial, info=dict(info, op="gen.melody", fn=fn))


def _gm_voicing_cases(rv, ev, tag):
    import gen
    import proto
    from mir_eval import melody as M
    info = {k: proto.jsonable(v) for k, v in dict(rv=rv, ev=ev).items()}
    for fn, f in (("voicing_recall", M.voicing_recall), ("voicing_false_alarm", M.voicing_false_alarm),
                  ("voicing_measures", M.voicing_measures), ("validate_voicing", M.validate_voicing)):
        yield Case("gen.melody", [fn, rv, ev], lambda f=f, rv=rv, ev=ev: f(gen.arr(rv), gen.arr(ev)),
                   tag=tag, nontrivial=any(v > 0 for v in rv), info=dict(info, op="gen.melody", fn=fn))


def _gm_prim_cases(rng, tier):
    """the primitives of lean/MirModel/PyMel.lean against NumPy: every combination of lengths 0..3 (broadcasting of a
    length-1 operand, also against length 0; ValueError / IndexError otherwise; the empty boolean mask)"""
    import itertools
    import numpy as np
    import gen
    from fractions import Fraction as Fr
    reps = 1 if tier == "quick" else 6
    vals = [Fr(0), Fr(1), Fr(1, 2), Fr(-3, 4), Fr(100), Fr(5, 4)]
    for la, lb in itertools.product(range(4), repeat=2):
        for _ in range(reps):
            a = [rng.choice(vals) for _ in range(la)]
            b = [rng.choice(vals) for _ in range(lb)]
            ma = [rng.random() < 0.5 for _ in range(la)]
            mb = [rng.random() < 0.5 for _ in range(lb)]
            tag = "prim lengths %s" % ("equal" if la == lb else "one" if 1 in (la, lb) else "unequal")
            info = {"op": "pymel", "a": [str(x) for x in a], "b": [str(x) for x in b], "ma": ma, "mb": mb}
            A, B = gen.arr(a), gen.arr(b)
            MA, MB = np.array(ma, dtype=bool), np.array(mb, dtype=bool)
            yield Case("pymel.vsub", [a, b], lambda A=A, B=B: A - B, tag=tag, info=info)
            yield Case("pymel.vadd", [a, b], lambda A=A, B=B: A + B, tag=tag, info=info)
            yield Case("pymel.vmul", [a, b], lambda A=A, B=B: A * B, tag=tag, info=info)
            yield Case("pymel.vmulMask", [a, mb], lambda A=A, MB=MB: A * MB, tag=tag, info=info)
            yield Case("pymel.logicalAnd", [ma, mb], lambda MA=MA, MB=MB: np.logical_and(MA, MB), tag=tag, info=info)
            yield Case("pymel.logicalOr", [ma, mb], lambda MA=MA, MB=MB: np.logical_or(MA, MB), tag=tag, info=info)
            yield Case("pymel.getMask", [a, mb], lambda A=A, MB=MB: A[MB], tag=tag, info=info)

            def assign(A=A, MB=MB):
                w = np.array(A, dtype=float)
                w[MB] = 7
                return w
            yield Case("pymel.maskAssign", [a, mb, Fr(7)], assign, tag=tag, info=info)
            yield Case("pymel.countTrue", [mb], lambda MB=MB: int(sum(MB)), tag=tag, info=info)
    for num in (-2, -1, 0, 1, 2, 3, 5):
        for stop in (Fr(0), Fr(3, 4), Fr(-1), Fr(5, 2)):
            yield Case("pymel.linspace", [Fr(0), stop, num], lambda stop=stop, num=num: np.linspace(0, float(stop), num),
                       tag="prim linspace", info={"op": "pymel.linspace", "stop": str(stop), "num": num})
    special = ["nan", "inf", "-inf", Fr(0), Fr(3, 2), Fr(-2)]

    def f64(x):
        return np.float64(float(x)) if not isinstance(x, str) else np.float64(x)
    for op, fn in (("add", lambda x, y: x + y), ("sub", lambda x, y: x - y), ("mul", lambda x, y: x * y),
                   ("div", lambda x, y: x / y)):
        for x in special:
            for y in special:
                def call(fn=fn, x=x, y=y):
                    with np.errstate(all="ignore"):
                        return float(fn(f64(x), f64(y)))
                yield Case("pymel.arith", [op, x, y], call, tag="prim arith",
                           info={"op": "pymel.arith", "fn": op, "x": str(x), "y": str(y)})


def suite_gen_melody(rng, tier, shard, nshards):
    avail = _gm_available()
    for c in _suite_gen_melody(rng, tier, shard, nshards):
        if c.op != "gen.melody" or c.args[0] in avail:
            yield c


def _suite_gen_melody(rng, tier, shard, nshards):
    """frame metrics: ALL frame sequences up to length 1 (quick: 2 with a reduced alphabet) over voicings {0, 1/2, 1} and
    cent pairs on / next to / an octave from the tolerance, every combination of lengths 0..3 for the unvalidated voicing
    rates (broadcasting), the existing melody streams (frame measures, voicing measures, chroma folding, constant-hop
    time base, freq_to_voicing, evaluate on the E and D streams) re-targeted at the generated definitions, and the run-time primitives against NumPy"""
    import itertools
    from fractions import Fraction as Fr
    from suites import melody as MS
    voic = [Fr(0), Fr(1, 2), Fr(1)]
    pairs = [(Fr(0), Fr(0)), (Fr(0), Fr(3000)), (Fr(3000), Fr(0)), (Fr(3000), Fr(3040)), (Fr(3000), Fr(3050)),
             (Fr(3000), Fr(4210)), (Fr(3000), Fr(1750))]
    frames = [(v, r, w, e) for v in voic for (r, e) in pairs for w in voic]
    small = [f for f in frames if f[0] != Fr(1, 2) or f[2] != Fr(1, 2)] if tier == "quick" else frames
    seqs = [()] + [(f,) for f in frames]
    seqs += [(f, g) for f in small[::2] for g in small[1::3]] if tier == "quick" else [(f, g) for f in frames for g in frames]
    k = 0
    for seq in seqs:
        rv, rc, ev, ec = ([f[i] for f in seq] for i in range(4))
        for tol in (Fr(50),):
            k += 1
            if k % nshards != shard:
                continue
            for c in _gm_frame_cases(rv, rc, ev, ec, tol, "all n=%d" % len(seq)):
                yield c
            if len(seq) <= 1 or (rc[0] == 0 and ec[0] == 0):
                for c in _gm_voicing_cases(rv, ev, "all n=%d" % len(seq)):
                    yield c
    # the unvalidated voicing rates on every combination of lengths (each shard draws its own values)
    for la, lb in itertools.product(range(4), repeat=2):
        for _ in range(2 if tier == "quick" else 10):
            rv = [rng.choice(voic + [Fr(0)]) for _ in range(la)]
            ev = [rng.choice(voic) for _ in range(lb)]
            for c in _gm_voicing_cases(rv, ev, "lengths %s" % ("equal" if la == lb else "unequal")):
                yield c
    for c in _gm_prim_cases(rng, tier):
        yield c
    # the existing melody streams asked of the generated definitions
    for name, cap in (("melody.frame_measures", 200), ("melody.voicing_measures", 200), ("melody.chroma_dist", 100),
                      ("melody.constant_hop_timebase", 150), ("melody.hz_conversions", 150), ("melody.evaluate", 150)):
        for j, c in enumerate(MS.SUITES[name](rng, tier, shard, nshards)):
            if tier == "quick" and j >= cap:
                break
            if c.op in ("melody.hz2cents",):
                continue                                     # not translated (log2): stays a hand-model suite
            yield _gm_retarget(c)


SUITES["gen_melody"] = suite_gen_melody


# ------------------------------------------------------------------------------------------------
# suite gen_trvel: the GENERATED average_overlap_ratio / velocity-aware definitions (lean/MirGen/TrVel.lean, driver op
# `gen.trvel`) vs the real functions, and the run-time primitives (`pytv.*`, lean/MirModel/PyTrVel.lean) vs NumPy

def _tv_available():
    import core
    import proto
    try:
        outs = core.run_driver(["0 gen.trvel %s\n" % proto.enc("?")])
        v = proto.dec_line(outs[0])[1]
    except Exception:  # noqa: BLE001
        return set()
    return set(v) if isinstance(v, list) else set()


def _tv_prim_cases(rng, tier):
    import numpy as np
    Fr = _Fr
    vals = [Fr(0), Fr(1), Fr(1, 2), Fr(-3, 4), Fr(100), Fr(5, 4), Fr(64), Fr(127)]

    def arr(x):
        return np.array([float(v) for v in x], dtype=float)
    for _ in range(40 if tier == "quick" else 600):
        n = rng.choice([0, 1, 1, 2, 3, 5])
        a = [rng.choice(vals) for _ in range(n)]
        b = [rng.choice(vals) for _ in range(rng.choice([n, n, n, 0, 1, n + 1]))]
        c = rng.choice(vals)
        cn = rng.choice([v for v in vals if v != 0])
        info = {"op": "pytv", "a": [str(x) for x in a], "b": [str(x) for x in b], "c": str(c)}
        tag = "prim n=%d" % min(n, 2)
        yield Case("pytv.amin", [a], lambda a=a: np.min(arr(a)), tag=tag, info=info)
        yield Case("pytv.amax", [a], lambda a=a: np.max(arr(a)), tag=tag, info=info)
        yield Case("pytv.max2", [c, cn], lambda c=c, cn=cn: max(float(c), np.float64(float(cn))), tag=tag, info=info)
        yield Case("pytv.min2", [c, cn], lambda c=c, cn=cn: min(np.float64(float(c)), np.float64(float(cn))), tag=tag, info=info)
        yield Case("pytv.max2", [Fr(1), c], lambda c=c: max(1, np.float64(float(c))), tag=tag, info=info)
        yield Case("pytv.subVS", [a, c], lambda a=a, c=c: arr(a) - float(c), tag=tag, info=info)
        yield Case("pytv.addVS", [a, c], lambda a=a, c=c: arr(a) + float(c), tag=tag, info=info)
        yield Case("pytv.divVS", [a, cn], lambda a=a, cn=cn: arr(a) / float(cn), tag=tag, info=info)
        if len(b) == len(a) or (len(a) > 1 and len(b) > 1) or (len(b) == 0) != (len(a) == 0) and 1 not in (len(a), len(b)):
            yield Case("pytv.subVV", [a, b], lambda a=a, b=b: arr(a) - arr(b), tag=tag + (" eq" if len(a) == len(b) else " ne"), info=info)
        yield Case("pytv.absV", [a], lambda a=a: np.abs(arr(a)), tag=tag, info=info)
        yield Case("pytv.ltVS", [a, c], lambda a=a, c=c: arr(a) < float(c), tag=tag, info=info)
        yield Case("pytv.leVS", [a, c], lambda a=a, c=c: arr(a) <= float(c), tag=tag, info=info)
        k = rng.choice([0, 1, 2, 4])
        m = [[rng.randrange(4), rng.randrange(4)] for _ in range(k)]
        mt = [tuple(x) for x in m]
        yield Case("pytv.pairsSize", [m], lambda mt=mt: int(np.array(mt).size), tag=tag, info=dict(info, m=m))
        yield Case("pytv.pcol0", [m], lambda mt=mt: [int(x) for x in np.array(mt)[:, 0]], tag=tag, info=dict(info, m=m))
        yield Case("pytv.pcol1", [m], lambda mt=mt: [int(x) for x in np.array(mt)[:, 1]], tag=tag, info=dict(info, m=m))
        if k:
            idx = [x[0] for x in m]
            yield Case("pytv.take", [a, idx], lambda a=a, idx=idx: arr(a)[np.array(idx)], tag=tag, info=dict(info, idx=idx))
            mask = [rng.random() < 0.5 for _ in range(rng.choice([k, k, k, k + 1, max(k - 1, 0)]))]
            yield Case("pytv.maskPairs", [m, mask],
                       lambda mt=mt, mask=mask: [[int(x), int(y)] for x, y in np.array(mt)[np.array(mask, dtype=bool)]],
                       tag=tag + (" eq" if len(mask) == k else " ne"), info=dict(info, m=m, mask=mask))
        iv = [[Fr(i), Fr(i) + Fr(1, 2)] for i in range(n)]
        i = rng.randrange(n + 2)
        yield Case("pytv.row", [iv, i], lambda iv=iv, i=i: np.array([[float(x) for x in r] for r in iv]).reshape(-1, 2)[i],
                   tag=tag, info=dict(info, i=i))
        if n:
            yield Case("pytv.mean", [a], lambda a=a: np.mean([np.float64(float(x)) for x in a]), tag=tag, info=info, tol=1e-9)
            ys = [Fr(rng.randint(0, 64), 64) for _ in range(n)]
            xs = [Fr(int(x)) for x in a] if rng.random() < 0.7 else [Fr(int(a[0]))] * n

            def lst(xs=xs, ys=ys):
                A = np.vstack([arr(xs), np.ones(len(xs))]).T
                return np.linalg.lstsq(A, arr(ys), rcond=None)[0]
            yield Case("pytv.lstsqLine", [xs, ys], lst, tol=1e-7, tag="prim lstsq rank=%d" % (1 if len(set(xs)) == 1 else 2),
                       info={"op": "pytv.lstsqLine", "xs": [str(x) for x in xs], "ys": [str(y) for y in ys]})


def suite_gen_trvel(rng, tier, shard, nshards):
    """the translated definitions vs the real functions: average_overlap_ratio on arbitrary index pairs (IndexError, empty),
    transcription_velocity.match_notes / precision_recall_f1_overlap on the velocity stream (constant velocities, range 0 / 1,
    tolerance coincidences excluded by the margin rule) and on faulty inputs; the primitives of PyTrVel.lean vs NumPy.
    Only functions translated on THIS run are asked for (`gen.trvel "?"`)."""
    from suites import transcription as TRS
    avail = _tv_available()

    def retarget(c):
        fn = c.op
        info = dict(c.info, op="gen.trvel", fn=fn) if isinstance(c.info, dict) else {"op": "gen.trvel", "fn": fn}
        return Case("gen.trvel", [fn] + list(c.args), c.call, tol=c.tol, tag="gen " + (c.tag or fn), info=info,
                    nontrivial=c.nontrivial, post=c.post)
    ops = ("transcription.average_overlap_ratio", "transcription_velocity.match_notes",
           "transcription_velocity.precision_recall_f1_overlap", "transcription.evaluate", "transcription_velocity.evaluate")
    # evaluate() with keywords left out (= the callees' defaults) and with offset_ratio=None alone
    import mir_eval.transcription as _T
    import mir_eval.transcription_velocity as _TV
    import numpy as np
    # (first a crafted pair whose offsets differ by 7/32 of the reference duration: a hit for any offset_ratio default
    # >= 0.21875 only; the hand model with the DOCUMENTED defaults is asked as well, so that a changed default is an input)
    crafted = (32, dict(TRS.DEFAULTS), [[_Fr(0), _Fr(1), _Fr(60)]], [[_Fr(0), _Fr(39, 32), _Fr(60)]])
    for it in range(60 if tier == "quick" else 600):
        lat, p, ref, est = crafted if it == 0 else TRS.instance(rng)
        ri, rp, ei, ep = TRS.m_ivals(ref), TRS.m_pitches(ref), TRS.m_ivals(est), TRS.m_pitches(est)
        for none_ratio in (False, True):
            kw = {"offset_ratio": None} if none_ratio else {}
            kws = ["absent", "absent", None if none_ratio else "absent", "absent", "absent"]
            inf = dict(TRS.info(lat, p, ref, est), op="gen.trvel", fn="transcription.evaluate", kwargs=sorted(kw))
            if "transcription.evaluate" in avail:
                yield Case("gen.trvel", ["transcription.evaluate", ri, rp, ei, ep] + kws + ["absent"],
                           lambda ref=ref, est=est, kw=kw: _T.evaluate(TRS.ivals(ref), TRS.pitches(ref), TRS.ivals(est),
                                                                       TRS.pitches(est), **kw),
                           tag="gen evaluate keywords absent", info=inf, nontrivial=bool(ref and est))
            if "transcription_velocity.evaluate" in avail:
                # constant velocities on both sides: the normalised reference velocities and the (rank-deficient) fit are
                # exactly 0, so every matched pair passes the default tolerance by a margin of 0.1 — no margin rule needed
                rv = [_Fr(64)] * len(ref)
                ev = [_Fr(64)] * len(est)
                yield Case("gen.trvel", ["transcription_velocity.evaluate", ri, rp, rv, ei, ep, ev] + kws + ["absent", "absent"],
                           lambda ref=ref, est=est, rv=rv, ev=ev, kw=kw: _TV.evaluate(
                               TRS.ivals(ref), TRS.pitches(ref), TRS.farr(rv), TRS.ivals(est), TRS.pitches(est), TRS.farr(ev), **kw),
                           tag="gen velocity evaluate keywords absent", info=dict(inf, fn="transcription_velocity.evaluate"))
            dflt = dict(TRS.DEFAULTS, offset_ratio=None) if none_ratio else dict(TRS.DEFAULTS)
            yield Case("transcription_velocity.evaluate", [ri, rp, [_Fr(64)] * len(ref), ei, ep, [_Fr(64)] * len(est)]
                       + TRS.pargs(dflt) + [TRS.VEL_DEFAULT, _Fr(1)],
                       lambda ref=ref, est=est, kw=kw: _TV.evaluate(
                           TRS.ivals(ref), TRS.pitches(ref), TRS.farr([64] * len(ref)), TRS.ivals(est), TRS.pitches(est),
                           TRS.farr([64] * len(est)), **kw),
                       tag="model velocity evaluate keywords absent", info=dict(inf, op="transcription_velocity.evaluate"))
            yield Case("transcription.evaluate", [ri, rp, ei, ep] + TRS.pargs(dflt) + [_Fr(1)],
                       lambda ref=ref, est=est, kw=kw: _T.evaluate(TRS.ivals(ref), TRS.pitches(ref), TRS.ivals(est),
                                                                   TRS.pitches(est), **kw),
                       tag="model evaluate keywords absent", info=dict(inf, op="transcription.evaluate"))
    for key in ("transcription.average_overlap_ratio", "transcription.evaluate", "transcription_velocity.scores",
                "transcription_velocity.validate"):
        for c in TRS.SUITES[key](rng, tier, shard, nshards):
            if c.op in ops and c.op in avail and not any(isinstance(a, list) and any(x is None for x in a) for a in c.args):
                yield retarget(c)
    for c in _tv_prim_cases(rng, tier):
        yield c


SUITES["gen_trvel"] = suite_gen_trvel

CHECKERS = {"documented_defaults": check_defaults}
ORACLES = {"documented_defaults": gen_defaults}
from props import _relational  # noqa: E402
_xc, _xo = _relational.extra(PID)
CHECKERS.update(_xc)
ORACLES.update(_xo)
