"""C05 — hit counts come from a valid, maximum one-to-one matching."""
import itertools
from fractions import Fraction as Fr

import numpy as np
import mir_eval
from mir_eval import util

from core import Case
import gen

PID = "C05"
LEAN_MODULES = ["MirProofs.Props.C05", "MirProofs.Props.C05_Transcription", "MirProofs.Props.C05_HK"]
# util._fast_hit_windows / util.match_events are REGENERATED (translate/evglue.py -> MirGen/EvGlue.lean); Props/C05_GenGlue.lean
# states C05 on the translated definitions (hit pairs = the tolerance predicate, the returned pairing is valid and maximum)
LEAN_MODULES += ["MirProofs.Props.C05_GenGlue"]
# the transcription matching functions are REGENERATED too (translate/trmatch.py -> MirGen/TrMatch.lean); Props/C05_GenTr.lean
# proves them equal to the hand model and states C05 (pairs satisfy all enabled criteria, one-to-one, maximum) on them
LEAN_MODULES += ["MirProofs.Props.C05_GenTr"]
TRANSLATOR_PARTS = ["hkshape", "evglue", "trmatch"]     # harness/translate/hkshape.py: util._bipartite_match still has the shape hkMatch was transliterated from
RULE = ("bipartite graphs enumerated exhaustively (quick: all graphs up to 3x4 vertices, thorough: up to 4x5) "
        "and drawn at random up to 12x12 (thorough 40x40) incl. greedy-defeating gadgets; event sets on the "
        "1/32 s lattice with duplicates and pairs exactly at the window edge; a case is non-trivial when the "
        "graph has at least one edge; distinct = distinct (edge list, returned pairs) protocol lines; the "
        "transliterated Hopcroft-Karp (hkMatch, proved valid and maximum for all dicts in C05_HK) is compared pair "
        "for pair with util._bipartite_match on every adjacency dict up to 3x4 (thorough 4x5) in natural and in a "
        "shuffled insertion order, and on random dicts up to 12x12 (thorough 40x40) with shuffled key order, "
        "shuffled/repeated neighbours, empty lists and sparse vertex ids")
RULE += ("; structures adversarial for the routine's control flow (harness/hkgraphs.py): families of alternating chains "
         "with 1..k greedy-matched edges, k <= 10 (thorough 14), in the dict order that makes the greedy start wrong on "
         "every chain (one Hopcroft-Karp phase per distinct length), equal-length families, single chains up to 120 "
         "(thorough 392) edges deep, shuffled / relabelled / with stray edges -- as dicts (transliteration pair for pair, "
         "real pairing through the proved checker) and embedded on the lattice as events, note onsets and multi-f0 "
         "frames; the caller's array dtype: whole-second events / boundaries / notes / MIDI numbers handed over as "
         "int64, int32 (lattice values also as float32) with estimates on and off the grid, same exact expectations")
ASSUMPTIONS = [
    "two ∀-graphs theorems: maxMatchSize_isMax about the certifying model, and C05_HK.hk_result_is_valid_matching / "
    "hk_result_is_maximum about hkMatch, the dict-order-faithful transliteration of util._bipartite_match; that the "
    "transliteration is the Python routine is checked, not proved (pair-for-pair equality of sorted(M.items()) on the "
    "explored dicts, suites hk.* and transcription.bipartite_match); every pairing the real code returns is "
    "additionally run through the proved checker (valid ∧ size = maximum)",
    "note/frequency matching criteria (transcription, multipitch) are compared at the level of the feasibility "
    "predicate evaluated in floating point by the code vs exact rationals in the model, on lattice inputs",
    "translator part hkshape: a SYNTACTIC tie only -- the normalised AST of util._bipartite_match equals the shape pinned "
    "when hkMatch was transliterated (harness/translate/hkshape_pinned.txt); any edit of the routine is a broken obligation "
    "(fails closed also on harmless edits), what an edited routine computes is decided by the hk.* suites and the oracles",
]
UNPROVED = []
EXHAUSTIVE = {"quick": True, "thorough": True}


# ---------------------------------------------------------------------------------------------
def run_bipartite(adj_items):
    """adj_items: list of (u, [v...]) in insertion order -> list of (u, v) pairs returned by the code"""
    G = {}
    for u, vs in adj_items:
        G[u] = list(vs)
    M = util._bipartite_match(G)
    return sorted((int(u), int(v)) for v, u in M.items())


def graph_case(adj_items, tag):
    edges = [(u, v) for u, vs in adj_items for v in vs]
    try:
        pairs = run_bipartite(adj_items)
        res = [True, len(pairs), len(pairs), True]
        call = (lambda r=res: r)
    except Exception as e:  # noqa: BLE001
        pairs = []
        call = (lambda e=e: (_ for _ in ()).throw(e))
    return Case("matching.check", [[list(e) for e in edges], [list(p) for p in pairs]], call, tag=tag,
                info={"adj": [[u, list(vs)] for u, vs in adj_items]}, nontrivial=bool(edges))


def all_graphs(nl, nr):
    """every bipartite graph on nl x nr vertices (as adjacency lists, left vertices without edges omitted)"""
    for mask in range(1 << (nl * nr)):
        adj = []
        for u in range(nl):
            vs = [v for v in range(nr) if (mask >> (u * nr + v)) & 1]
            if vs:
                adj.append((u, vs))
        yield mask, adj


def suite_exhaustive(rng, tier, shard, nshards):
    lim = (3, 4) if tier == "quick" else (4, 5)
    k = 0
    for nl in range(1, lim[0] + 1):
        for nr in range(nl, lim[1] + 1):
            if nl * nr > lim[0] * lim[1]:
                continue
            for mask, adj in all_graphs(nl, nr):
                k += 1
                if k % nshards != shard:
                    continue
                yield graph_case(adj, "exh %dx%d" % (nl, nr))


def random_graph(rng, nmax):
    nl, nr = rng.randint(1, nmax), rng.randint(1, nmax)
    style = rng.random()
    adj = {}
    if style < 0.25:
        # gadget: a long alternating path hidden behind greedy choices
        n = min(nl, nr)
        for u in range(n):
            adj.setdefault(u, []).append(u)
            if u + 1 < n:
                adj.setdefault(u + 1, []).append(u)
        for _ in range(rng.randint(0, n)):
            adj.setdefault(rng.randrange(nl), []).append(rng.randrange(nr))
    else:
        p = rng.choice([0.1, 0.2, 0.3, 0.5, 0.7, 0.9])
        for u in range(nl):
            for v in range(nr):
                if rng.random() < p:
                    adj.setdefault(u, []).append(v)
    items = [(u, sorted(set(vs), key=lambda x: rng.random())) for u, vs in adj.items()]
    rng.shuffle(items)
    return items


def suite_random(rng, tier, shard, nshards):
    n, nmax = (400, 12) if tier == "quick" else (12000, 40)
    for _ in range(n):
        yield graph_case(random_graph(rng, nmax), "random")


def events_instance(rng):
    w = gen.window(rng)
    ref = gen.events(rng)
    est = gen.near(rng, ref, w) if rng.random() < 0.7 else gen.events(rng)
    if rng.random() < 0.3:
        rng.shuffle(ref)     # match_events itself does not require sorted input
    return ref, est, w


def typed_events_instance(rng):
    """-> (ref, est, window, dtype per side, tag): the caller's arrays are not float64.  Whole-second annotations in
    integer arrays against estimates off the grid (and on it), lattice events in single precision; the window is handed
    over as a Python float as always.  The values are the same numbers whatever the container (gen.arr_as)."""
    if rng.random() < 0.7:
        ref, est, w = gen.whole_events(rng)
        dt = gen.pick_dtypes(rng)
        if rng.random() < 0.5:
            dt["ref"] = dt.get("ref") or rng.choice(["int64", "int32"])
        if rng.random() < 0.3:
            rng.shuffle(ref)
    else:
        ref, est, w = events_instance(rng)
        dt = rng.choice([{"ref": "float32"}, {"est": "float32"}, {"ref": "float32", "est": "float32"}])
    dt = {k: v for k, v in dt.items() if v and gen.exact_in(ref if k == "ref" else est, v)}
    return ref, est, w, dt, "dtype ref=%s est=%s" % (dt.get("ref", "float64"), dt.get("est", "float64"))


def events_info(ref, est, w, dt=None):
    d = {"ref": [str(x) for x in ref], "est": [str(x) for x in est], "window": str(w)}
    if dt:
        d["dtype"] = dict(dt)
    return d


def typed(inp, side, values):
    """the array the code receives for `side` of an oracle input / case info"""
    return gen.arr_as(values, (inp.get("dtype") or {}).get(side))


def match_events_case(ref, est, w, dt, tag):
    try:
        pairs = [(int(a), int(b)) for a, b in
                 util.match_events(gen.arr_as(ref, dt.get("ref")), gen.arr_as(est, dt.get("est")), float(w))]
        res = [True, len(pairs), len(pairs), True]
        call = (lambda r=res: r)
    except Exception as e:  # noqa: BLE001
        pairs = []
        call = (lambda e=e: (_ for _ in ()).throw(e))
    return Case("matching.check_events", [ref, est, w, [list(p) for p in pairs]], call,
                tag=tag, info=events_info(ref, est, w, dt), nontrivial=bool(ref and est))


def suite_match_events(rng, tier, shard, nshards):
    n = 400 if tier == "quick" else 20000
    for _ in range(n):
        ref, est, w = events_instance(rng)
        yield match_events_case(ref, est, w, {}, "w=%s" % w)
    for _ in range(n // 3):
        ref, est, w, dt, tag = typed_events_instance(rng)
        yield match_events_case(ref, est, w, dt, tag)


def suite_fast_hit_windows(rng, tier, shard, nshards):
    n = 400 if tier == "quick" else 20000
    for k in range(n + n // 3):
        if k < n:
            ref, est, w = events_instance(rng)
            dt, tag = {}, "w=%s" % w
        else:
            ref, est, w, dt, tag = typed_events_instance(rng)

        def call(ref=ref, est=est, w=w, dt=dt):
            a, b = util._fast_hit_windows(gen.arr_as(ref, dt.get("ref")), gen.arr_as(est, dt.get("est")), float(w))
            return sorted([int(x), int(y)] for x, y in zip(a, b))
        yield Case("util._fast_hit_windows", [ref, est, w], call, tag=tag,
                   info=events_info(ref, est, w, dt), nontrivial=bool(ref and est))
        # the code's enumeration vs the specification |ref_i - est_j| <= w (model of the definition)
        yield Case("matching.hit_pairs", [ref, est, w], call, tag="spec " + tag,
                   info=events_info(ref, est, w, dt), nontrivial=bool(ref and est))


def suite_mod_distance(rng, tier, shard, nshards):
    n = 200 if tier == "quick" else 5000
    for _ in range(n):
        a = Fr(rng.randint(-48 * 8, 96 * 8), 8)
        b = Fr(rng.randint(-48 * 8, 96 * 8), 8)
        m = rng.choice([12, 12, 12, 7, 1])
        yield Case("util._outer_distance_mod_n", [a, b, Fr(m)],
                   lambda a=a, b=b, m=m: float(util._outer_distance_mod_n(np.array([float(a)]), np.array([float(b)]), m)[0, 0]),
                   tag="mod %d" % m, info={"a": str(a), "b": str(b), "n": m})


# ---------------------------------------------------------------------------------------------
# the transliteration hkMatch (about which C05_HK proves validity and maximality for ALL dicts) against the real
# util._bipartite_match, pair for pair, with the adjacency dict handed over in its insertion order

def hk_case(adj_items, tag):
    """adj_items: list of (u, [v...]) = the dict in insertion order (empty and repeated neighbour lists allowed)"""
    adj = [[int(u), [int(v) for v in vs]] for u, vs in adj_items]

    def call(adj=adj):
        G = {}
        for u, vs in adj:
            G[u] = list(vs)
        m = sorted(util._bipartite_match(G).items())
        return [[[int(v), int(u)] for v, u in m], len(m)]
    return Case("util._bipartite_match", [adj], call, tag=tag, info={"adj": adj},
                nontrivial=any(vs for _, vs in adj))


def all_dicts(nl, nr):
    """every adjacency dict on nl x nr vertices in natural order, left vertices without edges kept (empty list)"""
    for mask in range(1 << (nl * nr)):
        yield mask, [(u, [v for v in range(nr) if (mask >> (u * nr + v)) & 1]) for u in range(nl)]


def suite_hk_exhaustive(rng, tier, shard, nshards):
    lim = (3, 4) if tier == "quick" else (4, 5)
    k = 0
    for nl in range(1, lim[0] + 1):
        for nr in range(1, lim[1] + 1):
            for mask, adj in all_dicts(nl, nr):
                k += 1
                if k % nshards != shard:
                    continue
                yield hk_case(adj, "hk exh %dx%d" % (nl, nr))
                if tier == "quick" or nl * nr <= 12:
                    # the same graph with another insertion order of the keys and of the neighbours
                    sh = [(u, sorted(vs, key=lambda x: rng.random())) for u, vs in adj]
                    rng.shuffle(sh)
                    if rng.random() < 0.5:
                        sh = [(u, vs) for u, vs in sh if vs] or sh
                    yield hk_case(sh, "hk exh-shuffled %dx%d" % (nl, nr))


def random_dict(rng, nmax):
    """random_graph plus: sparse / permuted vertex ids, empty lists, repeated neighbours"""
    items = random_graph(rng, nmax)
    us = sorted({u for u, _ in items})
    vs_all = sorted({v for _, vs in items for v in vs})
    if rng.random() < 0.5:
        ids = rng.sample(range(3 * nmax + 3), len(us))
        mu = dict(zip(us, ids))
        ids = rng.sample(range(3 * nmax + 3), len(vs_all))
        mv = dict(zip(vs_all, ids))
        items = [(mu[u], [mv[v] for v in vs]) for u, vs in items]
    out = []
    for u, vs in items:
        vs = list(vs)
        if vs and rng.random() < 0.15:
            vs.insert(rng.randrange(len(vs) + 1), rng.choice(vs))      # a repeated neighbour
        out.append((u, vs))
    used = {u for u, _ in out}
    for _ in range(rng.choice([0, 0, 1, 2])):
        u = rng.randrange(3 * nmax + 3)
        if u not in used:
            used.add(u)
            out.insert(rng.randrange(len(out) + 1), (u, []))           # a left vertex without neighbours
    return out


def suite_hk_shuffled(rng, tier, shard, nshards):
    n, nmax = (600, 12) if tier == "quick" else (6000, 40)     # per shard
    for _ in range(n):
        items = random_dict(rng, nmax)
        yield hk_case(items, "hk random")
        if rng.random() < 0.5:
            # the same graph, another insertion order: the size must agree (the pairs need not)
            sh = [(u, sorted(vs, key=lambda x: rng.random())) for u, vs in items]
            rng.shuffle(sh)
            yield hk_case(sh, "hk random reshuffled")


# ---------------------------------------------------------------------------------------------
# structures that are adversarial for the routine's own control flow (harness/hkgraphs.py): families of alternating
# chains whose greedy start is wrong on every chain, one Hopcroft-Karp phase per distinct chain length, deep backward
# recursion on long chains.  (a) transliteration = real routine pair for pair, (b) the real pairing through the proved
# checker, as dicts and embedded as events / note onsets / multi-f0 frames on the exact lattice.
import hkgraphs  # noqa: E402


def n_chain(tier):
    return 10 if tier == "quick" else 60        # per shard


def suite_hk_chains(rng, tier, shard, nshards):
    for _ in range(n_chain(tier)):
        items, tag = hkgraphs.random_family(rng, tier)
        yield hk_case(items, "hk " + tag)


def suite_chain_graphs(rng, tier, shard, nshards):
    for _ in range(n_chain(tier)):
        items, tag = hkgraphs.random_family(rng, tier)
        yield graph_case(items, tag)


def suite_chain_events(rng, tier, shard, nshards):
    for _ in range(n_chain(tier)):
        ref, est, w, tag = hkgraphs.random_chain_events(rng, tier)
        yield match_events_case(ref, est, w, {}, tag)


def suite_chain_note_onsets(rng, tier, shard, nshards):
    """the chain events as note onsets: match_note_onsets builds the graph from np.where on the distance matrix"""
    from mir_eval import transcription as T
    for _ in range(n_chain(tier)):
        ref, est, w, tag = hkgraphs.random_chain_events(rng, tier)
        strict = rng.random() < 0.3 and all(abs(a - b) != w for a in ref for b in est)
        ri = [[t, t + 1] for t in ref]
        ei = [[t, t + 1] for t in est]
        try:
            m = [[int(a), int(b)] for a, b in T.match_note_onsets(gen.arr_as(ri, None, (-1, 2)), gen.arr_as(ei, None, (-1, 2)),
                                                                 onset_tolerance=float(w), strict=bool(strict))]
            res = [True, len(m), len(m), True]
            call = (lambda r=res: r)
        except Exception as e:  # noqa: BLE001
            m = []
            call = (lambda e=e: (_ for _ in ()).throw(e))
        yield Case("transcription.check_match_note_onsets", [ri, ei, w, bool(strict), m], call, tag=tag,
                   info={"notes": True, "ref": [[str(a), str(b), "60"] for a, b in ri],
                         "est": [[str(a), str(b), "60"] for a, b in ei],
                         "params": {"onset_tolerance": str(w), "pitch_tolerance": "50", "offset_ratio": None,
                                    "offset_min_tolerance": "1/20", "strict": bool(strict), "beta": "1"}},
                   nontrivial=True)


def suite_chain_true_positives(rng, tier, shard, nshards):
    """the chain events as the MIDI values of one multi-f0 frame (raw window and, within one octave, chroma-wrapped)"""
    from mir_eval import multipitch as mp
    for _ in range(n_chain(tier)):
        chroma = rng.random() < 0.4
        ref, est, w, tag = hkgraphs.random_chain_events(rng, tier, max_span=12 if chroma else None)
        ref = [x + (0 if chroma else 30) for x in ref]
        est = [x + (0 if chroma else 30) for x in est]

        def call(ref=ref, est=est, w=w, chroma=chroma):
            return [int(x) for x in mp.compute_num_true_positives([gen.arr(ref)], [gen.arr(est)], window=float(w),
                                                                  chroma=chroma)]
        yield Case("multipitch.compute_num_true_positives", [[ref], [est], w, chroma], call,
                   tag="%s chroma=%s" % (tag, chroma),
                   info={"ref_midi": [[str(x) for x in ref]], "est_midi": [[str(x) for x in est]], "window": str(w),
                         "chroma": chroma}, nontrivial=True)


from suites import transcription as _TR, multipitch as _MP  # noqa: E402

SUITES = {"exhaustive_graphs": suite_exhaustive, "random_graphs": suite_random,
          "match_events": suite_match_events, "fast_hit_windows": suite_fast_hit_windows,
          "mod_distance": suite_mod_distance,
          "hk.exhaustive_dicts": suite_hk_exhaustive, "hk.shuffled_dicts": suite_hk_shuffled,
          "hk.chain_families": suite_hk_chains, "chains.graphs": suite_chain_graphs,
          "chains.events": suite_chain_events, "chains.note_onsets": suite_chain_note_onsets,
          "chains.true_positives": suite_chain_true_positives,
          # note matching: pairings returned by the real match_notes / match_note_onsets / match_note_offsets go through
          # the proved checker against the model's feasibility graph (onset / pitch / offset criteria, strict, offset_ratio)
          "transcription.match_notes": _TR.SUITES["transcription.match_notes"],
          "transcription.match_onsets_offsets": _TR.SUITES["transcription.match_onsets_offsets"],
          "transcription.check_pairs": _TR.SUITES["transcription.check_pairs"],
          "transcription.bipartite_match": _TR.SUITES["transcription.bipartite_match"],
          "transcription_velocity.scores": _TR.SUITES["transcription_velocity.scores"],
          # multipitch per-frame true positives (raw and chroma-wrapped windows)
          "multipitch.num_true_positives": _MP.SUITES["mp_num_true_positives"]}
# the REGENERATED util._fast_hit_windows / util.match_events (driver op gen.evglue) vs the real functions
def suite_gen_evglue_util(rng, tier, shard, nshards):
    import evglue_cases
    for c in evglue_cases.util_cases(rng, tier):
        yield c


SUITES["gen_evglue.util"] = suite_gen_evglue_util


# the REGENERATED transcription matching functions (translate/trmatch.py -> MirGen/TrMatch.lean, driver op gen.trmatch) vs the
# real functions, on the existing transcription streams (the hand-model cases re-targeted at the generated definitions)
def suite_gen_trmatch(rng, tier, shard, nshards):
    import evglue_cases
    for c in evglue_cases.trmatch_cases(rng, tier, shard, nshards):
        yield c


SUITES["gen_trmatch"] = suite_gen_trmatch
# stream F: hit graphs / note sets / multi-f0 frames derived from the repository's fixture files
from suites import fixtures as _FX  # noqa: E402
for _k in ("matching", "transcription", "transcription_velocity", "multipitch"):
    if _k in _FX.SUITES:
        SUITES["fixtures." + _k] = _FX.SUITES[_k]
RULE += "; " + _FX.RULE_NOTE


# ---------------------------------------------------------------------------------------------
# the property itself on the real code

def py_max_matching(adj, nr_hint=None):
    """independent augmenting-path (Kuhn) maximum matching size; adj: {u: [v...]}"""
    match_r = {}

    def try_u(u, seen):
        for v in adj.get(u, ()):
            if v in seen:
                continue
            seen.add(v)
            if v not in match_r or try_u(match_r[v], seen):
                match_r[v] = u
                return True
        return False
    size = 0
    for u in adj:
        if try_u(u, set()):
            size += 1
    return size


def check_pairs(pairs, feasible, nsize):
    us = [p[0] for p in pairs]
    vs = [p[1] for p in pairs]
    if len(set(us)) != len(us) or len(set(vs)) != len(vs):
        return "an item is used twice: %r" % (pairs,)
    for p in pairs:
        if not feasible(p):
            return "infeasible pair %r returned" % (p,)
    if len(pairs) != nsize:
        return "pairing of size %d returned but a pairing of size %d exists" % (len(pairs), nsize)
    return None


def check_bipartite(inp):
    items = [(u, list(vs)) for u, vs in inp["adj"]]
    adj = {u: vs for u, vs in items}
    pairs = run_bipartite(items)
    edges = {(u, v) for u, vs in items for v in vs}
    return check_pairs(pairs, lambda p: tuple(p) in edges, py_max_matching(adj))


def gen_bipartite(rng, tier, shard, nshards, boost):
    n = (300 if tier == "quick" else 5000) * boost
    for _ in range(n):
        items = random_graph(rng, 10 if tier == "quick" else 30)
        yield {"adj": [[u, vs] for u, vs in items]}
    for _ in range((10 if tier == "quick" else 60) * boost):
        items, _ = hkgraphs.random_family(rng, tier)           # chain families: one phase per distinct chain length
        yield {"adj": [[u, vs] for u, vs in items]}


def check_match_events(inp):
    ref = [gen.fr(x) for x in inp["ref"]]
    est = [gen.fr(x) for x in inp["est"]]
    w = gen.fr(inp["window"])
    pairs = [(int(a), int(b)) for a, b in util.match_events(typed(inp, "ref", ref), typed(inp, "est", est), float(w))]
    adj = {}
    for i, r in enumerate(ref):
        for j, e in enumerate(est):
            if abs(r - e) <= w:
                adj.setdefault(i, []).append(j)
    what = check_pairs(pairs, lambda p: abs(ref[p[0]] - est[p[1]]) <= w, py_max_matching(adj))
    if what:
        return what + dtype_note(inp)
    # order independence of the size
    perm_r = inp.get("perm_ref")
    perm_e = inp.get("perm_est")
    if perm_r is not None:
        ref2 = [ref[i] for i in perm_r]
        est2 = [est[i] for i in perm_e]
        n2 = len(util.match_events(typed(inp, "ref", ref2), typed(inp, "est", est2), float(w)))
        if n2 != len(pairs):
            return "size %d after permuting the items, %d before" % (n2, len(pairs)) + dtype_note(inp)
    return None


def dtype_note(inp):
    dt = inp.get("dtype")
    return " (arrays handed over as %s)" % ", ".join("%s: %s" % kv for kv in sorted(dt.items())) if dt else ""


def gen_match_events(rng, tier, shard, nshards, boost):
    n = (300 if tier == "quick" else 5000) * boost
    for k in range(n + n // 3 + (8 if tier == "quick" else 40) * boost):
        if k < n:
            ref, est, w = events_instance(rng)
            dt = None
        elif k < n + n // 3:
            ref, est, w, dt, _ = typed_events_instance(rng)       # integer / single-precision arrays
        else:
            ref, est, w, _ = hkgraphs.random_chain_events(rng, tier)     # chain families (hkgraphs.py)
            dt = None
        pr = list(range(len(ref)))
        pe = list(range(len(est)))
        rng.shuffle(pr)
        rng.shuffle(pe)
        inp = events_info(ref, est, w, dt)
        inp.update(perm_ref=pr, perm_est=pe)
        yield inp


def check_match_events_distance(inp):
    """match_events with an explicit distance (chroma-wrapped): the np.where(distance <= window) form"""
    ref = [gen.fr(x) for x in inp["ref"]]
    est = [gen.fr(x) for x in inp["est"]]
    w = gen.fr(inp["window"])

    def cd(a, b):
        d = abs((a % 12) - (b % 12))
        return min(d, 12 - d)
    pairs = [(int(a), int(b)) for a, b in
             util.match_events(gen.arr(ref), gen.arr(est), float(w), distance=util._outer_distance_mod_n)]
    adj = {}
    for i, r in enumerate(ref):
        for j, e in enumerate(est):
            if cd(r, e) <= w:
                adj.setdefault(i, []).append(j)
    return check_pairs(pairs, lambda p: cd(ref[p[0]], est[p[1]]) <= w, py_max_matching(adj))


def gen_match_events_distance(rng, tier, shard, nshards, boost):
    n = (200 if tier == "quick" else 3000) * boost
    for _ in range(n):
        k = rng.randint(0, 6)
        ref = [Fr(rng.randint(36 * 8, 84 * 8), 8) for _ in range(k)]
        est = [r + rng.choice([0, 12, -12, 24]) + Fr(rng.choice([-4, -2, 0, 0, 2, 4, 5]), 8) for r in ref if rng.random() < 0.8]
        est += [Fr(rng.randint(36 * 8, 84 * 8), 8) for _ in range(rng.randint(0, 2))]
        yield {"ref": [str(x) for x in ref], "est": [str(x) for x in est], "window": str(rng.choice([Fr(1, 4), Fr(1, 2), Fr(1)]))}


def _total(chk):
    """the matching routines are total on the (valid) inputs the generators produce: an exception raised inside
    mir_eval is a failure of the property on that input, not a harness error"""
    import functools
    import traceback as _tb

    @functools.wraps(chk)
    def wrapped(inp):
        try:
            return chk(inp)
        except Exception as e:  # noqa: BLE001
            frames = _tb.extract_tb(e.__traceback__)
            if any("mir_eval" in (f.filename or "") for f in frames):
                return "the matching routine raised %s: %s" % (type(e).__name__, e)
            raise
    return wrapped


def check_mp_hitcounts(inp):
    """task level: the true-positive totals that multipitch.metrics() reports (recovered from precision * #est and
    recall * #ref, raw and chroma) are the per-frame maximum matching sizes under the raw / octave-wrapped window,
    computed here in exact arithmetic from the lattice pitches -- i.e. the counts obtained INSIDE the pipeline
    (conversion to MIDI, chroma wrapping, both matchings on the same frame objects) and not only by the matching
    helper called on fresh data"""
    rt, rf, et, ef, w = _MP._parse(inp)
    if rt != et:
        return None
    ww = Fr(1, 2) if w is None else w
    s = _MP._scores(rt, rf, et, ef, w)
    n_ref = sum(len(f) for f in rf)
    n_est = sum(len(f) for f in ef)

    def total(chroma):
        tot = 0
        for r, e in zip(rf, ef):
            adj = {}
            for i, a in enumerate(r):
                for j, b in enumerate(e):
                    d = abs(a - b)
                    if chroma:
                        d = d % 12
                        d = min(d, 12 - d)
                    if d <= ww:
                        adj.setdefault(i, []).append(j)
            tot += py_max_matching(adj)
        return tot
    for name, off, chroma in (("raw", 0, False), ("chroma", 7, True)):
        want = total(chroma)
        if n_est and abs(s[off] * n_est - want) > 1e-6:
            return ("%s precision %r over %d estimated pitches means %.6f hits; the maximum one-to-one matching of "
                    "the frames has %d in total" % (name, s[off], n_est, s[off] * n_est, want))
        if n_ref and abs(s[off + 1] * n_ref - want) > 1e-6:
            return ("%s recall %r over %d reference pitches means %.6f hits; the maximum one-to-one matching of "
                    "the frames has %d in total" % (name, s[off + 1], n_ref, s[off + 1] * n_ref, want))
    return None


def check_event_hitcounts(inp):
    """task level: the hit counts behind onset.f_measure and beat.f_measure (precision * #est, recall * #ref) are the
    maximum matching size under |r - e| <= window"""
    ref = sorted(gen.fr(x) for x in inp["ref"])
    est = sorted(gen.fr(x) for x in inp["est"])
    w = gen.fr(inp["window"])
    if not ref or not est:
        return None
    adj = {}
    for i, r in enumerate(ref):
        for j, e in enumerate(est):
            if abs(r - e) <= w:
                adj.setdefault(i, []).append(j)
    want = py_max_matching(adj)
    ra, ea = typed(inp, "ref", ref), typed(inp, "est", est)
    for name, got in (("onset.f_measure", mir_eval.onset.f_measure(ra, ea, window=float(w))),
                      ("beat.f_measure", (mir_eval.beat.f_measure(ra, ea, f_measure_threshold=float(w)),))):
        if name == "beat.f_measure":
            f = float(got[0])
            fw = 2.0 * want / (len(ref) + len(est))
            if abs(f - fw) > 1e-9:
                return "%s = %r; with the maximum matching (%d hits) it is %r" % (name, f, want, fw) + dtype_note(inp)
            continue
        _, p, r = [float(x) for x in got]
        if abs(p * len(est) - want) > 1e-6 or abs(r * len(ref) - want) > 1e-6:
            return ("%s: precision %r / recall %r mean %.6f / %.6f hits; the maximum one-to-one matching has %d"
                    % (name, p, r, p * len(est), r * len(ref), want)) + dtype_note(inp)
    return None


def check_segment_detection(inp):
    """task level: segment.detection counts boundary hits = maximum matching of the boundary sets under |r - e| <= window
    (boundaries = the distinct interval end points, without the outermost two when trim=True)"""
    ri = [[gen.fr(a), gen.fr(b)] for a, b in inp["ref"]]
    ei = [[gen.fr(a), gen.fr(b)] for a, b in inp["est"]]
    w = gen.fr(inp["window"])
    trim = bool(inp.get("trim"))
    rb = sorted({x for iv in ri for x in iv})
    eb = sorted({x for iv in ei for x in iv})
    if trim:
        rb, eb = rb[1:-1], eb[1:-1]
    dt = inp.get("dtype") or {}
    p, r, f = mir_eval.segment.detection(gen.arr_as(ri, dt.get("ref"), (-1, 2)), gen.arr_as(ei, dt.get("est"), (-1, 2)),
                                         window=float(w), trim=trim)
    if not rb or not eb:
        return None if (p, r, f) == (0.0, 0.0, 0.0) else "detection without boundaries on one side gives %r" % ((p, r, f),)
    adj = {}
    for i, a in enumerate(rb):
        for j, b in enumerate(eb):
            if abs(a - b) <= w:
                adj.setdefault(i, []).append(j)
    want = py_max_matching(adj)
    if abs(float(p) * len(eb) - want) > 1e-6 or abs(float(r) * len(rb) - want) > 1e-6:
        return ("segment.detection: precision %r / recall %r mean %.6f / %.6f boundary hits; the maximum one-to-one "
                "matching of the boundaries has %d" % (p, r, float(p) * len(eb), float(r) * len(rb), want)) + dtype_note(inp)
    return None


def gen_segment_detection(rng, tier, shard, nshards, boost):
    import tasks as T_
    for _ in range((120 if tier == "quick" else 2500) * boost):
        whole = rng.random() < 0.6
        lat = 1 if whole else 8
        span = Fr(rng.randint(3, 14))
        ri, _ = T_.gen_segmentation(rng, span, nmax=7, lat=lat)
        w = rng.choice([Fr(1, 2), Fr(1, 2), Fr(3), Fr(1, 4), Fr(3, 8), Fr(3, 2), Fr(1), Fr(5, 4)])
        if rng.random() < 0.6:
            # estimated boundaries next to the reference's: on / off the window, end points kept
            cuts = sorted({a + rng.choice([0, 0, w, -w, w + Fr(1, 8), -w - Fr(1, 8), Fr(3, 8), -Fr(5, 8), 1, -1])
                           for a, _ in ri[1:] if rng.random() < 0.85})
            cuts = [c for c in cuts if 0 < c < span]
            b = [Fr(0)] + cuts + [span]
            ei = [[b[i], b[i + 1]] for i in range(len(b) - 1)]
        else:
            ei, _ = T_.gen_segmentation(rng, span + rng.choice([0, 0, 1, -1]), nmax=7, lat=rng.choice([1, 8]))
        inp = {"ref": [[str(a), str(b)] for a, b in ri], "est": [[str(a), str(b)] for a, b in ei], "window": str(w),
               "trim": rng.random() < 0.4}
        if whole or rng.random() < 0.3:
            dt = gen.pick_dtypes(rng)
            dt = {k: v for k, v in dt.items() if gen.exact_in(ri if k == "ref" else ei, v)}
            if dt:
                inp["dtype"] = dt
        yield inp


def check_mp_true_positives(inp):
    """multipitch.compute_num_true_positives called the way a user with MIDI note lists calls it: per frame the count
    is the maximum matching size under |r - e| <= window (chroma=True: circular distance modulo 12)"""
    from mir_eval import multipitch as mp
    rf = [[gen.fr(x) for x in f] for f in inp["ref_midi"]]
    ef = [[gen.fr(x) for x in f] for f in inp["est_midi"]]
    w = gen.fr(inp["window"])
    chroma = bool(inp.get("chroma"))
    dt = inp.get("dtype") or {}
    got = [int(x) for x in mp.compute_num_true_positives([gen.arr_as(f, dt.get("ref")) for f in rf],
                                                         [gen.arr_as(f, dt.get("est")) for f in ef],
                                                         window=float(w), chroma=chroma)]
    for k, (r, e) in enumerate(zip(rf, ef)):
        adj = {}
        for i, a in enumerate(r):
            for j, b in enumerate(e):
                d = abs(a - b)
                if chroma:
                    d = abs(a % 12 - b % 12)
                    d = min(d, 12 - d)
                if d <= w:
                    adj.setdefault(i, []).append(j)
        want = py_max_matching(adj)
        if got[k] != want:
            return ("compute_num_true_positives(chroma=%s) reports %d true positives in frame %d; the maximum "
                    "one-to-one matching has %d" % (chroma, got[k], k, want)) + dtype_note(inp)
    return None


def gen_mp_true_positives(rng, tier, shard, nshards, boost):
    n = (120 if tier == "quick" else 2500) * boost
    for k in range(n + (6 if tier == "quick" else 40) * boost):
        chroma = rng.random() < 0.4
        if k >= n:
            ref, est, w, _ = hkgraphs.random_chain_events(rng, tier, max_span=12 if chroma else None)
            off = 0 if chroma else 30
            yield {"ref_midi": [[str(x + off) for x in ref]], "est_midi": [[str(x + off) for x in est]], "window": str(w),
                   "chroma": chroma}
            continue
        # MIDI note numbers (whole numbers: what a piano roll gives) against estimates on and off the semitone grid
        w = rng.choice([Fr(1, 2), Fr(1, 2), Fr(1, 4), Fr(3, 4), Fr(1), Fr(3, 2), Fr(5, 4)])
        rf, ef = [], []
        both_whole = rng.random() < 0.3
        for _ in range(rng.choice([1, 2, 3, 5])):
            r = sorted({Fr(rng.randint(48, 72)) for _ in range(rng.choice([0, 1, 2, 3, 5]))})
            if rng.random() < 0.3:
                rng.shuffle(r)
            e = []
            for m in r:
                if rng.random() < 0.85:
                    if both_whole:
                        e.append(m + rng.choice([0, 0, 1, -1, 12, -12, 2]))
                    else:
                        e.append(m + rng.choice([0, Fr(10, 32), -Fr(13, 32), Fr(19, 32), -Fr(22, 32), w, -w,
                                                 w + Fr(1, 32), Fr(35, 32), 12 + Fr(3, 8), -12 - Fr(5, 8)]))
            rf.append(r)
            ef.append(e)
        inp = {"ref_midi": [[str(x) for x in f] for f in rf], "est_midi": [[str(x) for x in f] for f in ef],
               "window": str(w), "chroma": chroma}
        dt = gen.pick_dtypes(rng)
        dt = {kk: v for kk, v in dt.items() if gen.exact_in(rf if kk == "ref" else ef, v)}
        if dt:
            inp["dtype"] = dt
        yield inp


NOTE_PARAMS0 = {"onset_tolerance": "1/20", "pitch_tolerance": "50", "offset_ratio": "1/5", "offset_min_tolerance": "1/20",
                "strict": False, "beta": "1"}


def check_note_matchers(inp):
    """match_notes / match_note_onsets / match_note_offsets on notes whose interval (and pitch) arrays are handed over
    in the caller's dtype: valid, one-to-one, maximum for the documented criteria.  Pitches are MIDI numbers converted
    to Hz as usual, or (pitch_unit = 'hz') whole numbers of Hz in an integer array; the generator keeps every pitch
    distance >= 1 cent away from the tolerance."""
    import math
    from mir_eval import transcription as T
    from props import t_transcription as TT
    ref, est, p = TT.unnotes(inp["ref"]), TT.unnotes(inp["est"]), TT.unparams(inp["params"])
    dt = inp.get("dtype") or {}
    ri = gen.arr_as([[n[0], n[1]] for n in ref], dt.get("ref"), (-1, 2))
    ei = gen.arr_as([[n[0], n[1]] for n in est], dt.get("est"), (-1, 2))
    if inp.get("pitch_unit") == "hz":
        rp = gen.arr_as([n[2] for n in ref], dt.get("ref_pitch"))
        ep = gen.arr_as([n[2] for n in est], dt.get("est_pitch"))

        def pitch_ok(q, r, e):
            c = 1200.0 * abs(math.log2(float(r[2])) - math.log2(float(e[2])))
            return c < float(q["pitch_tolerance"]) if q["strict"] else c <= float(q["pitch_tolerance"])
    else:
        rp, ep = TT.S.pitches(ref), TT.S.pitches(est)
        pitch_ok = TT.pitch_ok
    if inp.get("warm") is not None and len(est):
        # the same array objects were matched a moment ago while they held a time-shifted estimate (a latency sweep that
        # edits the estimate in place): the pairing asked for below is a function of the values they hold NOW
        d = int(inp["warm"])
        ei += d
        for call in (lambda: T.match_notes(ri, rp, ei, ep, **TT.kwargs(p, TT.S.K_NOTES)),
                     lambda: T.match_note_onsets(ri, ei, **TT.kwargs(p, TT.S.K_ONSET)),
                     lambda: T.match_note_offsets(ri, ei, **TT.kwargs(p, TT.S.K_OFFSET))):
            try:
                call()
            except Exception:  # noqa: BLE001 - only has to have happened
                pass
        ei -= d
    for ratio in ([p["offset_ratio"], None] if p["offset_ratio"] is not None else [None]):
        q = dict(p)
        q["offset_ratio"] = ratio

        def ok(i, j, q=q):
            return TT.onset_ok(q, ref[i], est[j]) and pitch_ok(q, ref[i], est[j]) and \
                (q["offset_ratio"] is None or TT.offset_ok(q, ref[i], est[j]))
        pairs = TT.S.pairs_of(T.match_notes(ri, rp, ei, ep, **TT.kwargs(q, TT.S.K_NOTES)))
        what = TT.check_pairs([tuple(x) for x in pairs], len(ref), len(est), ok, "match_notes(offset_ratio=%s)" % ratio)
        if what:
            return what + dtype_note(inp)
    pairs = TT.S.pairs_of(T.match_note_onsets(ri, ei, **TT.kwargs(p, TT.S.K_ONSET)))
    what = TT.check_pairs([tuple(x) for x in pairs], len(ref), len(est), lambda i, j: TT.onset_ok(p, ref[i], est[j]),
                          "match_note_onsets")
    if what:
        return what + dtype_note(inp)
    if p["offset_ratio"] is not None:
        pairs = TT.S.pairs_of(T.match_note_offsets(ri, ei, **TT.kwargs(p, TT.S.K_OFFSET)))
        what = TT.check_pairs([tuple(x) for x in pairs], len(ref), len(est),
                              lambda i, j: TT.offset_ok(p, ref[i], est[j]), "match_note_offsets")
        if what:
            return what + dtype_note(inp)
    return None


HZ_POOL = [110, 220, 440, 880, 262, 294, 330, 349, 392, 415, 466, 494, 523, 233, 247, 277, 311, 370, 441, 445, 452, 427]


def gen_note_matchers(rng, tier, shard, nshards, boost):
    import math
    n = (100 if tier == "quick" else 2000) * boost
    for k in range(n + (6 if tier == "quick" else 40) * boost):
        if k >= n:
            # chain families as note onsets (equal pitches, durations long enough for the offset criterion to agree)
            ref, est, w, _ = hkgraphs.random_chain_events(rng, tier)
            dur = rng.choice([1, 2, 8])
            par = dict(NOTE_PARAMS0, onset_tolerance=str(w), offset_ratio=rng.choice([None, "1/5", "1/2"]),
                       offset_min_tolerance=str(rng.choice([w, Fr(1, 20)])))
            yield {"ref": [[str(t), str(t + dur), "60"] for t in ref], "est": [[str(t), str(t + dur), "60"] for t in est],
                   "params": par}
            continue
        # notes annotated on whole seconds (integer interval arrays), pitches as whole Hz (integer arrays) or MIDI
        hzu = rng.random() < 0.6
        # (MIDI numbers: pitch distances are multiples of 100 cents, the tolerance stays >= 25 cents away from them)
        tol = rng.choice([Fr(50), Fr(50), Fr(25), Fr(100), Fr(35)] if hzu else [Fr(50), Fr(50), Fr(25), Fr(35), Fr(130)])
        par = dict(NOTE_PARAMS0, pitch_tolerance=str(tol),
                   onset_tolerance=str(rng.choice([Fr(1, 20), Fr(1, 2), Fr(3, 8), Fr(1), Fr(3, 2), Fr(1, 4)])),
                   offset_ratio=rng.choice([None, "1/5", "1/5", "1/2", "1/4"]),
                   offset_min_tolerance=str(rng.choice([Fr(1, 20), Fr(1, 2), Fr(3, 8), Fr(1)])),
                   strict=rng.random() < 0.25)
        ow = Fr(par["onset_tolerance"])
        ref = []
        for _ in range(rng.choice([1, 2, 3, 4, 5, 6, 8])):
            on = Fr(rng.randint(0, 10))
            pit = Fr(rng.choice(HZ_POOL)) if hzu else Fr(rng.randint(48, 84))
            ref.append([on, on + rng.choice([1, 1, 2, 3, 5]), pit])
        whole_est = rng.random() < 0.3
        est = []
        for on, off, pit in ref:
            if rng.random() < 0.15:
                continue
            if whole_est:
                on2 = max(Fr(0), on + rng.choice([0, 0, 0, 1, -1]))
                off2 = max(on2 + 1, off + rng.choice([0, 0, 1, -1, 2]))
            else:
                on2 = max(Fr(0), on + rng.choice([0, Fr(5, 16), -Fr(7, 16), Fr(9, 16), -Fr(11, 16), ow, -ow,
                                                  ow + Fr(1, 16), -ow - Fr(1, 16)]))
                off2 = max(on2 + Fr(1, 16), off + rng.choice([0, Fr(3, 16), -Fr(5, 16), Fr(9, 16), Fr(1), -Fr(19, 16)]))
            pit2 = Fr(rng.choice(HZ_POOL)) if (hzu and rng.random() < 0.3) else pit + (0 if hzu else rng.choice([0, 0, 0, 1, 12]))
            est.append([on2, off2, pit2])
        if rng.random() < 0.3:
            rng.shuffle(est)
        if hzu:
            # >= 1 cent between every pitch distance and the tolerance
            if any(abs(1200.0 * abs(math.log2(float(a[2]) / float(b[2]))) - float(tol)) < 1.0 for a in ref for b in est):
                continue
        inp = {"ref": [[str(x) for x in nn] for nn in ref], "est": [[str(x) for x in nn] for nn in est], "params": par}
        if hzu:
            inp["pitch_unit"] = "hz"
        dt = gen.pick_dtypes(rng, sides=("ref", "est", "ref_pitch", "est_pitch") if hzu else ("ref", "est"))
        vals = {"ref": [nn[:2] for nn in ref], "est": [nn[:2] for nn in est], "ref_pitch": [nn[2] for nn in ref],
                "est_pitch": [nn[2] for nn in est]}
        dt = {kk: v for kk, v in dt.items() if gen.exact_in(vals[kk], v)}
        if dt:
            inp["dtype"] = dt
        if rng.random() < 0.3:
            inp["warm"] = rng.choice([1, 3, 7])
        yield inp


def gen_mp_hitcounts(rng, tier, shard, nshards, boost):
    for _ in range((150 if tier == "quick" else 2500) * boost):
        kind, rt, rf, et, ef, w = _MP.instance(rng, "equal")
        if rt == et:
            yield _MP._json(kind, rt, rf, et, ef, w)


CHECKERS = {"util._bipartite_match": check_bipartite, "util.match_events": check_match_events,
            "util.match_events(distance)": check_match_events_distance,
            "multipitch.metrics(hit counts)": check_mp_hitcounts,
            "onset/beat.f_measure(hit counts)": check_event_hitcounts,
            "segment.detection(hit counts)": check_segment_detection,
            "multipitch.compute_num_true_positives": check_mp_true_positives,
            "transcription.match_*(caller's arrays)": check_note_matchers}
ORACLES = {"util._bipartite_match": gen_bipartite, "util.match_events": gen_match_events,
           "util.match_events(distance)": gen_match_events_distance,
           "multipitch.metrics(hit counts)": gen_mp_hitcounts,
           "onset/beat.f_measure(hit counts)": gen_match_events,
           "segment.detection(hit counts)": gen_segment_detection,
           "multipitch.compute_num_true_positives": gen_mp_true_positives,
           "transcription.match_*(caller's arrays)": gen_note_matchers}


def classify(suite, d):
    i = d.get("info") or {}
    if suite == "fixtures.matching":
        if "adj" in i:
            return "util._bipartite_match", {"adj": i["adj"]}
        return "util.match_events", {"ref": i["ref"], "est": i["est"], "window": i["window"]}
    if suite in ("chains.graphs", "hk.chain_families"):
        return "util._bipartite_match", {"adj": i["adj"]}
    if suite == "chains.events":
        return "util.match_events", {"ref": i["ref"], "est": i["est"], "window": i["window"]}
    if suite == "chains.note_onsets":
        return "transcription.match_*(caller's arrays)", {"ref": i["ref"], "est": i["est"], "params": i["params"]}
    if suite in ("chains.true_positives", "multipitch.num_true_positives") and "ref_midi" in i:
        return "multipitch.compute_num_true_positives", {k: i[k] for k in ("ref_midi", "est_midi", "window", "chroma")}
    if suite.startswith("transcription") or suite.startswith("fixtures.transcription"):
        from props import t_transcription
        return t_transcription.classify(suite, d)
    if suite in ("exhaustive_graphs", "random_graphs") or suite.startswith("hk."):
        return "util._bipartite_match", {"adj": i["adj"]}
    if suite in ("match_events", "fast_hit_windows"):
        inp = {"ref": i["ref"], "est": i["est"], "window": i["window"]}
        if i.get("dtype"):
            inp["dtype"] = i["dtype"]
        return "util.match_events", inp
    return None

from props import _relational  # noqa: E402
_xc, _xo = _relational.extra(PID)
CHECKERS.update(_xc)
ORACLES.update(_xo)
CHECKERS = {site: _total(chk) for site, chk in CHECKERS.items()}
