"""C05 — hit counts come from a valid, maximum one-to-one matching."""
import itertools
from fractions import Fraction as Fr

import numpy as np
import mir_eval
from mir_eval import util

from core import Case
import gen

PID = "C05"
LEAN_MODULES = ["MirProofs.Props.C05", "MirProofs.Props.C05_Transcription", "MirProofs.Props.C05_HK"]
RULE = ("bipartite graphs enumerated exhaustively (quick: all graphs up to 3x4 vertices, thorough: up to 4x5) "
        "and drawn at random up to 12x12 (thorough 40x40) incl. greedy-defeating gadgets; event sets on the "
        "1/32 s lattice with duplicates and pairs exactly at the window edge; a case is non-trivial when the "
        "graph has at least one edge; distinct = distinct (edge list, returned pairs) protocol lines; the "
        "transliterated Hopcroft-Karp (hkMatch, proved valid and maximum for all dicts in C05_HK) is compared pair "
        "for pair with util._bipartite_match on every adjacency dict up to 3x4 (thorough 4x5) in natural and in a "
        "shuffled insertion order, and on random dicts up to 12x12 (thorough 40x40) with shuffled key order, "
        "shuffled/repeated neighbours, empty lists and sparse vertex ids")
ASSUMPTIONS = [
    "two ∀-graphs theorems: maxMatchSize_isMax about the certifying model, and C05_HK.hk_result_is_valid_matching / "
    "hk_result_is_maximum about hkMatch, the dict-order-faithful transliteration of util._bipartite_match; that the "
    "transliteration is the Python routine is checked, not proved (pair-for-pair equality of sorted(M.items()) on the "
    "explored dicts, suites hk.* and transcription.bipartite_match); every pairing the real code returns is "
    "additionally run through the proved checker (valid ∧ size = maximum)",
    "note/frequency matching criteria (transcription, multipitch) are compared at the level of the feasibility "
    "predicate evaluated in floating point by the code vs exact rationals in the model, on lattice inputs",
]
UNPROVED = []
EXHAUSTIVE = {"quick": True, "thorough": True}


# ---------------------------------------------------------------------------------------------
def run_bipartite(adj_items):
    """adj_items: list of (u, [v...]) in insertion order -> list of (u, v) pairs returned by the code"""
    G = {}
    for u, vs in adj_items:
        G[u] = list(vs)
    M = util._bipartite_match(G)
    return sorted((int(u), int(v)) for v, u in M.items())


def graph_case(adj_items, tag):
    edges = [(u, v) for u, vs in adj_items for v in vs]
    try:
        pairs = run_bipartite(adj_items)
        res = [True, len(pairs), len(pairs), True]
        call = (lambda r=res: r)
    except Exception as e:  # noqa: BLE001
        pairs = []
        call = (lambda e=e: (_ for _ in ()).throw(e))
    return Case("matching.check", [[list(e) for e in edges], [list(p) for p in pairs]], call, tag=tag,
                info={"adj": [[u, list(vs)] for u, vs in adj_items]}, nontrivial=bool(edges))


def all_graphs(nl, nr):
    """every bipartite graph on nl x nr vertices (as adjacency lists, left vertices without edges omitted)"""
    for mask in range(1 << (nl * nr)):
        adj = []
        for u in range(nl):
            vs = [v for v in range(nr) if (mask >> (u * nr + v)) & 1]
            if vs:
                adj.append((u, vs))
        yield mask, adj


def suite_exhaustive(rng, tier, shard, nshards):
    lim = (3, 4) if tier == "quick" else (4, 5)
    k = 0
    for nl in range(1, lim[0] + 1):
        for nr in range(nl, lim[1] + 1):
            if nl * nr > lim[0] * lim[1]:
                continue
            for mask, adj in all_graphs(nl, nr):
                k += 1
                if k % nshards != shard:
                    continue
                yield graph_case(adj, "exh %dx%d" % (nl, nr))


def random_graph(rng, nmax):
    nl, nr = rng.randint(1, nmax), rng.randint(1, nmax)
    style = rng.random()
    adj = {}
    if style < 0.25:
        # gadget: a long alternating path hidden behind greedy choices
        n = min(nl, nr)
        for u in range(n):
            adj.setdefault(u, []).append(u)
            if u + 1 < n:
                adj.setdefault(u + 1, []).append(u)
        for _ in range(rng.randint(0, n)):
            adj.setdefault(rng.randrange(nl), []).append(rng.randrange(nr))
    else:
        p = rng.choice([0.1, 0.2, 0.3, 0.5, 0.7, 0.9])
        for u in range(nl):
            for v in range(nr):
                if rng.random() < p:
                    adj.setdefault(u, []).append(v)
    items = [(u, sorted(set(vs), key=lambda x: rng.random())) for u, vs in adj.items()]
    rng.shuffle(items)
    return items


def suite_random(rng, tier, shard, nshards):
    n, nmax = (400, 12) if tier == "quick" else (12000, 40)
    for _ in range(n):
        yield graph_case(random_graph(rng, nmax), "random")


def events_instance(rng):
    w = gen.window(rng)
    ref = gen.events(rng)
    est = gen.near(rng, ref, w) if rng.random() < 0.7 else gen.events(rng)
    if rng.random() < 0.3:
        rng.shuffle(ref)     # match_events itself does not require sorted input
    return ref, est, w


def suite_match_events(rng, tier, shard, nshards):
    n = 400 if tier == "quick" else 20000
    for _ in range(n):
        ref, est, w = events_instance(rng)
        try:
            pairs = [(int(a), int(b)) for a, b in util.match_events(gen.arr(ref), gen.arr(est), float(w))]
            res = [True, len(pairs), len(pairs), True]
            call = (lambda r=res: r)
        except Exception as e:  # noqa: BLE001
            pairs = []
            call = (lambda e=e: (_ for _ in ()).throw(e))
        yield Case("matching.check_events", [ref, est, w, [list(p) for p in pairs]], call,
                   tag="w=%s" % w, info={"ref": [str(x) for x in ref], "est": [str(x) for x in est], "window": str(w)},
                   nontrivial=bool(ref and est))


def suite_fast_hit_windows(rng, tier, shard, nshards):
    n = 400 if tier == "quick" else 20000
    for _ in range(n):
        ref, est, w = events_instance(rng)

        def call(ref=ref, est=est, w=w):
            a, b = util._fast_hit_windows(gen.arr(ref), gen.arr(est), float(w))
            return sorted([int(x), int(y)] for x, y in zip(a, b))
        yield Case("util._fast_hit_windows", [ref, est, w], call, tag="w=%s" % w,
                   info={"ref": [str(x) for x in ref], "est": [str(x) for x in est], "window": str(w)},
                   nontrivial=bool(ref and est))
        # the code's enumeration vs the specification |ref_i - est_j| <= w (model of the definition)
        yield Case("matching.hit_pairs", [ref, est, w], call, tag="spec w=%s" % w,
                   info={"ref": [str(x) for x in ref], "est": [str(x) for x in est], "window": str(w)},
                   nontrivial=bool(ref and est))


def suite_mod_distance(rng, tier, shard, nshards):
    n = 200 if tier == "quick" else 5000
    for _ in range(n):
        a = Fr(rng.randint(-48 * 8, 96 * 8), 8)
        b = Fr(rng.randint(-48 * 8, 96 * 8), 8)
        m = rng.choice([12, 12, 12, 7, 1])
        yield Case("util._outer_distance_mod_n", [a, b, Fr(m)],
                   lambda a=a, b=b, m=m: float(util._outer_distance_mod_n(np.array([float(a)]), np.array([float(b)]), m)[0, 0]),
                   tag="mod %d" % m, info={"a": str(a), "b": str(b), "n": m})


# ---------------------------------------------------------------------------------------------
# the transliteration hkMatch (about which C05_HK proves validity and maximality for ALL dicts) against the real
# util._bipartite_match, pair for pair, with the adjacency dict handed over in its insertion order

def hk_case(adj_items, tag):
    """adj_items: list of (u, [v...]) = the dict in insertion order (empty and repeated neighbour lists allowed)"""
    adj = [[int(u), [int(v) for v in vs]] for u, vs in adj_items]

    def call(adj=adj):
        G = {}
        for u, vs in adj:
            G[u] = list(vs)
        m = sorted(util._bipartite_match(G).items())
        return [[[int(v), int(u)] for v, u in m], len(m)]
    return Case("util._bipartite_match", [adj], call, tag=tag, info={"adj": adj},
                nontrivial=any(vs for _, vs in adj))


def all_dicts(nl, nr):
    """every adjacency dict on nl x nr vertices in natural order, left vertices without edges kept (empty list)"""
    for mask in range(1 << (nl * nr)):
        yield mask, [(u, [v for v in range(nr) if (mask >> (u * nr + v)) & 1]) for u in range(nl)]


def suite_hk_exhaustive(rng, tier, shard, nshards):
    lim = (3, 4) if tier == "quick" else (4, 5)
    k = 0
    for nl in range(1, lim[0] + 1):
        for nr in range(1, lim[1] + 1):
            for mask, adj in all_dicts(nl, nr):
                k += 1
                if k % nshards != shard:
                    continue
                yield hk_case(adj, "hk exh %dx%d" % (nl, nr))
                if tier == "quick" or nl * nr <= 12:
                    # the same graph with another insertion order of the keys and of the neighbours
                    sh = [(u, sorted(vs, key=lambda x: rng.random())) for u, vs in adj]
                    rng.shuffle(sh)
                    if rng.random() < 0.5:
                        sh = [(u, vs) for u, vs in sh if vs] or sh
                    yield hk_case(sh, "hk exh-shuffled %dx%d" % (nl, nr))


def random_dict(rng, nmax):
    """random_graph plus: sparse / permuted vertex ids, empty lists, repeated neighbours"""
    items = random_graph(rng, nmax)
    us = sorted({u for u, _ in items})
    vs_all = sorted({v for _, vs in items for v in vs})
    if rng.random() < 0.5:
        ids = rng.sample(range(3 * nmax + 3), len(us))
        mu = dict(zip(us, ids))
        ids = rng.sample(range(3 * nmax + 3), len(vs_all))
        mv = dict(zip(vs_all, ids))
        items = [(mu[u], [mv[v] for v in vs]) for u, vs in items]
    out = []
    for u, vs in items:
        vs = list(vs)
        if vs and rng.random() < 0.15:
            vs.insert(rng.randrange(len(vs) + 1), rng.choice(vs))      # a repeated neighbour
        out.append((u, vs))
    used = {u for u, _ in out}
    for _ in range(rng.choice([0, 0, 1, 2])):
        u = rng.randrange(3 * nmax + 3)
        if u not in used:
            used.add(u)
            out.insert(rng.randrange(len(out) + 1), (u, []))           # a left vertex without neighbours
    return out


def suite_hk_shuffled(rng, tier, shard, nshards):
    n, nmax = (600, 12) if tier == "quick" else (6000, 40)     # per shard
    for _ in range(n):
        items = random_dict(rng, nmax)
        yield hk_case(items, "hk random")
        if rng.random() < 0.5:
            # the same graph, another insertion order: the size must agree (the pairs need not)
            sh = [(u, sorted(vs, key=lambda x: rng.random())) for u, vs in items]
            rng.shuffle(sh)
            yield hk_case(sh, "hk random reshuffled")


from suites import transcription as _TR, multipitch as _MP  # noqa: E402

SUITES = {"exhaustive_graphs": suite_exhaustive, "random_graphs": suite_random,
          "match_events": suite_match_events, "fast_hit_windows": suite_fast_hit_windows,
          "mod_distance": suite_mod_distance,
          "hk.exhaustive_dicts": suite_hk_exhaustive, "hk.shuffled_dicts": suite_hk_shuffled,
          # note matching: pairings returned by the real match_notes / match_note_onsets / match_note_offsets go through
          # the proved checker against the model's feasibility graph (onset / pitch / offset criteria, strict, offset_ratio)
          "transcription.match_notes": _TR.SUITES["transcription.match_notes"],
          "transcription.match_onsets_offsets": _TR.SUITES["transcription.match_onsets_offsets"],
          "transcription.check_pairs": _TR.SUITES["transcription.check_pairs"],
          "transcription.bipartite_match": _TR.SUITES["transcription.bipartite_match"],
          "transcription_velocity.scores": _TR.SUITES["transcription_velocity.scores"],
          # multipitch per-frame true positives (raw and chroma-wrapped windows)
          "multipitch.num_true_positives": _MP.SUITES["mp_num_true_positives"]}
# stream F: hit graphs / note sets / multi-f0 frames derived from the repository's fixture files
from suites import fixtures as _FX  # noqa: E402
for _k in ("matching", "transcription", "transcription_velocity", "multipitch"):
    if _k in _FX.SUITES:
        SUITES["fixtures." + _k] = _FX.SUITES[_k]
RULE += "; " + _FX.RULE_NOTE


# ---------------------------------------------------------------------------------------------
# the property itself on the real code

def py_max_matching(adj, nr_hint=None):
    """independent augmenting-path (Kuhn) maximum matching size; adj: {u: [v...]}"""
    match_r = {}

    def try_u(u, seen):
        for v in adj.get(u, ()):
            if v in seen:
                continue
            seen.add(v)
            if v not in match_r or try_u(match_r[v], seen):
                match_r[v] = u
                return True
        return False
    size = 0
    for u in adj:
        if try_u(u, set()):
            size += 1
    return size


def check_pairs(pairs, feasible, nsize):
    us = [p[0] for p in pairs]
    vs = [p[1] for p in pairs]
    if len(set(us)) != len(us) or len(set(vs)) != len(vs):
        return "an item is used twice: %r" % (pairs,)
    for p in pairs:
        if not feasible(p):
            return "infeasible pair %r returned" % (p,)
    if len(pairs) != nsize:
        return "pairing of size %d returned but a pairing of size %d exists" % (len(pairs), nsize)
    return None


def check_bipartite(inp):
    items = [(u, list(vs)) for u, vs in inp["adj"]]
    adj = {u: vs for u, vs in items}
    pairs = run_bipartite(items)
    edges = {(u, v) for u, vs in items for v in vs}
    return check_pairs(pairs, lambda p: tuple(p) in edges, py_max_matching(adj))


def gen_bipartite(rng, tier, shard, nshards, boost):
    n = (300 if tier == "quick" else 5000) * boost
    for _ in range(n):
        items = random_graph(rng, 10 if tier == "quick" else 30)
        yield {"adj": [[u, vs] for u, vs in items]}


def check_match_events(inp):
    ref = [gen.fr(x) for x in inp["ref"]]
    est = [gen.fr(x) for x in inp["est"]]
    w = gen.fr(inp["window"])
    pairs = [(int(a), int(b)) for a, b in util.match_events(gen.arr(ref), gen.arr(est), float(w))]
    adj = {}
    for i, r in enumerate(ref):
        for j, e in enumerate(est):
            if abs(r - e) <= w:
                adj.setdefault(i, []).append(j)
    what = check_pairs(pairs, lambda p: abs(ref[p[0]] - est[p[1]]) <= w, py_max_matching(adj))
    if what:
        return what
    # order independence of the size
    perm_r = inp.get("perm_ref")
    perm_e = inp.get("perm_est")
    if perm_r is not None:
        ref2 = [ref[i] for i in perm_r]
        est2 = [est[i] for i in perm_e]
        n2 = len(util.match_events(gen.arr(ref2), gen.arr(est2), float(w)))
        if n2 != len(pairs):
            return "size %d after permuting the items, %d before" % (n2, len(pairs))
    return None


def gen_match_events(rng, tier, shard, nshards, boost):
    n = (300 if tier == "quick" else 5000) * boost
    for _ in range(n):
        ref, est, w = events_instance(rng)
        pr = list(range(len(ref)))
        pe = list(range(len(est)))
        rng.shuffle(pr)
        rng.shuffle(pe)
        yield {"ref": [str(x) for x in ref], "est": [str(x) for x in est], "window": str(w),
               "perm_ref": pr, "perm_est": pe}


def check_match_events_distance(inp):
    """match_events with an explicit distance (chroma-wrapped): the np.where(distance <= window) form"""
    ref = [gen.fr(x) for x in inp["ref"]]
    est = [gen.fr(x) for x in inp["est"]]
    w = gen.fr(inp["window"])

    def cd(a, b):
        d = abs((a % 12) - (b % 12))
        return min(d, 12 - d)
    pairs = [(int(a), int(b)) for a, b in
             util.match_events(gen.arr(ref), gen.arr(est), float(w), distance=util._outer_distance_mod_n)]
    adj = {}
    for i, r in enumerate(ref):
        for j, e in enumerate(est):
            if cd(r, e) <= w:
                adj.setdefault(i, []).append(j)
    return check_pairs(pairs, lambda p: cd(ref[p[0]], est[p[1]]) <= w, py_max_matching(adj))


def gen_match_events_distance(rng, tier, shard, nshards, boost):
    n = (200 if tier == "quick" else 3000) * boost
    for _ in range(n):
        k = rng.randint(0, 6)
        ref = [Fr(rng.randint(36 * 8, 84 * 8), 8) for _ in range(k)]
        est = [r + rng.choice([0, 12, -12, 24]) + Fr(rng.choice([-4, -2, 0, 0, 2, 4, 5]), 8) for r in ref if rng.random() < 0.8]
        est += [Fr(rng.randint(36 * 8, 84 * 8), 8) for _ in range(rng.randint(0, 2))]
        yield {"ref": [str(x) for x in ref], "est": [str(x) for x in est], "window": str(rng.choice([Fr(1, 4), Fr(1, 2), Fr(1)]))}


def _total(chk):
    """the matching routines are total on the (valid) inputs the generators produce: an exception raised inside
    mir_eval is a failure of the property on that input, not a harness error"""
    import functools
    import traceback as _tb

    @functools.wraps(chk)
    def wrapped(inp):
        try:
            return chk(inp)
        except Exception as e:  # noqa: BLE001
            frames = _tb.extract_tb(e.__traceback__)
            if any("mir_eval" in (f.filename or "") for f in frames):
                return "the matching routine raised %s: %s" % (type(e).__name__, e)
            raise
    return wrapped


def check_mp_hitcounts(inp):
    """task level: the true-positive totals that multipitch.metrics() reports (recovered from precision * #est and
    recall * #ref, raw and chroma) are the per-frame maximum matching sizes under the raw / octave-wrapped window,
    computed here in exact arithmetic from the lattice pitches -- i.e. the counts obtained INSIDE the pipeline
    (conversion to MIDI, chroma wrapping, both matchings on the same frame objects) and not only by the matching
    helper called on fresh data"""
    rt, rf, et, ef, w = _MP._parse(inp)
    if rt != et:
        return None
    ww = Fr(1, 2) if w is None else w
    s = _MP._scores(rt, rf, et, ef, w)
    n_ref = sum(len(f) for f in rf)
    n_est = sum(len(f) for f in ef)

    def total(chroma):
        tot = 0
        for r, e in zip(rf, ef):
            adj = {}
            for i, a in enumerate(r):
                for j, b in enumerate(e):
                    d = abs(a - b)
                    if chroma:
                        d = d % 12
                        d = min(d, 12 - d)
                    if d <= ww:
                        adj.setdefault(i, []).append(j)
            tot += py_max_matching(adj)
        return tot
    for name, off, chroma in (("raw", 0, False), ("chroma", 7, True)):
        want = total(chroma)
        if n_est and abs(s[off] * n_est - want) > 1e-6:
            return ("%s precision %r over %d estimated pitches means %.6f hits; the maximum one-to-one matching of "
                    "the frames has %d in total" % (name, s[off], n_est, s[off] * n_est, want))
        if n_ref and abs(s[off + 1] * n_ref - want) > 1e-6:
            return ("%s recall %r over %d reference pitches means %.6f hits; the maximum one-to-one matching of "
                    "the frames has %d in total" % (name, s[off + 1], n_ref, s[off + 1] * n_ref, want))
    return None


def check_event_hitcounts(inp):
    """task level: the hit counts behind onset.f_measure and beat.f_measure (precision * #est, recall * #ref) are the
    maximum matching size under |r - e| <= window"""
    ref = sorted(gen.fr(x) for x in inp["ref"])
    est = sorted(gen.fr(x) for x in inp["est"])
    w = gen.fr(inp["window"])
    if not ref or not est:
        return None
    adj = {}
    for i, r in enumerate(ref):
        for j, e in enumerate(est):
            if abs(r - e) <= w:
                adj.setdefault(i, []).append(j)
    want = py_max_matching(adj)
    for name, got in (("onset.f_measure", mir_eval.onset.f_measure(gen.arr(ref), gen.arr(est), window=float(w))),
                      ("beat.f_measure", (mir_eval.beat.f_measure(gen.arr(ref), gen.arr(est),
                                                                 f_measure_threshold=float(w)),))):
        if name == "beat.f_measure":
            f = float(got[0])
            fw = 2.0 * want / (len(ref) + len(est))
            if abs(f - fw) > 1e-9:
                return "%s = %r; with the maximum matching (%d hits) it is %r" % (name, f, want, fw)
            continue
        _, p, r = [float(x) for x in got]
        if abs(p * len(est) - want) > 1e-6 or abs(r * len(ref) - want) > 1e-6:
            return ("%s: precision %r / recall %r mean %.6f / %.6f hits; the maximum one-to-one matching has %d"
                    % (name, p, r, p * len(est), r * len(ref), want))
    return None


def gen_mp_hitcounts(rng, tier, shard, nshards, boost):
    for _ in range((150 if tier == "quick" else 2500) * boost):
        kind, rt, rf, et, ef, w = _MP.instance(rng, "equal")
        if rt == et:
            yield _MP._json(kind, rt, rf, et, ef, w)


CHECKERS = {"util._bipartite_match": check_bipartite, "util.match_events": check_match_events,
            "util.match_events(distance)": check_match_events_distance,
            "multipitch.metrics(hit counts)": check_mp_hitcounts,
            "onset/beat.f_measure(hit counts)": check_event_hitcounts}
ORACLES = {"util._bipartite_match": gen_bipartite, "util.match_events": gen_match_events,
           "util.match_events(distance)": gen_match_events_distance,
           "multipitch.metrics(hit counts)": gen_mp_hitcounts,
           "onset/beat.f_measure(hit counts)": gen_match_events}


def classify(suite, d):
    i = d.get("info") or {}
    if suite == "fixtures.matching":
        if "adj" in i:
            return "util._bipartite_match", {"adj": i["adj"]}
        return "util.match_events", {"ref": i["ref"], "est": i["est"], "window": i["window"]}
    if suite.startswith("transcription") or suite.startswith("fixtures.transcription"):
        from props import t_transcription
        return t_transcription.classify(suite, d)
    if suite in ("exhaustive_graphs", "random_graphs") or suite.startswith("hk."):
        return "util._bipartite_match", {"adj": i["adj"]}
    if suite in ("match_events", "fast_hit_windows"):
        return "util.match_events", {"ref": i["ref"], "est": i["est"], "window": i["window"]}
    return None

from props import _relational  # noqa: E402
_xc, _xo = _relational.extra(PID)
CHECKERS.update(_xc)
ORACLES.update(_xo)
CHECKERS = {site: _total(chk) for site, chk in CHECKERS.items()}
