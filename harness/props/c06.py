"""C06 — relational property (role swap) over every task's evaluate(); see DESIGN.md §5 C06."""
import glob
import os

from fractions import Fraction as Fr

import mir_eval

import relcheck as R
import suites as SU
from core import Case
from props import _relational

PID = "C06"
# C06 hosts the tie-by-regeneration of util.f_measure: harness/translate/scalars.py re-emits lean/MirGen/Scalars.lean from
# the source on every run and Props/C06_Gen.lean proves `Mir.Gen.util.f_measure = <hand model>` for all arguments
TRANSLATOR_PARTS = ["scalars"]
_here = os.path.dirname(os.path.abspath(__file__))
_props = os.path.join(os.path.dirname(os.path.dirname(_here)), "lean", "MirProofs", "Props")
LEAN_MODULES = ["MirProofs.Props.C06"] + sorted(
    "MirProofs.Props." + os.path.basename(f)[:-5] for f in glob.glob(os.path.join(_props, "C06_*.lean")))
RULE = ("valid (reference, estimate) pairs per task on the exact 1/32 s lattice (pitch on a 1/8-semitone lattice), "
        "biased to degenerate shapes (empty, single, duplicated, clustered, one-label, all-distinct-label); the "
        "role swap relation is checked on the real evaluate(); correspondence = value agreement of the modelled "
        "metric functions with the real ones; non-trivial = both sides non-empty")
ASSUMPTIONS = ["theorems are about the Lean model; they transfer to the code where the correspondence suites agree",
               "binary64 on the exact lattice performs the modelled rational comparisons exactly"]
UNPROVED = [
    "C06.Segment (entropy-based scores): NMI / AMI symmetry and NCE / V over<->under are theorems about the "
    "real-number reading of the model; that binary64 summation in the exchanged order stays within 1e-9 is "
    "checked by the swap oracle, not proved",
]
SUITES, _classifiers = SU.load_all()
CHECKERS, ORACLES = _relational.make(R.check_swap, self_inputs=False)
_xc, _xo = _relational.extra(PID)
CHECKERS.update(_xc)
ORACLES.update(_xo)


# ----------------------------------------------------------------------------------------
# util.f_measure as REGENERATED from the source (driver op `gen.scalar`) vs the real function: exercises the translator's
# own semantic assumptions (float `/` raising ZeroDivisionError, `**`, the `== 0 and == 0` corner) on the exact lattice

_BETAS = [Fr(1), Fr(1, 2), Fr(2), Fr(1, 4), Fr(4), Fr(3), Fr(3, 2), Fr(0), Fr(-1, 2)]


def _fm_case(p, r, b, tag):
    return Case("gen.scalar", ["util.f_measure", p, r, b],
                lambda p=p, r=r, b=b: mir_eval.util.f_measure(float(p), float(r), float(b)),
                tag=tag, info={"p": str(p), "r": str(r), "beta": str(b)}, nontrivial=(p != 0 or r != 0))


def suite_gen_f_measure(rng, tier, shard, nshards):
    cases = []
    for b in _BETAS:                       # the corners, for every beta
        cases.append(_fm_case(Fr(0), Fr(0), b, "corner p=r=0"))
        cases.append(_fm_case(Fr(1), Fr(1), b, "corner p=r=1"))
        cases.append(_fm_case(Fr(1, 2), Fr(0), b, "corner r=0"))      # beta = 0: ZeroDivisionError
        cases.append(_fm_case(Fr(0), Fr(1, 2), b, "corner p=0"))
    cases.append(_fm_case(Fr(1), Fr(-1), Fr(1), "corner p+r=0"))       # ZeroDivisionError off the documented domain
    n = 60 if tier == "quick" else 3000
    for _ in range(n):
        p, r = Fr(rng.randint(0, 32), 32), Fr(rng.randint(0, 32), 32)
        b = rng.choice(_BETAS)
        cases.append(_fm_case(p, r, b, "beta=%s" % b))
    for i, c in enumerate(cases):
        if i % nshards == shard:
            yield c


SUITES["gen_scalar.f_measure"] = suite_gen_f_measure


def check_f_measure_swap(inp):
    """C06 on util.f_measure itself (real code): exchanging precision and recall while exchanging the weight beta for
    1/beta does not change F (at beta = 1: plain symmetry); the zero corner returns 0 in both orders."""
    p, r, b = float(Fr(inp["p"])), float(Fr(inp["r"])), float(Fr(inp["beta"]))
    if not (p >= 0 and r >= 0 and b > 0):
        return None
    try:
        a = mir_eval.util.f_measure(p, r, b)
        c = mir_eval.util.f_measure(r, p, 1.0 / b)
    except Exception as e:  # noqa: BLE001
        return "f_measure raises %s on precision=%r recall=%r beta=%r (or swapped)" % (type(e).__name__, p, r, b)
    if not abs(a - c) <= 1e-9:
        return "f_measure(%r, %r, %r) = %r but f_measure(%r, %r, %r) = %r" % (p, r, b, a, r, p, 1.0 / b, c)
    if p == 0 and r == 0 and a != 0:
        return "f_measure(0, 0, %r) = %r" % (b, a)
    return None


def gen_f_measure_swap(rng, tier, shard, nshards, boost):
    n = (40 if tier == "quick" else 2000) * boost
    yield {"p": "0", "r": "0", "beta": "1"}
    for _ in range(n):
        yield {"p": str(Fr(rng.randint(0, 32), 32)), "r": str(Fr(rng.randint(0, 32), 32)),
               "beta": str(rng.choice([Fr(1), Fr(1), Fr(1, 2), Fr(2), Fr(1, 4), Fr(4)]))}


CHECKERS["util.f_measure:swap"] = check_f_measure_swap
ORACLES["util.f_measure:swap"] = gen_f_measure_swap


def classify(suite, d):
    """a disagreeing gen.scalar case is tried against the swap relation on the real code"""
    if suite == "gen_scalar.f_measure":
        return "util.f_measure:swap", dict(d["info"])
    return None
