"""C07 — relational property (widening / nesting) over every task's evaluate(); see DESIGN.md §5 C07."""
import glob
import os

import relcheck as R
import suites as SU
from props import _relational

PID = "C07"
# util.f_measure is also REGENERATED from the source (harness/translate/scalars.py -> lean/MirGen/Scalars.lean); Props/C07_Gen.lean restates
# the property on the generated definition through C06_Gen.f_measure_eq_model
TRANSLATOR_PARTS = ["scalars"]
# the event-metric glue is REGENERATED too (translate/evglue.py); Props/C07_GenGlue.lean states the widening theorems on the
# translated onset.f_measure / beat.f_measure / segment.detection / tempo.detection (the tie itself is audited by C04)
TRANSLATOR_PARTS += ["evglue"]
_here = os.path.dirname(os.path.abspath(__file__))
_props = os.path.join(os.path.dirname(os.path.dirname(_here)), "lean", "MirProofs", "Props")
LEAN_MODULES = ["MirProofs.Props.C07"] + sorted(
    "MirProofs.Props." + os.path.basename(f)[:-5] for f in glob.glob(os.path.join(_props, "C07_*.lean")))
RULE = ("valid (reference, estimate) pairs per task on the exact 1/32 s lattice (pitch on a 1/8-semitone lattice), "
        "biased to degenerate shapes (empty, single, duplicated, clustered, one-label, all-distinct-label); the "
        "widening / nesting relation is checked on the real evaluate(); correspondence = value agreement of the modelled "
        "metric functions with the real ones; non-trivial = both sides non-empty")
ASSUMPTIONS = ["theorems are about the Lean model; they transfer to the code where the correspondence suites agree",
               "binary64 on the exact lattice performs the modelled rational comparisons exactly"]
UNPROVED = []
SUITES, _classifiers = SU.load_all()
CHECKERS, ORACLES = _relational.make(R.check_widen, self_inputs=False)
_xc, _xo = _relational.extra(PID)
CHECKERS.update(_xc)
ORACLES.update(_xo)
