"""C08 — relational property (shift / permutation / relabelling) over every task's evaluate(); see DESIGN.md §5 C08."""
import glob
import os

import relcheck as R
import suites as SU
from props import _relational

PID = "C08"
_here = os.path.dirname(os.path.abspath(__file__))
_props = os.path.join(os.path.dirname(os.path.dirname(_here)), "lean", "MirProofs", "Props")
LEAN_MODULES = ["MirProofs.Props.C08"] + sorted(
    "MirProofs.Props." + os.path.basename(f)[:-5] for f in glob.glob(os.path.join(_props, "C08_*.lean")))
RULE = ("valid (reference, estimate) pairs per task on the exact 1/32 s lattice (pitch on a 1/8-semitone lattice), "
        "biased to degenerate shapes (empty, single, duplicated, clustered, one-label, all-distinct-label); the "
        "shift / permutation / relabelling relation is checked on the real evaluate(); correspondence = value agreement of the modelled "
        "metric functions with the real ones; non-trivial = both sides non-empty")
ASSUMPTIONS = ["theorems are about the Lean model; they transfer to the code where the correspondence suites agree",
               "binary64 on the exact lattice performs the modelled rational comparisons exactly"]
UNPROVED = [
    "C08.Segment (entropy-based scores): relabelling invariance of MI / NMI / AMI / NCE / V is proved for the "
    "real-number reading of the model (the table is permuted, sums are re-ordered); binary64 re-ordering effects "
    "are checked by the relabelling oracle at 1e-9, not proved",
]
SUITES, _classifiers = SU.load_all()
CHECKERS, ORACLES = _relational.make(R.check_invariance, self_inputs=False)
_xc, _xo = _relational.extra(PID)
CHECKERS.update(_xc)
ORACLES.update(_xo)
RULE += ("; segment / hierarchy annotations are also drawn NON-contiguous (an interior gap - frames without any label - "
         "or an overlap; still valid for validate_structure), and label renamings include ones that reverse the sort "
         "order of the labels")
