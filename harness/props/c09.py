"""C09 — pitch spelling, joint transposition and octave are handled as documented.

This module is organised by sections; each section adds entries to SUITES / CHECKERS / ORACLES.
  §1 chords (12 comparison rules, chord.evaluate, pitch_class_to_semitone)          [this slice]
  §2 keys (key.weighted_score)                                                       [this slice]
  §3 melody / multipitch / transcription frequency scaling and octave shifts         [to be appended]
"""
from fractions import Fraction as Fr

import numpy as np

import mir_eval
import mir_eval.chord
import mir_eval.key

import chordlabels as cl
from core import Case

PID = "C09"
LEAN_MODULES = ["MirProofs.Props.C09"]
# C09_Gen restates the root-spelling theorems on chord.pitch_class_to_semitone as REGENERATED from the source
TRANSLATOR_PARTS = ["tables", "scalars_chord"]
RULE = ("chords: label pairs from the C11 pool, all 12 transpositions x 3 spellings (sharps, flats, exotic "
        "double accidentals); short label sequences on a 1/32 s lattice for chord.evaluate; "
        "keys: ALL ordered pairs of the 134 valid key strings (17 spellings x case variants x 3 modes + X/x), each "
        "under every transposition and respelling; non-trivial = roots/tonics related (score not forced to 0)")
ASSUMPTIONS = [
    "key strings are ASCII (Python's str.split / str.lower are Unicode-aware; the model's are ASCII)",
    "chord labels reach the rules only through chord.encode_many; label-level transposition equals the model's "
    "transposeEnc by theorem (C09_Labels.encode_transpose, on the C10 encode model) and by the correspondence suite "
    "chord_transpose_enc on the real encoder",
    "transpose_evaluate (C09_Evaluate) is about ChordEval.evaluateStr, the model of chord.evaluate on label strings "
    "(two encoders: reduced for fusing neighbours, non-reduced for the 12 rules), tied to the real function by the "
    "correspondence suite chord_evaluate (all 15 scores / exception class on the 1/32 s lattice); the labels it "
    "quantifies over are the grammar trees of C10 rendered to strings (every label the chord grammar accepts)",
]
UNPROVED = []
EXHAUSTIVE = {"quick": True, "thorough": True}

SUITES, CHECKERS, ORACLES = {}, {}, {}

# =====================================================================================================
# §1 chords
# =====================================================================================================

PITCH_STRINGS_BAD = ["", "H", "c", "#", "b", "#C", "bB", "Cx", "C#x", "Cb#", "C #", "H#", "Hb", "Hx", "C##b",
                     "Gbbbbbbbbbbbbb", "A############", "N", "X", "1", "C1", "C:maj", "B♭"]


def suite_pitch_class(rng, tier, shard, nshards):
    """pitch_class_to_semitone: every letter x accidental runs (pure and mixed) up to length 6, random long runs,
    malformed strings (exception class compared)"""
    strings = []
    for L in "ABCDEFG":
        for n in range(0, 7):
            strings.append(L + "#" * n)
            strings.append(L + "b" * n)
        for _ in range(6 if tier == "quick" else 60):
            strings.append(L + "".join(rng.choice("#b") for _ in range(rng.randint(2, 30))))
    strings += PITCH_STRINGS_BAD
    for i, s in enumerate(strings):
        if i % nshards != shard:
            continue
        yield Case("chord.pitch_class_to_semitone", [s],
                   lambda s=s: mir_eval.chord.pitch_class_to_semitone(s),
                   tag="valid" if (s and s[0] in "ABCDEFG" and set(s[1:]) <= set("#b")) else "malformed",
                   info={"s": s}, nontrivial=len(s) > 1)


def suite_chord_transpose_enc(rng, tier, shard, nshards):
    """ties label-level transposition / respelling to the model: transposeEnc k (encode l) must be what the REAL
    encoder returns for the transposed, respelled label"""
    labs = cl.pool()
    n = (4000 if tier == "quick" else 80000) // nshards
    for _ in range(n):
        lab = labs[rng.randrange(len(labs))]
        k = rng.randrange(-24, 25)
        sp = rng.randrange(3)
        yield Case("chord.transpose_enc", [k, cl.enc_arg(lab)],
                   lambda lab=lab, k=k, sp=sp: _enc_list(cl.transpose_label(lab, k, sp)),
                   tag="spelling%d" % sp, info={"label": lab, "k": k, "spelling": sp},
                   nontrivial=lab not in ("N", "X") and k % 12 != 0)


def _enc_list(label):
    r, bm, b = mir_eval.chord.encode(label)
    return [int(r), [int(x) for x in bm], int(b)]


def suite_rules_transposed(rng, tier, shard, nshards):
    """the 12 rules on transposed + respelled pairs: model on the re-encoded labels vs the real functions"""
    n = (16000 if tier == "quick" else 320000) // nshards
    pairs = []
    for _ in range(n):
        ref, est = cl.draw_pair(rng)
        k = rng.randrange(12)
        pairs.append((cl.transpose_label(ref, k, rng.randrange(3)), cl.transpose_label(est, k, rng.randrange(3))))
    for i in range(0, len(pairs), 64):
        chunk = pairs[i:i + 64]
        refs = [p[0] for p in chunk]
        ests = [p[1] for p in chunk]
        yield Case("chord.compare_all", [[cl.enc_arg(r) for r in refs], [cl.enc_arg(e) for e in ests]],
                   lambda refs=refs, ests=ests: [cl.rule_fn(r)(refs, ests) for r in cl.RULES],
                   tag="transposed-batch", info={"ref": refs, "est": ests},
                   nontrivial=any(cl.enc(r)[0] == cl.enc(e)[0] for r, e in chunk))


SUITES.update({"pitch_class": suite_pitch_class, "chord_transpose_enc": suite_chord_transpose_enc,
               "rules_transposed": suite_rules_transposed})


def check_chord_transpose(inp):
    """all 12 rules: respelling and joint transposition by every interval leave the comparison unchanged"""
    ref, est = inp["ref"], inp["est"]
    base = {r: float(cl.rule_fn(r)([ref], [est])[0]) for r in cl.RULES}
    refs, ests, desc = [], [], []
    for k in range(12):
        for sp_r, sp_e in ((0, 0), (1, 1), (0, 1), (2, 1), (1, 2)):
            refs.append(cl.transpose_label(ref, k, sp_r))
            ests.append(cl.transpose_label(est, k, sp_e))
            desc.append((k, sp_r, sp_e))
    # pure respellings of one side only
    for sp in range(3):
        refs.append(cl.respell_label(ref, sp)); ests.append(est); desc.append((0, sp, None))
        refs.append(ref); ests.append(cl.respell_label(est, sp)); desc.append((0, None, sp))
    for r in cl.RULES:
        got = cl.rule_fn(r)(refs, ests)
        for g, rr, ee, d in zip(got, refs, ests, desc):
            if float(g) != base[r]:
                return "%s(%r,%r) = %r but %s(%r,%r) = %r (transposition %d, spellings %r/%r)" % (
                    r, ref, est, base[r], r, rr, ee, float(g), d[0], d[1], d[2])
    return None


def gen_chord_transpose(rng, tier, shard, nshards, boost):
    p = cl.pool()
    for i, ref in enumerate(p):
        if i % nshards == shard and (tier == "thorough" or i % 4 == 0):
            yield {"ref": ref, "est": cl.draw_pair(rng)[1]}
    n = (2400 if tier == "quick" else 48000) * boost // nshards
    for _ in range(n):
        ref, est = cl.draw_pair(rng)
        yield {"ref": ref, "est": est}


def _evaluate(ri, rl, ei, el):
    try:
        d = mir_eval.chord.evaluate(np.array(ri, dtype=float).reshape(-1, 2), list(rl),
                                    np.array(ei, dtype=float).reshape(-1, 2), list(el))
        return {k: float(v) for k, v in d.items()}
    except Exception as e:  # noqa: BLE001 - the class is the observation
        return "raises " + type(e).__name__


def check_chord_evaluate(inp):
    """chord.evaluate (all 15 scores) on a short annotation pair is unchanged by respelling and by transposing
    reference and estimate together"""
    ri, rl, ei, el = inp["ref_intervals"], inp["ref_labels"], inp["est_intervals"], inp["est_labels"]
    base = _evaluate(ri, rl, ei, el)
    for k, sp_r, sp_e in inp["variants"]:
        rl2 = [cl.transpose_label(x, k, sp_r) for x in rl]
        el2 = [cl.transpose_label(x, k, sp_e) for x in el]
        got = _evaluate(ri, rl2, ei, el2)
        if isinstance(base, str) or isinstance(got, str):
            if base != got:
                return "evaluate: %r before, %r after transposition by %d (spellings %d/%d)" % (base, got, k, sp_r, sp_e)
            continue
        if list(base.keys()) != list(got.keys()):
            return "evaluate: keys changed under transposition"
        for name in base:
            a, b = base[name], got[name]
            if not (a == b or abs(a - b) <= 1e-12 or (a != a and b != b)):
                return "evaluate[%r] = %r, after transposing both by %d (spellings %d/%d): %r" % (name, a, k, sp_r, sp_e, b)
    return None


def _lattice_intervals(rng, n, start):
    t = start
    out = []
    for _ in range(n):
        d = rng.randint(1, 96)
        out.append([t / 32.0, (t + d) / 32.0])
        t += d
    return out


_SHARPS = ["C", "C#", "D", "D#", "E", "F", "F#", "G", "G#", "A", "A#", "B"]
# chord tones of some shorthands as (degree, semitones above the root)
_TONES = {"maj": [("1", 0), ("3", 4), ("5", 7)], "min": [("1", 0), ("b3", 3), ("5", 7)],
          "7": [("1", 0), ("3", 4), ("5", 7), ("b7", 10)], "maj7": [("1", 0), ("3", 4), ("5", 7), ("7", 11)],
          "min7": [("1", 0), ("b3", 3), ("5", 7), ("b7", 10)], "dim": [("1", 0), ("b3", 3), ("b5", 6)],
          "aug": [("1", 0), ("3", 4), ("#5", 8)], "sus4": [("1", 0), ("4", 5), ("5", 7)]}


def pedal_pair(rng):
    """two neighbouring chords of the same shape over ONE sounding bass note (a pedal): the root moves by exactly the
    interval by which the bass degree moves the other way, e.g. C:maj/5 -> G:maj, A:min/b3 -> C:min. They are different
    chords in every key; which of root / bass changed, and by how much, depends on the key they are spelled in"""
    q = rng.choice(sorted(_TONES))
    (d1, i1), (d2, i2) = rng.sample(_TONES[q], 2)
    p = rng.randrange(12)
    lab = lambda d, i: "%s:%s" % (_SHARPS[(p - i) % 12], q) + ("" if d == "1" else "/" + d)
    return lab(d1, i1), lab(d2, i2)


def gen_chord_evaluate(rng, tier, shard, nshards, boost):
    n = (1200 if tier == "quick" else 24000) * boost // nshards
    for _ in range(n):
        if rng.random() < 0.25:
            # pedal-bass neighbours on one side, the same chords in root position / differently cut on the other
            nr = rng.randint(2, 5)
            ri = _lattice_intervals(rng, nr, 0)
            rl = [cl.draw_pair(rng)[0] for _ in range(nr)]
            j = rng.randrange(nr - 1)
            rl[j], rl[j + 1] = pedal_pair(rng)
            ei = _lattice_intervals(rng, rng.randint(1, 5), rng.choice([0, 0, 8]))
            el = [rng.choice([rl[min(k, nr - 1)], rl[min(k, nr - 1)].split("/")[0], cl.draw_pair(rng)[1]])
                  for k in range(len(ei))]
            if rng.random() < 0.5:
                ri, rl, ei, el = ei, el, ri, rl
            variants = [[rng.randrange(12), rng.randrange(3), rng.randrange(3)] for _ in range(4)] + [[0, 1, 2]]
            yield {"ref_intervals": ri, "ref_labels": rl, "est_intervals": ei, "est_labels": el, "variants": variants}
            continue
        nr, ne = rng.randint(1, 6), rng.randint(1, 6)
        ri = _lattice_intervals(rng, nr, rng.choice([0, 0, 16]))
        ei = _lattice_intervals(rng, ne, rng.choice([0, 0, 8, 40]))
        rl, el = [], []
        for _ in range(nr):
            rl.append(cl.draw_pair(rng)[0])
        for j in range(ne):
            # estimates related to some reference label, so that scores are not all 0
            base = rl[min(j, nr - 1)]
            el.append(rng.choice([base, cl.draw_pair(rng)[1], cl.respell_label(base, rng.randrange(3))]))
        variants = [[rng.randrange(12), rng.randrange(3), rng.randrange(3)] for _ in range(3)] + [[0, 1, 2]]
        yield {"ref_intervals": ri, "ref_labels": rl, "est_intervals": ei, "est_labels": el, "variants": variants}


_EVAL_KEYS = ["thirds", "thirds_inv", "triads", "triads_inv", "tetrads", "tetrads_inv", "root", "mirex", "majmin",
              "majmin_inv", "sevenths", "sevenths_inv", "underseg", "overseg", "seg"]
# neighbours that the fusing key (encode_many(labels, True): extended chords reduced) and the compared encoding
# (encode_many(labels, False)) treat differently
_REDUCE_QUIRKS = [["C:9", "C:7"], ["C:9", "C:7(9)"], ["D:maj9", "D:maj7(9)"], ["E:min11", "E:min7"],
                  ["F#:13", "Gb:13"], ["A:min9", "A:min7(9)"], ["G:7", "G:7(9)"], ["Bb:maj13", "Bb:maj7"]]
_BAD_LABELS = ["H:maj", "C:foo", "C:maj/15", "", "c", "C:maj11", "C:aug7"]


def _py_evaluate_all(ri, rl, ei, el):
    d = mir_eval.chord.evaluate(np.array([[float(s), float(e)] for s, e in ri], dtype=float).reshape(-1, 2), list(rl),
                                np.array([[float(s), float(e)] for s, e in ei], dtype=float).reshape(-1, 2), list(el))
    if list(d.keys()) != _EVAL_KEYS:
        raise AssertionError("chord.evaluate keys: %r" % list(d.keys()))
    return [float(d[k]) for k in _EVAL_KEYS]


def _frac_intervals(rng, n, start, contiguous=True):
    t = start
    out = []
    for _ in range(n):
        if not contiguous and rng.random() < 0.3:
            t += rng.randint(1, 24)
        d = rng.randint(1, 96)
        out.append([Fr(t, 32), Fr(t + d, 32)])
        t += d
    return out


def suite_chord_evaluate(rng, tier, shard, nshards):
    """chord.evaluate on LABEL STRINGS (all 15 scores, or the exception class): the model evaluateStr — adjust the
    estimate to the reference span with 'N', fuse neighbours by the REDUCED encoding, merge, durations, the 12 rules on
    the NON-reduced encoding, under/overseg/seg — against the real function, on the 1/32 s lattice; estimates that
    start late / end early / lie outside the span, gaps, repeated and respelled neighbours, the reduce quirk pairs,
    and labels that do not encode (in and outside the reference span)"""
    n = (500 if tier == "quick" else 10000) // nshards
    p = cl.pool()
    for _ in range(n):
        nr, ne = rng.randint(1, 6), rng.randint(0 if rng.random() < 0.04 else 1, 6)
        ri = _frac_intervals(rng, nr, rng.choice([0, 0, 16]))
        ei = _frac_intervals(rng, ne, rng.choice([0, 0, 8, 40, 400]), contiguous=rng.random() < 0.8)
        rl = []
        for _ in range(nr):
            u = rng.random()
            if rl and u < 0.25:
                rl.append(rng.choice([rl[-1], cl.respell_label(rl[-1], rng.randrange(3))]))
            elif u < 0.35:
                q = rng.choice(_REDUCE_QUIRKS)
                rl.append(q[rng.randrange(2)])
            else:
                rl.append(cl.draw_pair(rng)[0])
        el = []
        for j in range(ne):
            base = rl[min(j, nr - 1)]
            u = rng.random()
            if el and u < 0.2:
                el.append(rng.choice([el[-1], cl.respell_label(el[-1], rng.randrange(3))]))
            elif u < 0.3:
                q = rng.choice(_REDUCE_QUIRKS)
                el.append(q[rng.randrange(2)])
            else:
                el.append(rng.choice([base, cl.draw_pair(rng)[1], cl.respell_label(base, rng.randrange(3)),
                                      p[rng.randrange(len(p))]]))
        tag = "valid"
        if rng.random() < 0.08:
            which = rng.random()
            if which < 0.5 and el:
                el[rng.randrange(len(el))] = rng.choice(_BAD_LABELS)
            else:
                rl[rng.randrange(len(rl))] = rng.choice(_BAD_LABELS)
            tag = "bad-label"
        if rng.random() < 0.5:
            k, sr, se = rng.randrange(12), rng.randrange(3), rng.randrange(3)
            rl = [cl.transpose_label(x, k, sr) if cl.enc(x) is not None else x for x in rl]
            el = [cl.transpose_label(x, k, se) if cl.enc(x) is not None else x for x in el]
            tag += "-transposed"
        yield Case("chord.evaluate", [ri, rl, ei, el],
                   lambda ri=ri, rl=rl, ei=ei, el=el: _py_evaluate_all(ri, rl, ei, el),
                   tol=1e-9, tag=tag,
                   info={"ref_intervals": [[str(s), str(e)] for s, e in ri], "ref_labels": rl,
                         "est_intervals": [[str(s), str(e)] for s, e in ei], "est_labels": el},
                   nontrivial=len(set(rl) & set(el)) > 0)


SUITES.update({"chord_evaluate": suite_chord_evaluate})
CHECKERS.update({"chord.transpose": check_chord_transpose, "chord.evaluate": check_chord_evaluate})
ORACLES.update({"chord.transpose": gen_chord_transpose, "chord.evaluate": gen_chord_evaluate})

# =====================================================================================================
# §2 keys
# =====================================================================================================

KEY_STRINGS_BAD = ["", " ", "C", "major", "C major minor", "H major", "C Major", "C MAJOR", "x major", "X other",
                   "X minor", " x", "x ", "xx", "C# maj", "Cb major", "E# minor", "C## major", "C  major",
                   "\tC\nmajor ", "  c   minor", "C\x1fmajor", "C\x0bother", "c#major", "C #major", "N", "other C",
                   "C other", "c OTHER"]


def suite_key_pairs(rng, tier, shard, nshards):
    """ALL ordered pairs of valid key strings (both tiers)"""
    keys = cl.all_keys()
    idx = 0
    for r in keys:
        for e in keys:
            idx += 1
            if idx % nshards != shard:
                continue
            rs, rm = cl.key_parts(r)
            es, em = cl.key_parts(e)
            related = rs is not None and es is not None and (es - rs) % 12 in (0, 3, 7, 9)
            yield Case("key.weighted_score", [r, e], lambda r=r, e=e: mir_eval.key.weighted_score(r, e),
                       tag="%s/%s" % (rm, em), info={"ref": r, "est": e}, nontrivial=related)


def suite_key_malformed(rng, tier, shard, nshards):
    """validate_key's error behaviour (exception class) and its whitespace handling"""
    keys = cl.all_keys()
    cases = []
    for b in KEY_STRINGS_BAD:
        cases.append((b, keys[rng.randrange(len(keys))]))
        cases.append((keys[rng.randrange(len(keys))], b))
        cases.append((b, b))
    for i, (r, e) in enumerate(cases):
        if i % nshards != shard:
            continue
        yield Case("key.weighted_score", [r, e], lambda r=r, e=e: mir_eval.key.weighted_score(r, e),
                   tag="malformed", info={"ref": r, "est": e}, nontrivial=True)
    for i, b in enumerate(KEY_STRINGS_BAD + list(keys[:20])):
        if i % nshards != shard:
            continue
        yield Case("key.validate_key", [b], lambda b=b: mir_eval.key.validate_key(b),
                   tag="validate_key", info={"key": b}, nontrivial=True)


SUITES.update({"key_pairs": suite_key_pairs, "key_malformed": suite_key_malformed})


def check_key(inp):
    """one key pair: value set; documented table (major/minor/X); the tonic's letter case, enharmonic respelling
    and joint transposition by every interval leave the score unchanged"""
    ref, est = inp["ref"], inp["est"]
    ws = mir_eval.key.weighted_score
    base = ws(ref, est)
    if base not in (0.0, 0.2, 0.3, 0.5, 1.0):
        return "weighted_score(%r,%r) = %r not in {0,0.2,0.3,0.5,1}" % (ref, est, base)
    want = cl.key_table(ref, est)
    if want is not None and base != want:
        return "weighted_score(%r,%r) = %r, documented table says %r" % (ref, est, base, want)
    ev = mir_eval.key.evaluate(ref, est)
    if list(ev.keys()) != ["Weighted Score"] or ev["Weighted Score"] != base:
        return "key.evaluate(%r,%r) = %r differs from weighted_score %r" % (ref, est, dict(ev), base)
    rs, rm = cl.key_parts(ref)
    es, em = cl.key_parts(est)

    def spellings(s, mode):
        if s is None:
            return ["X", "x"]
        out = []
        for nm, v in cl.KEY_SEMITONE.items():
            if v == s:
                out += [c + " " + mode for c in cl.case_variants(nm)]
        return out

    for r2 in spellings(rs, rm):
        for e2 in spellings(es, em):
            got = ws(r2, e2)
            if got != base:
                return "weighted_score(%r,%r) = %r but respelled (%r,%r) = %r" % (ref, est, base, r2, e2, got)
    for k in range(12):
        for fr, fe in ((False, False), (True, True), (False, True), (True, False)):
            r2, e2 = cl.transpose_key(ref, k, fr), cl.transpose_key(est, k, fe)
            got = ws(r2, e2)
            if got != base:
                return "weighted_score(%r,%r) = %r but transposed by %d (%r,%r) = %r" % (ref, est, base, k, r2, e2, got)
    return None


def gen_key(rng, tier, shard, nshards, boost):
    """exhaustive over all ordered pairs of valid key strings"""
    keys = cl.all_keys()
    idx = 0
    for r in keys:
        for e in keys:
            idx += 1
            if idx % nshards == shard:
                yield {"ref": r, "est": e}


CHECKERS.update({"key.weighted_score": check_key})
ORACLES.update({"key.weighted_score": gen_key})


# =====================================================================================================

def classify(suite, d):
    i = d["info"] or {}
    if suite in ("key_pairs",):
        return "key.weighted_score", {"ref": i["ref"], "est": i["est"]}
    if suite == "rules_transposed":
        import re
        m = re.match(r"\[(\d+)\]\[(\d+)\]", d.get("diff") or "")
        k = int(m.group(2)) if m and int(m.group(2)) < len(i["ref"]) else 0
        return "chord.transpose", {"ref": i["ref"][k], "est": i["est"][k]}
    if suite == "chord_transpose_enc":
        return "chord.transpose", {"ref": i["label"], "est": i["label"]}
    if suite == "chord_evaluate":
        # a model/code disagreement on chord.evaluate: search this very annotation pair for a transposition /
        # respelling that changes the real scores (every interval, the three spellings)
        if any(cl.enc(x) is None for x in i["ref_labels"] + i["est_labels"]):
            return None
        fr = lambda rows: [[float(Fr(a)), float(Fr(b))] for a, b in rows]  # noqa: E731
        variants = [[k, sp, (sp + k) % 3] for k in range(12) for sp in range(3)]
        return "chord.evaluate", {"ref_intervals": fr(i["ref_intervals"]), "ref_labels": i["ref_labels"],
                                  "est_intervals": fr(i["est_intervals"]), "est_labels": i["est_labels"],
                                  "variants": variants}
    return None


# ---------------------------------------------------------------------------------------------
# §3 pitch part: joint frequency scaling, octave shift of the estimate, negated melody estimates
# (theorems in Props/C09_<Task>.lean; value correspondence of the melody / multipitch / transcription models)
import glob as _glob  # noqa: E402
import os as _os  # noqa: E402

import suites as _SU  # noqa: E402
from props import _pitch, _relational  # noqa: E402

_props = _os.path.join(_os.path.dirname(_os.path.dirname(_os.path.dirname(_os.path.abspath(__file__)))),
                       "lean", "MirProofs", "Props")
LEAN_MODULES = ["MirProofs.Props.C09"] + sorted(
    "MirProofs.Props." + _os.path.basename(f)[:-5] for f in _glob.glob(_os.path.join(_props, "C09_*.lean")))
_s, _c = _SU.load_all(only=["melody", "multipitch", "transcription"])
SUITES.update(_s)
_pc, _po = _pitch.make()
CHECKERS.update(_pc)
ORACLES.update(_po)
_xc, _xo = _relational.extra(PID)
CHECKERS.update(_xc)
ORACLES.update(_xo)
UNPROVED = [u for u in UNPROVED if "pitch-scaling" not in u and "§3" not in u]
