"""C10 — chord labels: total parsing, sound encoding, split/join round trip  (DESIGN.md §5 C10).

Correspondence (model `MirModel.Chord.*` vs the real `mir_eval.chord`):
  re_match    `CHORD_RE.match` vs the REGENERATED regex (`MirGen/ChordRe.lean`, harness/translate/regex.py) run by the
              proved matcher `Rx.matchPrefix` (op chord.re_match), and its `$`-variant vs the same pattern compiled with
              `$` (op chord.re_match_dollar): this is the check that Python's `re` implements the regex semantics
              `Rx.Matches` -- labels, mutations, all short strings, trailing / embedded newlines, NUL, other line
              separators, non-ASCII look-alikes, accidental runs of several thousand characters, long degree lists
  rx          random small patterns over every construct the translator supports (classes, negated classes, `.`, groups,
              alternation, greedy / lazy `* + ? {m,n} {m,}`, `^ \\A $ \\Z` anywhere, bodies that match the empty word):
              `re.compile(p).match / fullmatch` vs the Lean matcher on the translator's reading of Python's parse tree
  accept      `CHORD_RE.match` vs the model of the regex (`reMatch`), and the Lean grammar recogniser
              (`recognize`) vs the harness's own recursive-descent reference grammar, on every
              grammar-derivable label up to a depth (sampled in quick, enumerated in thorough), every short
              string over the label alphabet, random deeper labels and one-character mutations
  encode      split / join∘split / encode (reduce × strict) / encode_many: values and exception classes
  join        join on recombined / damaged parts
  primitives  pitch_class_to_semitone, scale_degree_to_semitone, scale_degree_to_bitmap, quality_to_bitmap,
              reduce_extended_quality on table keys and arbitrary strings
  gen_chordfn the definitions REGENERATED from the source on this run (lean/MirGen/ChordFns.lean, harness/translate/
              scalars_chordfn.py; driver op gen.chordfn) of validate_chord_label / split / join / encode /
              reduce_extended_quality / scale_degree_to_bitmap (any length) / quality_to_bitmap vs the real functions on the
              same label streams (valid, single-fault, accidental runs of 11..61), damaged join parts, arbitrary strings;
              Props/C10_GenFns.lean proves them equal to the hand-written models, so this suite checks the translator and
              its run-time library (MirModel/PyChord.lean), the suites above check the models
Oracle (real code only): nothing but InvalidChordException escapes validate/split/encode for ANY string;
acceptance = the documented grammar; root/bitmap/bass ranges and the bass bit; N/X sentinels; the bitmap is the
documented one (hand-transcribed shorthand table, added/omitted degrees, extended-chord reduction);
encode(join(*split(l))) == encode(l); join of a LIST of extensions is the documented rendering root[:quality][(e1,..,en)][/bass]
(extensions in the order given) or InvalidChordException.
"""
import itertools

import numpy as np

import mir_eval
import mir_eval.chord as chord

from core import Case

PID = "C10"
LEAN_MODULES = ["MirProofs.Props.C10", "MirProofs.Props.C10_Regex", "MirProofs.Props.C10_Gen", "MirProofs.Props.C10_GenFns"]
# C10_Gen: pitch_class_to_semitone / scale_degree_to_semitone REGENERATED from the source = the hand-written models
# C10_GenFns: validate_chord_label / split / join / encode / reduce_extended_quality / scale_degree_to_bitmap / quality_to_bitmap
# REGENERATED from the source (part `chordfns`) = the hand-written models
TRANSLATOR_PARTS = ["tables", "regex", "scalars_chord", "chordfns"]
RULE = ("re_match: the label streams below + every string of length <= 3 (quick) / 4 (thorough) over 19 characters + "
        "labels with newline / NUL / CR / U+0085 / U+2028 / non-ASCII look-alikes appended, prepended or embedded + accidental "
        "runs of 50..4000 characters (pure, mixed, wrongly terminated) + degree lists of up to 60 items (valid) and up to 5 "
        "items (damaged; CPython's matcher needs ~4^n steps to reject n items). "
        "labels = mixed-radix enumeration root(7 letters x {'',b,#,bb,##}) x body(none | 26 shorthands | "
        "shorthand+1 degree item | 1 degree item alone; 78 items) x bass(none | 39 degrees) = 2 986 200 labels "
        "(quick: stratified sample, thorough: all, sharded); all strings of length <= 3 (quick) / 4 (thorough) over "
        "a 19-character alphabet; random labels with degree lists <= 4 and accidental runs <= 5; single-character "
        "insert/delete/duplicate/replace mutations (alphabet A-Ha-h#b*/(),:0-9NX, blank, newline, Unicode), doubled "
        "separators, trailing newline. non-trivial = the real code accepts the string (it reaches split/encode)")
ASSUMPTIONS = ["Python's `re` engine implements the regular-expression semantics `Rx.Matches` (MirProofs/Lemmas/Regex.lean) on "
               "the pattern of CHORD_RE: literals, classes of code-point ranges, `*`, `?`, alternation, groups, `^`, `\\Z` "
               "(and `$` = end or before one final '\\n'); validated on every run by suite `re_match`, not proved. Strings "
               "are sequences of Unicode scalar values (lone surrogates are outside the model)",
               "harness/translate/regex.py reads the pattern, the (absent) flags and the method (`match`) from chord.py's "
               "AST and parses the pattern with Python's own `re._parser`; it fails closed on anything else",
               "Python set iteration order is unobservable by encode (bitmap sums commute; proved for every "
               "permutation in join_split_encode; for the translated loop, value AND exception: C10_GenFns.encode_loop_order_irrelevant)",
               "harness/translate/scalars_chordfn.py (the subset and the ownership discipline in its docstring) and the run-time "
               "library lean/MirModel/PyChord.lean read str.split(c) / c.join / str.strip() / set / dict.get / list item stores / "
               "np.array / += / v[i] = c / (v > 0).astype the way Python and NumPy do; validated on every run by suite gen_chordfn "
               "(generated definitions vs the real functions), not proved"]
UNPROVED = []        # regex = grammar is now a theorem about the regenerated pattern (Props/C10_Regex.lean: regex_iff_grammar)
EXHAUSTIVE = {"quick": False, "thorough": True}

# ------------------------------------------------------------------------------------------------
# the documented syntax, hand-transcribed (NOT read from mir_eval): reference grammar + reference semantics

LETTERS = "CDEFGAB"
SHORTHANDS = ["maj", "min", "dim", "aug", "1", "5", "sus2", "sus4", "maj6", "min6", "7", "maj7", "min7",
              "dim7", "hdim7", "minmaj7", "aug7", "9", "maj9", "min9", "11", "maj11", "min11",
              "13", "maj13", "min13"]
NUMS = [str(i) for i in range(1, 14)]
MAJOR_SCALE = [0, 2, 4, 5, 7, 9, 11]
LETTER_PC = {"C": 0, "D": 2, "E": 4, "F": 5, "G": 7, "A": 9, "B": 11}
# shorthand -> (intervals in semitones, degrees added when extended chords are reduced)
SPEC_QUALITY = {
    "maj": ([0, 4, 7], []), "min": ([0, 3, 7], []), "aug": ([0, 4, 8], []), "dim": ([0, 3, 6], []),
    "sus4": ([0, 5, 7], []), "sus2": ([0, 2, 7], []), "1": ([0], []), "5": ([0, 7], []),
    "7": ([0, 4, 7, 10], []), "maj7": ([0, 4, 7, 11], []), "min7": ([0, 3, 7, 10], []),
    "minmaj7": ([0, 3, 7, 11], [7]), "maj6": ([0, 4, 7, 9], []), "min6": ([0, 3, 7, 9], []),
    "dim7": ([0, 3, 6, 9], []), "hdim7": ([0, 3, 6, 10], []),
    "9": ([0, 4, 7, 10], [9]), "maj9": ([0, 4, 7, 11], [9]), "min9": ([0, 3, 7, 10], [9]),
    "11": ([0, 4, 7, 10], [9, 11]), "min11": ([0, 3, 7, 10], [9, 11]),
    "13": ([0, 4, 7, 10], [9, 11, 13]), "maj13": ([0, 4, 7, 11], [9, 11, 13]), "min13": ([0, 3, 7, 10], [9, 11, 13]),
    # "aug7" and "maj11" are in the syntax but have no encoding (encode raises InvalidChordException)
}
# when extended chords are reduced the shorthand is first replaced by its base quality and the upper voices
# become added degrees (EXTENDED_QUALITY_REDUX as documented in the module); only minmaj7 changes its base
SPEC_REDUCED_BASE = {"minmaj7": [0, 3, 7]}


def _degree_semitone(n):
    """scale degree number 1..13 -> semitones above the root (major scale, second octave from 8 on)"""
    return 12 * ((n - 1) // 7) + MAJOR_SCALE[(n - 1) % 7]


def _p_acc(s, i):
    if i < len(s) and s[i] in "b#":
        c = s[i]
        j = i
        while j < len(s) and s[j] == c:
            j += 1
        return (j - i) * (1 if c == "#" else -1), j
    return 0, i


def _p_degree(s, i):
    """(b*|#*)([1-9]|1[0-3]?) at position i -> ((offset, number), next) | None.  A digit can never follow a complete
    degree in the grammar, so 10..13 are read greedily."""
    off, i = _p_acc(s, i)
    if i < len(s) and s[i] in "123456789":
        if s[i] == "1" and i + 1 < len(s) and s[i + 1] in "0123":
            return (off, int(s[i:i + 2])), i + 2
        return (off, int(s[i])), i + 1
    return None


def _p_items(s, i):
    """'(' item (',' item)* ')' at position i"""
    if i >= len(s) or s[i] != "(":
        return None
    i += 1
    items = []
    while True:
        omit = False
        if i < len(s) and s[i] == "*":
            omit = True
            i += 1
        r = _p_degree(s, i)
        if r is None:
            return None
        (off, n), i = r
        items.append((omit, off, n))
        if i < len(s) and s[i] == ",":
            i += 1
            continue
        if i < len(s) and s[i] == ")":
            return items, i + 1
        return None


def grammar(s):
    """Reference recogniser of root[:shorthand][(degrees)][/bass] | N | X  (no `re`).
    -> None | "N" | "X" | dict(letter, acc, shorthand|None, items|None, bass|None)"""
    if s == "N" or s == "X":
        return s
    if not s or s[0] not in "ABCDEFG":
        return None
    acc, i = _p_acc(s, 1)
    out = {"letter": s[0], "acc": acc, "shorthand": None, "items": None, "bass": None}
    if i < len(s) and s[i] == ":":
        i += 1
        best = None
        for q in SHORTHANDS:                      # longest shorthand that matches here
            if s.startswith(q, i) and (best is None or len(q) > len(best)):
                # the shorthand must be followed by '(' , '/' or the end
                j = i + len(q)
                if j == len(s) or s[j] in "(/":
                    best = q
        if best is not None:
            out["shorthand"] = best
            i += len(best)
            if i < len(s) and s[i] == "(":
                r = _p_items(s, i)
                if r is None:
                    return None
                out["items"], i = r
        else:
            r = _p_items(s, i)
            if r is None:
                return None
            out["items"], i = r
    if i < len(s) and s[i] == "/":
        r = _p_degree(s, i + 1)
        if r is None:
            return None
        out["bass"], i = r
    return out if i == len(s) else None


def spec_encode(s, reduce, strict):
    """The documented encoding of a grammar-derivable label: ("ok", root, bitmap, bass) | ("invalid",) ."""
    g = grammar(s)
    assert g is not None
    if g == "N":
        return ("ok", -1, [0] * 12, -1)
    if g == "X":
        return ("ok", -1, [-1] * 12, -1)
    root = (LETTER_PC[g["letter"]] + g["acc"]) % 12
    bass = 0 if g["bass"] is None else (_degree_semitone(g["bass"][1]) + g["bass"][0]) % 12
    q = g["shorthand"]
    if q is None:
        base, ext = (([0, 4, 7], []) if g["items"] is None else ([], []))
    elif q in SPEC_QUALITY:
        base, ext = SPEC_QUALITY[q]
        if reduce:
            base = SPEC_REDUCED_BASE.get(q, base)
    else:
        return ("invalid",)
    votes = [0] * 12
    for k in base:
        votes[k] = 1
    votes[0] = 1
    items = set(g["items"] or [])                       # a set of distinct items
    if reduce:
        items |= set((False, 0, n) for n in ext)
    for omit, off, n in items:
        st = _degree_semitone(n) + off
        if st < 12 or reduce:                           # second-octave degrees count only when reducing
            votes[st % 12] += -1 if omit else 1
    bm = [1 if v > 0 else 0 for v in votes]
    if not bm[bass] and strict:
        return ("invalid",)
    bm[bass] = 1
    return ("ok", root, bm, bass)


# ------------------------------------------------------------------------------------------------
# label universe

ROOT_ACCS = ["", "b", "#", "bb", "##"]
DEG_ACCS = ["", "b", "#"]
ROOTS = [l + a for l in LETTERS for a in ROOT_ACCS]                                   # 35
DEGREES = [a + n for a in DEG_ACCS for n in NUMS]                                      # 39
ITEMS = [o + d for o in ("", "*") for d in DEGREES]                                   # 78
BODIES = ([""] + [":" + q for q in SHORTHANDS]
          + [":%s(%s)" % (q, it) for q in SHORTHANDS for it in ITEMS]
          + [":(%s)" % it for it in ITEMS])                                           # 1 + 26 + 2028 + 78 = 2133
BASSES = [""] + ["/" + d for d in DEGREES]                                            # 40
N_LABELS = len(ROOTS) * len(BODIES) * len(BASSES)
STRATA = [(0, 1), (1, 27), (27, 27 + 2028), (27 + 2028, 2133)]                        # body index ranges by kind


def label_at(idx):
    r, rest = idx % len(ROOTS), idx // len(ROOTS)
    b, rest = rest % len(BASSES), rest // len(BASSES)
    return ROOTS[r] + BODIES[rest] + BASSES[b]


def body_bass_at(idx):
    """(body, bass) pair number idx, root cycling with idx (85 320 pairs)"""
    b, rest = idx % len(BASSES), idx // len(BASSES)
    return ROOTS[idx % len(ROOTS)] + BODIES[rest] + BASSES[b]


def sample_label(rng):
    lo, hi = STRATA[rng.randrange(4)]
    return rng.choice(ROOTS) + BODIES[rng.randrange(lo, hi)] + rng.choice(BASSES)


def _rand_acc(rng, maxrun):
    k = rng.choice([0, 0, 0, 1, 1, 2, rng.randint(0, maxrun)])
    if rng.random() < 0.03:
        k = rng.randint(11, 30)          # more than an octave of accidentals (semitone offsets beyond +-12)
    return rng.choice("b#") * k


def _rand_degree(rng):
    return _rand_acc(rng, 5) + rng.choice(NUMS)


def random_label(rng):
    """deeper than the enumeration: degree lists up to 4, accidental runs up to 5"""
    s = rng.choice(LETTERS) + _rand_acc(rng, 5)
    kind = rng.randrange(5)
    if kind in (1, 2):
        s += ":" + rng.choice(SHORTHANDS)
    if kind == 3:
        s += ":"
    if kind in (2, 3):
        n = rng.randint(1, 4)
        items = []
        for _ in range(n):
            if items and rng.random() < 0.2:
                items.append(rng.choice(items))       # duplicate / contradicting items on purpose
            else:
                items.append(rng.choice(["", "", "*"]) + _rand_degree(rng))
        if rng.random() < 0.15 and items:
            it = rng.choice(items)
            items.append(it[1:] if it.startswith("*") else "*" + it)      # "(*3,3)"
        s += "(" + ",".join(items) + ")"
    if rng.random() < 0.5:
        s += "/" + _rand_degree(rng)
    return s


ALPHABET = "ABCDEFGHabcdefgh#b*/(),:0123456789NX"
ODD = [" ", "\n", "\t", "\r", "\x00", "\u00a0", "\u2028", "\u00e9", "\u266f", "\u266d", "\uff21", "\uff11",
       "\u0661", "\U0001d7cf", "M", "J", "|", "-", ".", "\\", "'", "s", "u", "m", "i", "j"]
SHORT_ALPHABET = "CNXb#:(),*/130maj7\n"      # 19 symbols, for the all-short-strings scope


def mutate(rng, s):
    k = rng.randrange(9)
    pool = ALPHABET if rng.random() < 0.8 else ODD
    c = rng.choice(pool)
    i = rng.randrange(len(s) + 1)
    if k == 0:
        return s[:i] + c + s[i:]
    if k == 1 and s:
        i = rng.randrange(len(s))
        return s[:i] + s[i + 1:]
    if k == 2 and s:
        i = rng.randrange(len(s))
        return s[:i] + s[i] + s[i:]
    if k == 3 and s:
        i = rng.randrange(len(s))
        return s[:i] + c + s[i + 1:]
    if k == 4:
        seps = [j for j, ch in enumerate(s) if ch in "/(:,)"]
        if seps:
            j = rng.choice(seps)
            return s[:j] + s[j] + s[j:]
        return s + rng.choice("/(:")
    if k == 5:
        return s + "\n"
    if k == 6 and s:
        i = rng.randrange(len(s))
        return s[:i] + s[i].swapcase() + s[i + 1:]
    if k == 7 and len(s) > 1:
        i = rng.randrange(len(s) - 1)
        return s[:i] + s[i + 1] + s[i] + s[i + 2:]
    return rng.choice(["", "N", "X", "N\n", "X\n", "\n", "NX", "n", "x", "C:", "C:()", "C/", "C:maj()", "C:(,)",
                       "C:maj(3,)", "C:maj(3))", "C:maj((3)", "C:maj/3/5", "C(3)", "C:(*3)", "C:maj(*3,3)",
                       "C:maj(3)\n", "C/5\n", "C:maj\n", "C:(3)\n", "C\n\n", "\nC", "C:14", "C/14", "C/0", "C/10",
                       "C:maj(13)", "C:maj(14)", "Cb#", "C#b", "H", "C:Maj", "C:MAJ", "c", " C", "C "])


def short_strings(maxlen):
    for n in range(0, maxlen + 1):
        for t in itertools.product(SHORT_ALPHABET, repeat=n):
            yield "".join(t)


# ------------------------------------------------------------------------------------------------
# adapters (the real code)

def _accept(s):
    try:
        chord.validate_chord_label(s)
        return True
    except chord.InvalidChordException:
        return False


def _validate(s):
    chord.validate_chord_label(s)
    return True


def _split(s, r):
    root, q, degs, bass = chord.split(s, reduce_extended_chords=r)
    return [root, q, sorted(degs), bass]


def _norm_label(lbl):
    """a label with the text between its parentheses sorted (set order is not an observation)"""
    if "(" in lbl and ")" in lbl:
        a, rest = lbl.split("(", 1)
        inner, b = rest.rsplit(")", 1)
        return a + "(" + ",".join(sorted(inner.split(","))) + ")" + b
    return lbl


def _join_split(s, r):
    return _norm_label(chord.join(*chord.split(s, reduce_extended_chords=r)))


def _encode(s, r, sb):
    a, b, c = chord.encode(s, reduce_extended_chords=r, strict_bass_intervals=sb)
    return [a, b, c]


def _join_split_encode(s, r, sb):
    j = chord.join(*chord.split(s, reduce_extended_chords=r))
    a, b, c = chord.encode(j, reduce_extended_chords=r, strict_bass_intervals=sb)
    return [a, b, c]


def _encode_many(ls, r):
    a, b, c = chord.encode_many(ls, reduce_extended_chords=r)
    return [a, b, c]


def _post_split(mv):
    return [mv[0], mv[1], sorted(mv[2]), mv[3]]


def _post_redux(mv):
    return [mv[0], sorted(mv[1])]


# ------------------------------------------------------------------------------------------------
# correspondence suites

def accept_case(s, tag):
    return Case("chord.accept", [s],
                lambda s=s: [grammar(s) is not None, chord.CHORD_RE.match(s) is not None],
                tag=tag, info={"label": s}, nontrivial=grammar(s) is not None)


def suite_accept(rng, tier, shard, nshards):
    # (a) grammar-derivable labels up to the stated depth
    if tier == "thorough":
        for idx in range(shard, N_LABELS, nshards):
            yield accept_case(label_at(idx), "enumerated")
    else:
        for _ in range(7500):
            yield accept_case(sample_label(rng), "enumerated-sample")
    # (b) every short string over the label alphabet (negative side, exhaustively)
    maxlen = 4 if tier == "thorough" else 3
    for i, s in enumerate(short_strings(maxlen)):
        if i % nshards == shard:
            yield accept_case(s, "short-strings")
    # (c) deeper random labels and (d) one-character mutations of labels
    n = 40000 if tier == "thorough" else 2500
    for _ in range(n):
        s = random_label(rng)
        yield accept_case(s, "random-deep")
        m = mutate(rng, s if rng.random() < 0.5 else sample_label(rng))
        yield accept_case(m, "mutated")
        if rng.random() < 0.2:
            yield accept_case(mutate(rng, m), "mutated-twice")
    # the individual ops named in the plan, on a small mixed stream
    for _ in range(300):
        s = rng.choice([random_label, sample_label])(rng)
        if rng.random() < 0.5:
            s = mutate(rng, s)
        yield Case("chord.validate", [s], lambda s=s: _validate(s), tag="validate-op", info={"label": s},
                   nontrivial=_accept(s))
        yield Case("chord.recognize", [s], lambda s=s: chord.CHORD_RE.match(s) is not None,
                   tag="recognize-op", info={"label": s}, nontrivial=_accept(s))


# ---- CHORD_RE itself vs the regenerated regex run by the proved matcher -------------------------------------------

_DOLLAR = {}


def _dollar_re():
    """the pattern of CHORD_RE with every `\\Z` replaced by `$` (what `Regex.dollarize` does to the generated term)"""
    pat = chord.CHORD_RE.pattern
    if pat not in _DOLLAR:
        import re as _re
        _DOLLAR[pat] = _re.compile(pat.replace("\\Z", "$"), chord.CHORD_RE.flags)
    return _DOLLAR[pat]


def re_case(s, tag, dollar=False, full=False):
    if full:
        return Case("chord.re_fullmatch", [s], lambda s=s: bool(chord.CHORD_RE.fullmatch(s)), tag=tag + ":fullmatch",
                    info={"label": s}, nontrivial=grammar(s) is not None)
    if dollar:
        return Case("chord.re_match_dollar", [s], lambda s=s: bool(_dollar_re().match(s)), tag=tag + ":$",
                    info={"label": s}, nontrivial=grammar(s.rstrip("\n")) is not None)
    return Case("chord.re_match", [s], lambda s=s: bool(chord.CHORD_RE.match(s)), tag=tag, info={"label": s},
                nontrivial=grammar(s) is not None)


LINE_ENDS = ["\n", "\n\n", "\r", "\r\n", "\x00", "\x0b", "\x0c", "\x1c", "\x85", "\u2028", "\u2029", " ", "\t"]
LOOKALIKES = {"C": "\uff23", "A": "\u0391", "b": "\u266d", "#": "\u266f", "1": "\uff11", "3": "\u0663", "7": "\U0001d7d5",
              ":": "\uff1a", "/": "\u2215", "(": "\uff08", "m": "\u217f", "N": "\u039d", "X": "\u03a7"}


def _odd_variants(rng, s):
    e = rng.choice(LINE_ENDS)
    yield s + e
    yield e + s
    if s:
        i = rng.randrange(len(s) + 1)
        yield s[:i] + e + s[i:]
        j = rng.randrange(len(s))
        if s[j] in LOOKALIKES:
            yield s[:j] + LOOKALIKES[s[j]] + s[j + 1:]
        yield s[:j] + chr(rng.choice([0, 1, 0x7f, 0x80, 0xff, 0x100, 0xd7ff, 0xe000, 0xffff, 0x10000, 0x10ffff,
                                       ord(s[j]) + 1, max(0, ord(s[j]) - 1), ord(s[j]) + 0x100])) + s[j + 1:]


def _long_runs(rng, tier):
    sizes = [50, 333, 1000] + ([2500, 4000] if tier == "thorough" else [])
    for n in sizes:
        for c in "b#":
            run = c * n
            yield "C" + run                                  # root accidentals
            yield "C" + run + ":min7"
            yield "G:maj(" + run + "3)"                      # degree accidentals
            yield "G:(*" + run + "13,5)/" + run + "5"
            yield "A/" + run + "7"                           # bass accidentals
            yield "A/" + run                                 # run not followed by a degree number
            yield "C" + run + "\n"
            yield "C" + run[:n // 2] + ("#" if c == "b" else "b") + run[n // 2:]     # a mixed run
            yield "C" + run + "x"
            yield "G:maj(" + run + ")"
            yield "G:maj(" + run + "14)"
        yield "1" * n
        yield "C:" + "maj" * n
        yield "C" + "/5" * n
        yield "C" + ":" * n
        yield "N" * n
        yield "\n" * n


def _long_lists(rng, tier):
    for n in ([7, 20, 60] if tier == "thorough" else [7, 25]):
        items = [rng.choice(["", "*"]) + _rand_degree(rng) for _ in range(n)]
        body = "(" + ",".join(items) + ")"
        for head in ["C:maj", "Db:", "F#:min7"]:
            yield head + body                                 # valid: matched without backtracking
            yield head + body + "/" + _rand_degree(rng)
    for n in (2, 3, 4, 5):                                    # damaged: rejected only after ~4^n attempts by CPython
        items = [rng.choice(["", "*"]) + _rand_degree(rng) for _ in range(n)]
        for tail in [",)", ")x", "", "))", ",14)", ")/", ")\n"]:
            yield "C:maj(" + ",".join(items) + tail
            yield "C:(" + ",".join(items) + tail


def suite_re_match(rng, tier, shard, nshards):
    # every short string over the label alphabet (which contains the newline)
    maxlen = 4 if tier == "thorough" else 3
    for i, s in enumerate(short_strings(maxlen)):
        if i % nshards == shard:
            yield re_case(s, "short-strings")
            if "\n" in s:
                yield re_case(s, "short-strings", dollar=True)
    # grammar-derivable labels, deeper random labels, mutations, and their odd-character variants
    n = 12000 if tier == "thorough" else 1200
    for _ in range(n):
        for s in (sample_label(rng), random_label(rng)):
            yield re_case(s, "label")
            m = mutate(rng, s)
            yield re_case(m, "mutated")
            if rng.random() < 0.3:
                yield re_case(mutate(rng, m), "mutated-twice")
            for v in _odd_variants(rng, s if rng.random() < 0.7 else m):
                yield re_case(v, "odd-characters")
                if v.endswith("\n") or rng.random() < 0.1:
                    yield re_case(v, "odd-characters", dollar=True)
                    yield re_case(v, "odd-characters", full=True)
    for s in ["", "N", "X", "N\n", "X\n", "\n", "NX", "C\n", "C:maj\n", "C:maj\n\n", "C\n:maj", "\nC", "C/5\n", "C:(3)\n",
              "C:maj(3)\n", "C\x00", "\x00C", "C:maj\r", "C:maj\u2028", "C:maj\x85", "C/", "C:", "C:()", "C:maj()", "C/10", "C/14",
              "C/0", "C:1", "C:10", "C:11", "C:13", "C:14", "C:maj13", "C:maj1", "C:(13)", "C:(1,13)", "C:(10,1)", "H", "c",
              "C//5", "C/5/5", "C:maj:maj", "C(3)", "Cb#", "C#b", "C:minmaj7", "C:hdim7(*b5)/b5"][shard::nshards]:
        yield re_case(s, "fixed")
        yield re_case(s, "fixed", dollar=True)
        yield re_case(s, "fixed", full=True)
    # very long accidental runs and long degree lists (a few per shard)
    for i, s in enumerate(_long_runs(rng, tier)):
        if i % nshards == shard:
            yield re_case(s, "long-runs")
            if s.endswith("\n"):
                yield re_case(s, "long-runs", dollar=True)
    for i, s in enumerate(_long_lists(rng, tier)):
        if i % nshards == shard:
            yield re_case(s, "long-lists")


# ---- the regex semantics itself: random patterns, Python's `re` vs the Lean matcher ---------------------------------

def _rand_pattern(rng, depth):
    """a random pattern over the constructs the translator supports (always compiles; no stacked quantifiers)"""
    k = rng.randrange(12 if depth > 0 else 6)
    if k < 6:
        return rng.choice(["a", "b", "c", "a", "b", "\\n", ".", "[ab]", "[^a]", "[a-c]", "[^b\\n]", "[b-c\\n]", "^", "$", "\\A",
                           "\\Z", "", "ab", "ba"])
    if k in (6, 7):
        return _rand_pattern(rng, depth - 1) + _rand_pattern(rng, depth - 1)
    if k == 8:
        return "(%s|%s)" % (_rand_pattern(rng, depth - 1), _rand_pattern(rng, depth - 1))
    if k == 9:
        return "(?:%s|%s|%s)" % tuple(_rand_pattern(rng, depth - 1) for _ in range(3))
    q = rng.choice(["*", "+", "?", "*?", "+?", "??", "{2}", "{1,2}", "{0,2}", "{2,}", "{1,3}?", "{0,}", "*", "?", "+"])
    return "(%s)%s" % (_rand_pattern(rng, depth - 1), q)


def suite_rx(rng, tier, shard, nshards):
    import re as _re
    from translate import regex as tr
    fixed = ["(a*)*b", "(a|)*b", "(|a)*b", "(a?)*$", "(a*)+\\Z", "(^a)*", "(a$)*", "(a|ab)(c|bcd)(d*)", "a*?b", "(a|b)*?c$",
             "^$", "$^", "a$\\n", "(a$\\n?)*", ".*", ".*$", "[^a]*\\Z", "(\\n)*$", "\\n$", "\\n\\Z", "($)*", "(^)*a", "(a{2,3}){2}",
             "(ab?){1,2}b", "((a|b)(c|)){0,2}", "(a{0,}b{1,})*?c", "", "()", "(|)", "a|", "|a", "(a|b|)\\Z", "(.|\\n)*"]
    pats = fixed[shard::nshards]
    n = 2500 if tier == "thorough" else 260
    pats += [_rand_pattern(rng, 3) for _ in range(n)]
    for pat in pats:
        try:
            cre = _re.compile(pat)
            w = tr.wire(tr.parse_pattern(pat))
        except (_re.error, tr.Unsupported, RecursionError):
            continue
        subjects = ["", "a", "b", "\n", "ab", "a\n", "ab\n", "aab", "abc\n", "aa\n\n", "\na", "ba", "cab"]
        subjects += ["".join(rng.choice("aabbc\n") for _ in range(rng.randint(1, 7))) for _ in range(7)]
        for subj in subjects:
            yield Case("rx.match", [w, subj], lambda cre=cre, subj=subj: bool(cre.match(subj)), tag="rx:match",
                       info={"pattern": pat, "subject": subj}, nontrivial=bool(cre.match(subj)))
            yield Case("rx.fullmatch", [w, subj], lambda cre=cre, subj=subj: bool(cre.fullmatch(subj)), tag="rx:fullmatch",
                       info={"pattern": pat, "subject": subj}, nontrivial=bool(cre.fullmatch(subj)))


def encode_cases(s, tag, flags=((False, False), (False, True), (True, False), (True, True))):
    nt = _accept(s)
    info = {"label": s}
    for r in (False, True):
        yield Case("chord.split", [s, r], lambda s=s, r=r: _split(s, r), tag=tag + ":split",
                   info=dict(info, reduce=r, strict=False), nontrivial=nt, post=_post_split)
        yield Case("chord.join_split", [s, r], lambda s=s, r=r: _join_split(s, r), tag=tag + ":join_split",
                   info=dict(info, reduce=r, strict=False), nontrivial=nt, post=_norm_label)
    for r, sb in flags:
        yield Case("chord.encode", [s, r, sb], lambda s=s, r=r, sb=sb: _encode(s, r, sb), tag=tag + ":encode",
                   info=dict(info, reduce=r, strict=sb), nontrivial=nt)
        yield Case("chord.join_split_encode", [s, r, sb], lambda s=s, r=r, sb=sb: _join_split_encode(s, r, sb),
                   tag=tag + ":join_split_encode", info=dict(info, reduce=r, strict=sb), nontrivial=nt)


def suite_encode(rng, tier, shard, nshards):
    for s in ["N", "X", "C", "N\n", "X\n", "C\n", "C:maj\n", "C/5\n", "C:(3)\n", "C:maj(3)\n", "", "C:(*3)",
              "C:maj(*3,3)", "C:maj(3,3)", "C:aug7", "C:maj11", "C:maj/2", "C/b1", "Cbbbbbbbbbbbbb", "C/bbbbbbbbbbbbbb1",
              "B#:13(*1)/13", "C:1(*1)", "C:5(*1,*5)/5", "C:maj(bbbbbbbbbbbbb1)", "C:(bbbbbbbbbbbbbb3)",
              "C:maj(*bbbbbbbbbbbbb1)", "C:min(#############5)", "C:maj(bbbbbbbbbbbbbbbbbbbbbbbbb9)/3",
              "D:7(############1,*b7)"][shard::nshards]:
        yield from encode_cases(s, "fixed")
    if tier == "thorough":
        npairs = len(BODIES) * len(BASSES)
        for idx in range(shard, npairs, nshards):          # every body x bass pair, all four flag pairs
            s = body_bass_at(idx)
            for r, sb in ((False, False), (False, True), (True, False), (True, True)):
                yield Case("chord.encode", [s, r, sb], lambda s=s, r=r, sb=sb: _encode(s, r, sb),
                           tag="enumerated:encode", info={"label": s, "reduce": r, "strict": sb})
            if idx % 4 == 0:
                yield from encode_cases(s, "enumerated", flags=((idx % 8 == 0, idx % 16 < 8),))
        for i, root in enumerate(ROOTS):                   # every root with a few bodies
            if i % nshards == shard:
                for body in ["", ":min7", ":(b3,5)"]:
                    yield from encode_cases(root + body, "roots")
    n = 6000 if tier == "thorough" else 450
    for _ in range(n):
        yield from encode_cases(sample_label(rng), "sample")
        yield from encode_cases(random_label(rng), "random-deep")
        s = mutate(rng, random_label(rng) if rng.random() < 0.5 else sample_label(rng))
        yield from encode_cases(s, "mutated", flags=((rng.random() < 0.5, rng.random() < 0.5),))
        if rng.random() < 0.3:
            k = rng.randint(0, 5)
            ls = [rng.choice([sample_label, random_label, lambda g: "N", lambda g: "X"])(rng) for _ in range(k)]
            if rng.random() < 0.15 and ls:
                ls[rng.randrange(len(ls))] = mutate(rng, ls[0])
            if rng.random() < 0.3 and ls:
                ls.append(ls[0])
            r = rng.random() < 0.5
            yield Case("chord.encode_many", [ls, r], lambda ls=ls, r=r: _encode_many(ls, r), tag="encode_many",
                       info={"labels": ls, "reduce": r}, nontrivial=all(_accept(x) for x in ls))


def suite_join(rng, tier, shard, nshards):
    n = 3000 if tier == "thorough" else 300
    quals = SHORTHANDS + ["", "", "b9", "#11", "maj\n", "Maj", "min "]
    for _ in range(n):
        k = rng.randrange(4)
        if k == 0:          # parts of a real split, recombined
            s = rng.choice([sample_label, random_label])(rng)
            try:
                root, q, degs, bass = chord.split(s, reduce_extended_chords=rng.random() < 0.5)
            except chord.InvalidChordException:
                continue
            ext = sorted(degs)
        else:
            root = rng.choice(ROOTS + ["N", "X", "", "H", "C\n"]) if k == 1 else rng.choice(ROOTS)
            q = rng.choice(quals)
            ext = [rng.choice(ITEMS + ["", "14", "3 ", "*"]) if k == 1 else rng.choice(ITEMS)
                   for _ in range(rng.choice([0, 0, 1, 2, 3]))]
            bass = rng.choice(["", "1", "1", "b1"] + DEGREES + (["0", "5\n", "/5"] if k == 1 else []))
        variants = [ext]
        if not ext:
            variants.append(None)
        for e in variants:
            yield Case("chord.join", [root, q, e, bass],
                       lambda root=root, q=q, e=e, bass=bass: chord.join(root, q, e, bass),
                       tag="join:%s" % ("split-parts" if k == 0 else "damaged" if k == 1 else "free"),
                       info={"root": root, "quality": q, "extensions": e, "bass": bass})


def _arb_string(rng):
    k = rng.randrange(6)
    if k == 0:
        return rng.choice(DEGREES + ITEMS)
    if k == 1:
        return _rand_acc(rng, 14) + rng.choice(NUMS + ["0", "14", "", "1 "])
    if k == 2:
        return rng.choice(ROOTS + list(LETTERS)) + _rand_acc(rng, 14)
    if k == 3:
        return mutate(rng, rng.choice(DEGREES + ITEMS + ROOTS + SHORTHANDS))
    if k == 4:
        return "".join(rng.choice("#b*13CH ") for _ in range(rng.randint(0, 5)))
    return rng.choice(["", "#", "b", "*", "**3", "*3*", "#3#", "b3b", "b#3", "#b3", "3#", "3b", "*b3", "b*3", "#",
                       "H", "H#", "Hb", "h", "#C", "bC", "CC", "C#b#", "N", "X", "\n", "C\n", "3\n", "b"])


def suite_primitives(rng, tier, shard, nshards):
    keys_q = list(chord.QUALITIES.keys())
    keys_r = list(chord.EXTENDED_QUALITY_REDUX.keys())
    fixed = sorted(set(keys_q + keys_r + SHORTHANDS + DEGREES + ITEMS + ROOTS + list(chord.SCALE_DEGREES.keys())
                       + list(chord.PITCH_CLASSES.keys())))
    n = 4000 if tier == "thorough" else 500
    strings = fixed[shard::nshards] + [_arb_string(rng) for _ in range(n)]
    for s in strings:
        info = {"string": s}
        yield Case("chord.pitch_class_to_semitone", [s], lambda s=s: chord.pitch_class_to_semitone(s),
                   tag="pitch_class_to_semitone", info=info)
        yield Case("chord.scale_degree_to_semitone", [s], lambda s=s: chord.scale_degree_to_semitone(s),
                   tag="scale_degree_to_semitone", info=info)
        for m in (False, True):
            yield Case("chord.scale_degree_to_bitmap", [s, m], lambda s=s, m=m: chord.scale_degree_to_bitmap(s, m),
                       tag="scale_degree_to_bitmap", info=dict(info, modulo=m))
        yield Case("chord.quality_to_bitmap", [s], lambda s=s: chord.quality_to_bitmap(s),
                   tag="quality_to_bitmap", info=info)
        yield Case("chord.reduce_extended_quality", [s],
                   lambda s=s: (lambda q, e: [q, sorted(e)])(*chord.reduce_extended_quality(s)),
                   tag="reduce_extended_quality", info=info, post=_post_redux)


def suite_gen_primitives(rng, tier, shard, nshards):
    """the two scalar helpers as REGENERATED from the source (driver op `gen.scalar`, lean/MirGen/Scalars.lean) vs the
    real functions; ASCII strings only (model domain of the generated string primitives)"""
    fixed = sorted(set(DEGREES + ROOTS + list(chord.SCALE_DEGREES.keys()) + list(chord.PITCH_CLASSES.keys())
                       + ["", "#", "b", "##", "bb", "#b", "b#", "H", "H#", "Hb", "C#b#", "Cx", "b#5", "#b5", "5#", "5b",
                          "b", "bb7b", "#1#", "13", "b13", "##13", "14", "0"]))
    n = 2000 if tier == "thorough" else 200
    strings = fixed[shard::nshards] + [x for x in (_arb_string(rng) for _ in range(n)) if x.isascii()]
    for s in strings:
        info = {"string": s}
        yield Case("gen.scalar", ["chord.pitch_class_to_semitone", s], lambda s=s: chord.pitch_class_to_semitone(s),
                   tag="gen pitch_class_to_semitone", info=info)
        yield Case("gen.scalar", ["chord.scale_degree_to_semitone", s], lambda s=s: chord.scale_degree_to_semitone(s),
                   tag="gen scale_degree_to_semitone", info=info)



# ---- the label functions as REGENERATED from the source (lean/MirGen/ChordFns.lean, harness/translate/scalars_chordfn.py) ----

def _gen_label_cases(s, tag, flags=((False, False), (False, True), (True, False), (True, True))):
    nt = _accept(s)
    info = {"label": s}
    yield Case("gen.chordfn", ["validate_chord_label", s], lambda s=s: chord.validate_chord_label(s),
               tag=tag + ":gen validate_chord_label", info=info, nontrivial=nt)
    for r in sorted(set(f[0] for f in flags)):
        yield Case("gen.chordfn", ["split", s, r], lambda s=s, r=r: _split(s, r), tag=tag + ":gen split",
                   info=dict(info, reduce=r, strict=False), nontrivial=nt, post=_post_split)
    for r, sb in flags:
        yield Case("gen.chordfn", ["encode", s, r, sb], lambda s=s, r=r, sb=sb: _encode(s, r, sb), tag=tag + ":gen encode",
                   info=dict(info, reduce=r, strict=sb), nontrivial=nt)


def _gen_join_case(root, q, e, bass, tag):
    return Case("gen.chordfn", ["join", root, q, e, bass],
                lambda root=root, q=q, e=e, bass=bass: chord.join(root, q, e, bass),
                tag="gen join:" + tag, info={"root": root, "quality": q, "extensions": e, "bass": bass})


def suite_gen_chordfn(rng, tier, shard, nshards):
    """driver op `gen.chordfn`: the GENERATED definitions of validate_chord_label / split / join / encode /
    reduce_extended_quality / scale_degree_to_bitmap / quality_to_bitmap against the real functions, on the label streams
    of the other suites (valid, single-fault, long accidental runs) and on arbitrary strings for the primitives
    (rotate_bitmap_to_root, same generated file: suite gen_chordfn.rotate of C11)"""
    fixed = ["N", "X", "C", "N\n", "X\n", "C\n", "C:maj\n", "C/5\n", "C:(3)\n", "", "C:(*3)", "C:maj(*3,3)", "C:maj(3,3)",
             "C:aug7", "C:maj11", "C:maj/2", "C/b1", "C/1", "C:maj/1", "Cbbbbbbbbbbbbb", "C/bbbbbbbbbbbbbb1", "B#:13(*1)/13",
             "C:1(*1)", "C:5(*1,*5)/5", "C:maj(bbbbbbbbbbbbb1)", "C:(bbbbbbbbbbbbbb3)", "C:maj(*bbbbbbbbbbbbb1)",
             "C:min(#############5)", "C:maj(bbbbbbbbbbbbbbbbbbbbbbbbb9)/3", "D:7(############1,*b7)", "C:(3)", "C:(*3)/5",
             "A:13(3,3)/b7", "A:min11(*b3)/b3", "G:maj(13)", "G:maj(*13)", "G:9(*9)", "G:13(*13,*11)", "F#:(b3,5,b7,9)/9",
             "C:MAJ", "C:Maj7", "C:maj(3 )", "C:maj( 3)", "C/5/3", "C(3)(5)", "C:maj:min", "C:", "C/", "C:()", "\uff23:maj",
             "C:maj\u2028", "C:hdim7(*b5)/b5", "E:sus4(b7,9)/4", "Db:minmaj7/7", "C:maj(" + "b" * 40 + "7)", "C" + "#" * 61,
             "G:(*" + "b" * 50 + "13,5)/" + "#" * 50 + "5"]
    for s in fixed[shard::nshards]:
        yield from _gen_label_cases(s, "fixed")
    n = 2500 if tier == "thorough" else 220
    for _ in range(n):
        yield from _gen_label_cases(sample_label(rng), "sample")
        yield from _gen_label_cases(random_label(rng), "random-deep")
        s = mutate(rng, random_label(rng) if rng.random() < 0.5 else sample_label(rng))
        yield from _gen_label_cases(s, "mutated", flags=((rng.random() < 0.5, rng.random() < 0.5),))
        # long accidental runs on root, degrees and bass (beyond an octave)
        run = rng.choice("b#") * rng.randint(11, 40)
        s = rng.choice([rng.choice(LETTERS) + run + rng.choice(["", ":min7", ":(3)"]),
                        "%s:%s(%s%s%s)" % (rng.choice(ROOTS), rng.choice(SHORTHANDS), rng.choice(["", "*"]), run, rng.choice(NUMS)),
                        "%s/%s%s" % (rng.choice(ROOTS), run, rng.choice(NUMS)),
                        "%s:(%s%s)/%s%s" % (rng.choice(ROOTS), run, rng.choice(NUMS), run, rng.choice(NUMS))])
        yield from _gen_label_cases(s, "long-runs", flags=((rng.random() < 0.5, rng.random() < 0.5),))
    # join: parts of a real split (recombined in sorted and reversed order), damaged parts, free parts
    quals = SHORTHANDS + ["", "", "b9", "#11", "maj\n", "Maj", "min "]
    for _ in range(1500 if tier == "thorough" else 150):
        k = rng.randrange(4)
        if k == 0:
            s = rng.choice([sample_label, random_label])(rng)
            try:
                root, q, degs, bass = chord.split(s, reduce_extended_chords=rng.random() < 0.5)
            except chord.InvalidChordException:
                continue
            ext = sorted(degs)
            if rng.random() < 0.5:
                ext.reverse()
        else:
            root = rng.choice(ROOTS + ["N", "X", "", "H", "C\n"]) if k == 1 else rng.choice(ROOTS)
            q = rng.choice(quals)
            ext = [rng.choice(ITEMS + ["", "14", "3 ", "*"]) if k == 1 else rng.choice(ITEMS)
                   for _ in range(rng.choice([0, 0, 1, 2, 3, 4]))]
            bass = rng.choice(["", "1", "1", "b1"] + DEGREES + (["0", "5\n", "/5"] if k == 1 else []))
        yield _gen_join_case(root, q, ext, bass, "split-parts" if k == 0 else "damaged" if k == 1 else "free")
        if not ext:
            yield _gen_join_case(root, q, None, bass, "none")
    # the primitives on table keys and arbitrary strings
    keys_q = list(chord.QUALITIES.keys())
    keys_r = list(chord.EXTENDED_QUALITY_REDUX.keys())
    fixed = sorted(set(keys_q + keys_r + SHORTHANDS + DEGREES + ITEMS + ["", "*", "**3", "*3*", "*b3", "b*3", "14", "0", "*14"]))
    strings = fixed[shard::nshards] + [_arb_string(rng) for _ in range(1500 if tier == "thorough" else 150)]
    for s in strings:
        info = {"string": s}
        for m in (False, True):
            for length in (12, rng.choice([12, 1, 2, 5, 7, 13, 24, 0, -1, -5])):
                yield Case("gen.chordfn", ["scale_degree_to_bitmap", s, m, length],
                           lambda s=s, m=m, length=length: chord.scale_degree_to_bitmap(s, m, length),
                           tag="gen scale_degree_to_bitmap" + ("" if length == 12 else ":length"),
                           info=dict(info, modulo=m, length=length))
        yield Case("gen.chordfn", ["quality_to_bitmap", s], lambda s=s: chord.quality_to_bitmap(s),
                   tag="gen quality_to_bitmap", info=info)
        yield Case("gen.chordfn", ["reduce_extended_quality", s],
                   lambda s=s: (lambda q, e: [q, sorted(e)])(*chord.reduce_extended_quality(s)),
                   tag="gen reduce_extended_quality", info=info, post=_post_redux)


SUITES = {"re_match": suite_re_match, "rx": suite_rx, "accept": suite_accept, "encode": suite_encode, "join": suite_join, "primitives": suite_primitives,
          "gen_scalar.primitives": suite_gen_primitives, "gen_chordfn": suite_gen_chordfn}


# ------------------------------------------------------------------------------------------------
# the property itself on the real code

def _outcome(fn):
    """("ok", value) | ("invalid",) | ("raised", class name)"""
    try:
        return ("ok", fn())
    except chord.InvalidChordException:
        return ("invalid",)
    except Exception as e:  # noqa: BLE001 - this is the observation
        return ("raised", type(e).__name__)


def check_validate(inp):
    """acceptance by validate_chord_label coincides with the documented syntax; nothing but
    InvalidChordException escapes"""
    s = inp["label"]
    o = _outcome(lambda: chord.validate_chord_label(s))
    if o[0] == "raised":
        return "validate_chord_label(%r) raised %s" % (s, o[1])
    accepted = o[0] == "ok"
    derivable = grammar(s) is not None
    if accepted and not derivable:
        return "validate_chord_label(%r) accepts a string that the documented syntax does not derive" % (s,)
    if derivable and not accepted:
        return "validate_chord_label(%r) rejects a label of the documented syntax" % (s,)
    return None


def _enc_list(v):
    a, b, c = v
    return [int(a), [int(x) for x in np.asarray(b).tolist()], int(c)]


def check_encode(inp):
    s, r, sb = inp["label"], bool(inp.get("reduce", False)), bool(inp.get("strict", False))
    osplit = _outcome(lambda: chord.split(s, reduce_extended_chords=r))
    if osplit[0] == "raised":
        return "split(%r, %r) raised %s" % (s, r, osplit[1])
    oenc = _outcome(lambda: _enc_list(chord.encode(s, reduce_extended_chords=r, strict_bass_intervals=sb)))
    if oenc[0] == "raised":
        return "encode(%r, %r, %r) raised %s" % (s, r, sb, oenc[1])
    derivable = grammar(s) is not None
    if osplit[0] == "ok" and not derivable and not _accept(s):
        return "split(%r) succeeded on a rejected label" % (s,)
    if oenc[0] == "ok":
        root, bm, bass = oenc[1]
        if s == "N":
            if [root, bm, bass] != [-1, [0] * 12, -1]:
                return "encode('N') = %r is not the no-chord sentinel" % (oenc[1],)
        elif s == "X":
            if [root, bm, bass] != [-1, [-1] * 12, -1]:
                return "encode('X') = %r is not the X sentinel" % (oenc[1],)
        else:
            if not (0 <= root <= 11):
                return "encode(%r, %r, %r): root %r outside 0..11" % (s, r, sb, root)
            if not (0 <= bass <= 11):
                return "encode(%r, %r, %r): bass %r outside 0..11" % (s, r, sb, bass)
            if len(bm) != 12 or any(b not in (0, 1) for b in bm):
                return "encode(%r, %r, %r): bitmap %r is not a 12-element 0/1 vector" % (s, r, sb, bm)
            if bm[bass] != 1:
                return "encode(%r, %r, %r): bitmap %r does not contain the bass interval %d" % (s, r, sb, bm, bass)
    # the documented encoding
    if derivable:
        spec = spec_encode(s, r, sb)
        got = ("ok",) + tuple(oenc[1]) if oenc[0] == "ok" else ("invalid",)
        if spec != got:
            return "encode(%r, %r, %r) = %r but the documented encoding is %r" % (s, r, sb, got, spec)
    # join . split preserves the encoding (X has no parts; N does)
    if osplit[0] == "ok" and s != "X":
        parts = osplit[1]
        oj = _outcome(lambda: _enc_list(chord.encode(chord.join(*parts), reduce_extended_chords=r,
                                                       strict_bass_intervals=sb)))
        if oj[0] == "raised":
            return "encode(join(*split(%r, %r))) raised %s" % (s, r, oj[1])
        if oj != oenc:
            return "encode(join(*split(%r, %r)), %r, %r) = %r differs from encode of the label = %r" % (
                s, r, r, sb, oj, oenc)
    return None


def check_encode_many(inp):
    """element-wise encode, for the requested flag and then for the OTHER flag on the same labels (an encoding
    remembered from an earlier call must not be served under another flag)"""
    r0 = bool(inp.get("reduce", False))
    for k, r in enumerate((r0, not r0, r0)):
        what = _check_encode_many_once(inp["labels"], r)
        if what:
            return what if k == 0 else "call %d on the same labels: %s" % (k + 1, what)
    return None


def _check_encode_many_once(ls, r):
    om = _outcome(lambda: [np.asarray(x).tolist() for x in chord.encode_many(ls, reduce_extended_chords=r)])
    if om[0] == "raised":
        return "encode_many(%r, %r) raised %s" % (ls, r, om[1])
    each = [_outcome(lambda l=l: _enc_list(chord.encode(l, reduce_extended_chords=r))) for l in ls]
    if any(e[0] != "ok" for e in each):
        if om[0] == "ok":
            return "encode_many(%r) succeeded although encode fails on an element" % (ls,)
        return None
    want = [[e[1][0] for e in each], [e[1][1] for e in each], [e[1][2] for e in each]]
    if om[0] != "ok" or om[1] != want:
        return "encode_many(%r, %r) = %r is not the element-wise encode %r" % (ls, r, om, want)
    return None


def gen_validate(rng, tier, shard, nshards, boost):
    yield {"label": ""}
    n = (4000 if tier == "thorough" else 400) * boost
    for _ in range(n):
        s = rng.choice([sample_label, random_label])(rng)
        yield {"label": s}
        yield {"label": mutate(rng, s)}
    maxlen = 3 if tier == "thorough" else 2
    for i, s in enumerate(short_strings(maxlen)):
        if i % nshards == shard:
            yield {"label": s}


def gen_encode(rng, tier, shard, nshards, boost):
    for s in ["N", "X", "N\n", "C\n", "C:maj\n", "C/5\n", "C:(3)\n", "", "C:maj(bbbbbbbbbbbbb1)", "C:(bbbbbbbbbbbbbb3)",
              "C:maj(*bbbbbbbbbbbbb1)", "C:min(#############5)", "Cbbbbbbbbbbbbb:maj", "C:maj/bbbbbbbbbbbbbb3"][shard::nshards]:
        for r in (False, True):
            yield {"label": s, "reduce": r, "strict": False}
    if tier == "thorough" or boost > 1:
        npairs = len(BODIES) * len(BASSES)
        step = 1 if tier == "thorough" else 4
        for idx in range(shard, npairs, nshards * step):
            yield {"label": body_bass_at(idx), "reduce": idx % 2 == 0, "strict": idx % 4 < 2}
    # every shorthand x {plain, one item}, both flags: the documented bitmaps
    k = 0
    for q in SHORTHANDS:
        for tail in ["", "(9)", "(*5)", "/b7", "(b3)/5", "(*9)", "(*13,*11)", "(*7)/9"]:
            k += 1
            if k % nshards == shard:
                for r in (False, True):
                    for sb in (False, True):
                        yield {"label": rng.choice(ROOTS) + ":" + q + tail, "reduce": r, "strict": sb}
    n = (5000 if tier == "thorough" else 500) * boost
    for _ in range(n):
        r, sb = rng.random() < 0.5, rng.random() < 0.3
        s = rng.choice([sample_label, random_label])(rng)
        yield {"label": s, "reduce": r, "strict": sb}
        yield {"label": mutate(rng, s), "reduce": r, "strict": sb}


def gen_encode_many(rng, tier, shard, nshards, boost):
    n = (500 if tier == "thorough" else 60) * boost
    for _ in range(n):
        ls = [rng.choice([sample_label, random_label, lambda g: "N", lambda g: "X"])(rng)
              for _ in range(rng.randint(0, 6))]
        if ls and rng.random() < 0.2:
            ls[rng.randrange(len(ls))] = mutate(rng, ls[0])
        yield {"labels": ls, "reduce": rng.random() < 0.5}


def spec_join(root, q, ext, bass):
    """the documented rendering root[:quality][(e1,...,en)][/bass] of join's arguments (hand-transcribed): the extensions in
    the order given, the bass omitted when it is the root ('1' or empty)"""
    exts = list(ext) if ext else []
    s = root
    if q or exts:
        s += ":" + q
    if exts:
        s += "(" + ",".join(exts) + ")"
    if bass and bass != "1":
        s += "/" + bass
    return s


def check_join(inp):
    """join(root, quality, extensions, bass) for a LIST of extensions: nothing but InvalidChordException escapes; the
    result is the documented rendering of the parts when that is a label of the syntax, InvalidChordException otherwise"""
    root, q, ext, bass = inp["root"], inp["quality"], inp["extensions"], inp["bass"]
    o = _outcome(lambda: chord.join(root, q, ext, bass))
    if o[0] == "raised":
        return "join(%r, %r, %r, %r) raised %s" % (root, q, ext, bass, o[1])
    want = spec_join(root, q, ext, bass)
    if grammar(want) is not None:
        if o != ("ok", want):
            return "join(%r, %r, %r, %r) = %r but the parts spell the label %r" % (root, q, ext, bass, o, want)
    elif o[0] != "invalid":
        return "join(%r, %r, %r, %r) = %r although the parts do not spell a label of the syntax" % (root, q, ext, bass, o)
    return None


def gen_join(rng, tier, shard, nshards, boost):
    quals = SHORTHANDS + ["", "", "b9", "#11", "Maj", "min "]
    for root, q, ext, bass in [("C", "maj", ["3", "5"], "5"), ("C", "", ["5", "3"], ""), ("A", "7", ["13", "9", "3", "11"], "b7"),
                               ("G", "min", ["*b3", "*5", "9", "b13"], "1"), ("N", "", [], ""), ("X", "maj", [], "1"),
                               ("C", "", None, ""), ("C", "maj", None, "1"), ("D", "13", ["*13", "*11", "*9", "b7", "5"], "3")][shard::nshards]:
        yield {"root": root, "quality": q, "extensions": ext, "bass": bass}
    n = (1500 if tier == "thorough" else 200) * boost
    for _ in range(n):
        k = rng.randrange(3)
        if k == 0:          # the parts of a real split, in sorted, reversed or shuffled order
            s = rng.choice([sample_label, random_label])(rng)
            try:
                root, q, degs, bass = chord.split(s, reduce_extended_chords=rng.random() < 0.5)
            except chord.InvalidChordException:
                continue
            ext = sorted(degs)
            rng.shuffle(ext)
        else:
            root = rng.choice(ROOTS + ["N", "X", "", "H"]) if k == 1 else rng.choice(ROOTS)
            q = rng.choice(quals)
            ext = [rng.choice(ITEMS + ["", "14", "3 ", "*"]) if k == 1 and rng.random() < 0.3 else rng.choice(ITEMS)
                   for _ in range(rng.choice([0, 1, 2, 3, 4, 5]))]
            bass = rng.choice(["", "1", "b1"] + DEGREES + (["0", "/5"] if k == 1 else []))
        yield {"root": root, "quality": q, "extensions": ext, "bass": bass}


CHECKERS = {"chord.validate_chord_label": check_validate, "chord.encode": check_encode,
            "chord.encode_many": check_encode_many, "chord.join": check_join}
ORACLES = {"chord.validate_chord_label": gen_validate, "chord.encode": gen_encode,
           "chord.encode_many": gen_encode_many, "chord.join": gen_join}


def classify(suite, d):
    i = d.get("info") or {}
    if "labels" in i:
        return "chord.encode_many", {"labels": i["labels"], "reduce": i.get("reduce", False)}
    if "root" in i and "extensions" in i:
        return "chord.join", {"root": i["root"], "quality": i["quality"], "extensions": i["extensions"], "bass": i["bass"]}
    if "label" not in i:
        return None
    if d["op"] in ("chord.accept", "chord.validate", "chord.recognize", "chord.re_match"):
        return "chord.validate_chord_label", {"label": i["label"]}
    return "chord.encode", {"label": i["label"], "reduce": i.get("reduce", False), "strict": i.get("strict", False)}
