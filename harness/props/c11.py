"""C11 — chord comparison rules form the documented lattice.

Correspondence: the 12 comparison functions of mir_eval.chord on label pairs (real code, vectorised calls)
against the Lean row model `Mir.ChordCompare.cmp` on the (root, bitmap, bass) triples produced by the real
`mir_eval.chord.encode` (the label parser / encoder is another slice: C10).
Oracles: the lattice relations and vocabularies asserted directly on the real functions.
"""
import numpy as np
import mir_eval
import mir_eval.chord

import chordlabels as cl
from core import Case

PID = "C11"
LEAN_MODULES = ["MirProofs.Props.C11", "MirProofs.Props.C11_Labels", "MirProofs.Props.C11_GenFns"]
# C11_GenFns: chord.rotate_bitmap_to_root REGENERATED from the source (harness/translate/scalars_chordfn.py) = ChordCompare.rotate
TRANSLATOR_PARTS = ["chordfns_rotate"]
# C11_GenCmp: the twelve comparison functions (+ validate, rotate_bitmaps_to_roots) REGENERATED from the source
# (harness/translate/chordcmp.py -> lean/MirGen/ChordCmp.lean) = the row model on the rows of encode_many, for all label lists
LEAN_MODULES += ["MirProofs.Props.C11_GenCmp"]
TRANSLATOR_PARTS += ["chordcmp"]
RULE = ("label pairs from a pool of ~5200 grammar-valid encodable labels (every shorthand x 5 roots x "
        "{no bass, 11 bass degrees} x {no / added / omitted degree} + N + X + respellings); the estimate shares "
        "the reference root in ~half of the pairs; non-trivial = reference is not X and roots agree")
ASSUMPTIONS = [
    "labels reach the comparison rules only through chord.encode_many (rows of length 12); the model is "
    "the row semantics over the encoded triples; C11_Labels.encode_reachable / encode_many_reachable prove that "
    "every row the C10 encode model can produce is in the Reachable set of the lattice theorems, and states the "
    "lattice for labels through labelCmp (= encode both labels, then compare)",
    "the quality bitmaps maj/min/7/maj7/min7/'' hard-coded in MirModel/ChordCompare.lean are tied to the "
    "regenerated QUALITIES table by the G-obligation C11_Labels.tables_quality_rows (and still checked against "
    "the code by the correspondence of majmin*/sevenths* on every shorthand)",
]
UNPROVED = []
EXHAUSTIVE = {"quick": False, "thorough": True}

BATCH = 64


def _all_rules(refs, ests):
    return [cl.rule_fn(r)(refs, ests) for r in cl.RULES]


def _batch_case(pairs, tag):
    refs = [p[0] for p in pairs]
    ests = [p[1] for p in pairs]
    nontrivial = any(cl.enc(r)[0] == cl.enc(e)[0] and r != "X" for r, e in pairs)
    return Case("chord.compare_all", [[cl.enc_arg(r) for r in refs], [cl.enc_arg(e) for e in ests]],
                lambda refs=refs, ests=ests: _all_rules(refs, ests),
                tag=tag, info={"ref": refs, "est": ests}, nontrivial=nontrivial)


def suite_rules_random(rng, tier, shard, nshards):
    n = (100000 if tier == "quick" else 800000) // nshards
    pairs = [cl.draw_pair(rng) for _ in range(n)]
    for i in range(0, len(pairs), BATCH):
        yield _batch_case(pairs[i:i + BATCH], "random-batch")


def suite_rules_exhaustive(rng, tier, shard, nshards):
    """thorough: all ordered pairs of distinct encodings (one label per encoding) — the rules only see encodings;
    quick: the pairs (ref, est) with est in a fixed 40-label slice"""
    reps = cl.distinct_encodings()
    ests = reps if tier == "thorough" else reps[::max(1, len(reps) // 40)]
    buf = []
    for i, ref in enumerate(reps):
        if i % nshards != shard:
            continue
        for est in ests:
            buf.append((ref, est))
            if len(buf) == 4 * BATCH:
                yield _batch_case(buf, "encoding-pairs")
                buf = []
    if buf:
        yield _batch_case(buf, "encoding-pairs")


def suite_rules_single(rng, tier, shard, nshards):
    """the one-pair protocol ops chord.<rule> (each rule called on one-element lists)"""
    n = (1200 if tier == "quick" else 24000) // nshards
    for _ in range(n):
        ref, est = cl.draw_pair(rng)
        rule = cl.RULES[rng.randrange(len(cl.RULES))]
        yield Case("chord." + rule, [cl.enc_arg(ref), cl.enc_arg(est)],
                   lambda ref=ref, est=est, rule=rule: cl.rule_fn(rule)([ref], [est])[0],
                   tag=rule, info={"ref": [ref], "est": [est]},
                   nontrivial=(cl.enc(ref)[0] == cl.enc(est)[0] and ref != "X"))


def suite_reachable(rng, tier, shard, nshards):
    """every encoding the real encoder produces on the pool satisfies the hypothesis `Reachable` of the theorems"""
    for i, lab in enumerate(cl.pool()):
        if i % nshards != shard:
            continue
        yield Case("chord.reachable", [cl.enc_arg(lab)], lambda: True, tag="pool", info={"label": lab},
                   nontrivial=lab not in ("N", "X"))


def suite_gen_rotate(rng, tier, shard, nshards):
    """driver op `gen.chordfn rotate_bitmap_to_root`: the definition REGENERATED from the source (lean/MirGen/ChordFns.lean)
    against the real function: every QUALITIES row x every root, random 0/1 and signed rows, other lengths (a nonzero
    entry of a row shorter than 12 can raise IndexError), roots far outside 0..11"""
    def case(bm, root, tag):
        return Case("gen.chordfn", ["rotate_bitmap_to_root", bm, root],
                    lambda bm=bm, root=root: mir_eval.chord.rotate_bitmap_to_root(np.array(bm, dtype=np.int64), root),
                    tag="gen rotate_bitmap_to_root:" + tag, info={"bitmap": bm, "root": root},
                    nontrivial=any(bm))
    rows = [list(v) for v in mir_eval.chord.QUALITIES.values()]
    for i, bm in enumerate(rows):
        if i % nshards == shard:
            for root in range(-1, 12):
                yield case(bm, root, "qualities")
    for _ in range((4000 if tier == "thorough" else 400) // nshards):
        k = rng.randrange(5)
        ln = 12 if k < 3 else rng.choice([0, 1, 5, 11, 13, 24])
        bm = [rng.randint(0, 1) if k == 0 else rng.choice([0, 0, 1, 1, -1, 2]) for _ in range(ln)]
        root = rng.randint(0, 11) if k < 2 else rng.randint(-30, 30)
        yield case(bm, root, "rows" if ln == 12 else "other-lengths")


# labels outside the pool: grammar-valid but not encodable (InvalidChordException from encode_many), and strings that
# validate_chord_label rejects (InvalidChordException from validate)
UNENCODABLE = ["C:aug7", "F#:maj11", "Bb:aug7/3", "C:maj11(9)"]
INVALID = ["", "H:maj", "C:foo", "C:maj/", "c:maj", "C:maj(", "N:maj", "C::maj", "C:maj/8b", "X/3", " C", "C:maj7 ", "Q"]


def _np_rows(rows):
    return [np.array(r, dtype=np.int64) for r in rows]


def suite_gen_chordcmp(rng, tier, shard, nshards):
    """driver op `gen.chordcmp <function> <ref labels> <est labels>`: the definitions REGENERATED from the source
    (lean/MirGen/ChordCmp.lean, over the primitives of MirModel/PyCmp.lean) against the real functions on whole label LISTS:
    every pool label as a reference (all qualities x roots x basses, added / omitted degrees, extended chords, N, X,
    respellings), random batches per rule, the empty lists (mirex: TypeError from a 0-d score), unequal lengths
    (ValueError before anything else), unencodable and invalid labels on either side, `validate` and
    `rotate_bitmaps_to_roots` called directly (ragged / short rows, zip truncation, the empty matrix)."""
    def case(rule, refs, ests, tag):
        return Case("gen.chordcmp", [rule, list(refs), list(ests)],
                    lambda: cl.rule_fn(rule)(list(refs), list(ests)),
                    tag="gen %s:%s" % (rule, tag), info={"rule": rule, "ref": list(refs), "est": list(ests)},
                    nontrivial=any(r not in ("X",) for r in refs))
    p = cl.pool()
    # (1) every pool label is a reference once per run; the rule rotates with the batch
    mine = [lab for i, lab in enumerate(p) if i % nshards == shard]
    for k in range(0, len(mine), BATCH):
        refs = mine[k:k + BATCH]
        ests = [(cl.draw_pair(rng)[1] if rng.random() < 0.5 else
                 rng.choice(cl.pool_by_root()[cl.enc(r)[0]])) for r in refs]
        for j, rule in enumerate(cl.RULES):
            if tier == "thorough" or (k // BATCH + j) % 3 == 0:
                yield case(rule, refs, ests, "pool")
    # (2) random batches of every rule, lengths 1..48
    for rule in cl.RULES:
        for _ in range((40 if tier == "thorough" else 6) * 8 // nshards + 1):
            n = rng.choice([1, 1, 2, 3, 7, 16, 48])
            pairs = [cl.draw_pair(rng) for _ in range(n)]
            yield case(rule, [a for a, _ in pairs], [b for _, b in pairs], "random")
    # (3) corners, once per run
    if shard == 0:
        for rule in cl.RULES:
            yield case(rule, [], [], "empty")
            yield case(rule, ["C"], ["C", "D:min"], "unequal")
            yield case(rule, ["C", "G:7", "N"], ["C"], "unequal")
            yield case(rule, [], ["N"], "unequal")
            yield case(rule, ["H:maj"], [], "unequal+invalid")
            yield case(rule, ["N", "X", "N", "X"], ["N", "N", "X", "X"], "sentinels")
            for bad in UNENCODABLE[:2] + INVALID[:4]:
                yield case(rule, ["C:maj", bad], ["C:maj", "G"], "bad-ref")
                yield case(rule, ["C:maj", "G"], [bad, "C:maj"], "bad-est")
            yield case(rule, ["C:aug7"], ["H"], "bad-both")
            yield case(rule, ["C:maj/7", "C:min/b7", "A:maj/6", "A:min/b6", "C:maj/2"],
                       ["C:maj/7", "C:min/b7", "A:maj/6", "A:min", "C:maj/2"], "bass-above-fifth")
    # (4) validate and rotate_bitmaps_to_roots directly
    nv = (400 if tier == "thorough" else 60) // nshards + 1
    for _ in range(nv):
        n, m = rng.choice([(0, 0), (1, 1), (3, 3), (5, 5), (2, 3), (4, 0)])
        def lab():
            u = rng.random()
            return (rng.choice(INVALID) if u < 0.12 else rng.choice(UNENCODABLE) if u < 0.2 else p[rng.randrange(len(p))])
        refs, ests = [lab() for _ in range(n)], [lab() for _ in range(m)]
        yield Case("gen.chordcmp", ["validate", refs, ests],
                   lambda refs=refs, ests=ests: mir_eval.chord.validate(refs, ests),
                   tag="gen validate", info={"rule": "validate", "ref": refs, "est": ests}, nontrivial=n > 0)
    rows = [list(v) for v in mir_eval.chord.QUALITIES.values()]
    for _ in range(nv):
        n = rng.choice([0, 1, 2, 5])
        k = rng.randrange(6)
        bms = [list(rng.choice(rows)) if k < 4 else [rng.choice([0, 1, 1, -1]) for _ in range(rng.choice([12, 12, 5, 13]))]
               for _ in range(n)]
        roots = [rng.randint(-1, 11) if k != 3 else rng.randint(-30, 30) for _ in range(n + (k == 2) - (k == 1 and n > 0))]
        yield Case("gen.chordcmp", ["rotate_bitmaps_to_roots", bms, roots],
                   lambda bms=bms, roots=roots: mir_eval.chord.rotate_bitmaps_to_roots(_np_rows(bms), np.array(roots, dtype=np.int64)),
                   tag="gen rotate_bitmaps_to_roots", info={"rule": "rotate_bitmaps_to_roots", "bitmaps": bms, "roots": roots},
                   nontrivial=n > 0)


SUITES = {"reachable": suite_reachable, "gen_chordcmp": suite_gen_chordcmp, "rules_random": suite_rules_random, "rules_exhaustive": suite_rules_exhaustive,
          "rules_single": suite_rules_single, "gen_chordfn.rotate": suite_gen_rotate}


# ----------------------------------------------------------------------------------------------------
# the property itself on the real code

# stricter => looser (a match under the first is a match under the second)
IMPLICATIONS = [("tetrads_inv", "tetrads"), ("tetrads", "triads"), ("triads", "thirds"), ("thirds", "root"),
                ("thirds_inv", "thirds"), ("triads_inv", "triads"), ("majmin_inv", "majmin"),
                ("sevenths_inv", "sevenths"), ("tetrads_inv", "triads_inv"), ("triads_inv", "thirds_inv"),
                ("majmin", "triads"), ("sevenths", "tetrads"), ("majmin_inv", "triads_inv"),
                ("sevenths_inv", "tetrads_inv")]


def _scores(ref, est):
    return {r: float(cl.rule_fn(r)([ref], [est])[0]) for r in cl.RULES}


def check_lattice(inp):
    ref, est, est2 = inp["ref"], inp["est"], inp["est2"]
    if inp.get("warm"):
        # the rule applied as the first call of a process vs. after the labels went through the segmentation step of
        # chord.evaluate (merge_chord_intervals encodes them with reduce_extended_chords=True): the same values
        from props._relational import fresh_library
        fresh_library("chord")
        cold = _scores(ref, est)
        fresh_library("chord")
        mir_eval.chord.merge_chord_intervals(np.array([[0.0, 1.0], [1.0, 2.0], [2.0, 3.0]]), [ref, est, est2])
        warm = _scores(ref, est)
        for r in cl.RULES:
            if cold[r] != warm[r]:
                return ("%s(%r, %r) = %r as a first call but %r after merge_chord_intervals saw the same labels: the "
                        "value depends on call history, not on the labels" % (r, ref, est, cold[r], warm[r]))
        if inp.get("history"):
            # ... and vs. after OTHER labels were scored in the same process (labels that share scale degrees, qualities
            # or roots with these, e.g. the same degree once added and once omitted)
            fresh_library("chord")
            for h1, h2 in inp["history"]:
                try:
                    _scores(h1, h2)
                except mir_eval.chord.InvalidChordException:
                    pass
            warm = _scores(ref, est)
            for r in cl.RULES:
                if cold[r] != warm[r]:
                    return ("%s(%r, %r) = %r as a first call but %r after %r were scored in the same process: the value "
                            "depends on call history, not on the labels" % (r, ref, est, cold[r], warm[r], inp["history"]))
    s = _scores(ref, est)
    s2 = _scores(ref, est2)
    ss = _scores(ref, ref)
    for r in cl.RULES:
        for nm, d in (("est", s), ("est2", s2), ("self", ss)):
            if d[r] not in (-1.0, 0.0, 1.0):
                return "%s(%r, %s) = %r is not one of -1, 0, 1" % (r, ref, nm, d[r])
        if (s[r] == -1.0) != (s2[r] == -1.0):
            return "%s: -1 depends on the estimate: (%r,%r) -> %r but (%r,%r) -> %r" % (r, ref, est, s[r], ref, est2, s2[r])
        if (s[r] == -1.0) != (ss[r] == -1.0):
            return "%s: -1 depends on the estimate: (%r,%r) -> %r but self -> %r" % (r, ref, est, s[r], ss[r])
        if ss[r] == 0.0:
            return "%s(%r, %r) = 0 (a label compared with itself)" % (r, ref, ref)
        if ref == "X" and s[r] != -1.0:
            return "%s(X, %r) = %r, X must always be ignored" % (r, est, s[r])
    for d, e in ((s, est), (s2, est2)):
        for strict, loose in IMPLICATIONS:
            if d[strict] == 1.0 and d[loose] != 1.0:
                return "%s(%r,%r) = 1 but %s = %r" % (strict, ref, e, loose, d[loose])
        if d["tetrads"] == 1.0 and d["mirex"] == 0.0:
            return "tetrads(%r,%r) = 1 but mirex = 0" % (ref, e)
    return None


def check_vocab(inp):
    """majmin / sevenths / sevenths_inv vocabularies (encoding-level predicates of DESIGN §5 C11)"""
    ref, est = inp["ref"], inp["est"]
    s = _scores(ref, est)
    root, bm, bass = cl.enc(ref)
    bm = list(bm)
    is_n = (ref == "N")
    in_majmin = is_n or (ref != "X" and bm[:8] in (cl.MAJ[:8], cl.MIN[:8]))
    in_sev = is_n or (ref != "X" and bm in cl.SEVENTH_BITMAPS)
    if (s["majmin"] != -1.0) != in_majmin:
        return "majmin(%r, .) = %r but reference %s the maj/min/N vocabulary" % (ref, s["majmin"], "is in" if in_majmin else "is outside")
    if (s["sevenths"] != -1.0) != in_sev:
        return "sevenths(%r, .) = %r but reference %s the maj/min/7/maj7/min7/N vocabulary" % (ref, s["sevenths"], "is in" if in_sev else "is outside")
    # encoding-level majmin_inv vocabulary (theorem inv_vocab): the plain vocabulary plus bitmap[bass] != 0
    in_majmin_inv = in_majmin and (is_n or bm[bass] == 1)
    if (s["majmin_inv"] != -1.0) != in_majmin_inv:
        return "majmin_inv(%r, .) = %r but the triad-prefix/bass-bit test says %r" % (ref, s["majmin_inv"], in_majmin_inv)
    in_sev_inv = in_sev and (is_n or bm[bass] == 1)
    if (s["sevenths_inv"] != -1.0) != in_sev_inv:
        return "sevenths_inv(%r, .) = %r but vocabulary/bass test says %r" % (ref, s["sevenths_inv"], in_sev_inv)
    for r in ("thirds", "thirds_inv", "triads", "triads_inv", "tetrads", "tetrads_inv", "root"):
        if (s[r] == -1.0) != (ref == "X"):
            return "%s(%r, .) = %r: only X is outside this rule's vocabulary" % (r, ref, s[r])
    return None


def check_majmin_inv(inp):
    """documented: 'qualities outside Major/minor/no-chord are ignored, and the bass note must exist in the
    triad (bass in [1, 3, 5])'"""
    ref, est = inp["ref"], inp["est"]
    got = float(mir_eval.chord.majmin_inv([ref], [est])[0])
    if ref == "N":
        want_cmp = True
    elif ref == "X":
        want_cmp = False
    else:
        root, bm, bass = cl.enc(ref)
        bm = list(bm)
        b = cl.bass_semitone(ref)
        want_cmp = (bm[:8] == cl.MAJ[:8] and b in (0, 4, 7)) or (bm[:8] == cl.MIN[:8] and b in (0, 3, 7))
    if (got != -1.0) != want_cmp:
        return "majmin_inv(%r, %r) = %r but the reference %s (triad + bass in the triad)" % (
            ref, est, got, "is in the documented vocabulary" if want_cmp else "is outside the documented vocabulary")
    return None


def _gen_pairs(rng, tier, shard, nshards, boost, n_quick, n_thorough, third):
    n = (n_quick if tier == "quick" else n_thorough) * boost // nshards
    p = cl.pool()
    # every pool label is a reference at least once (sharded), then random pairs
    for i, ref in enumerate(p):
        if i % nshards == shard:
            est = cl.draw_pair(rng)[1]
            d = {"ref": ref, "est": est}
            if third:
                d["est2"] = p[rng.randrange(len(p))]
            yield d
    for _ in range(n):
        ref, est = cl.draw_pair(rng)
        d = {"ref": ref, "est": est}
        if third:
            d["est2"] = cl.draw_pair(rng)[1] if rng.random() < 0.5 else rng.choice(["N", "X", ref])
        yield d


def _polarity_twins(label):
    """labels that use the parenthesised degrees of `label` with the other polarity (added <-> omitted)"""
    import re
    out = []
    m = re.search(r"\(([^)]*)\)", label)
    if m:
        root = label.split(":")[0].split("/")[0].split("(")[0] or "C"
        for deg in [x for x in m.group(1).split(",") if x]:
            twin = deg[1:] if deg.startswith("*") else "*" + deg
            out.append("%s:maj(%s)" % (root, twin))
            out.append("%s:(%s,5)" % ("E" if root != "E" else "A", twin) if not twin.startswith("*") else "A:min(%s)" % twin)
    return out


def gen_lattice(rng, tier, shard, nshards, boost):
    p = cl.pool()
    for d in _gen_pairs(rng, tier, shard, nshards, boost, 16000, 200000, True):
        u = rng.random()
        if u < 0.04 or (u < 0.12 and "(" in d["ref"] + d["est"]):
            d["warm"] = True
            if u >= 0.02:
                hist = [p[rng.randrange(len(p))] for _ in range(rng.randint(1, 4))]
                hist += _polarity_twins(d["ref"]) + _polarity_twins(d["est"])
                rng.shuffle(hist)
                d["history"] = [[h, hist[(k + 1) % len(hist)]] for k, h in enumerate(hist)]
        yield d


def gen_vocab(rng, tier, shard, nshards, boost):
    return _gen_pairs(rng, tier, shard, nshards, boost, 8000, 100000, False)


def gen_majmin_inv(rng, tier, shard, nshards, boost):
    return _gen_pairs(rng, tier, shard, nshards, boost, 8000, 100000, False)


def check_rotate(inp):
    """rotate_bitmap_to_root (through which mirex sees absolute pitch classes) is the documented circular shift: pitch
    class (i + root) mod 12 is active iff relative semitone i is (docstring: G:maj, root 7 -> G, B, D)"""
    bm, root = list(inp["bitmap"]), int(inp["root"])
    try:
        got = [int(x) for x in np.asarray(mir_eval.chord.rotate_bitmap_to_root(np.array(bm, dtype=np.int64), root)).tolist()]
    except Exception as e:  # noqa: BLE001 - this is the observation
        return "rotate_bitmap_to_root(%r, %r) raised %s" % (bm, root, type(e).__name__)
    want = [0] * 12
    for i, v in enumerate(bm):
        if v:
            want[(i + root) % 12] = 1
    if got != want:
        return "rotate_bitmap_to_root(%r, %r) = %r, the circular shift is %r" % (bm, root, got, want)
    return None


def gen_rotate(rng, tier, shard, nshards, boost):
    yield {"bitmap": [1, 0, 0, 0, 1, 0, 0, 1, 0, 0, 0, 0], "root": 7}
    rows = [list(v) for v in mir_eval.chord.QUALITIES.values()]
    for _ in range((300 if tier == "thorough" else 60) * boost):
        bm = rng.choice(rows) if rng.random() < 0.5 else [rng.randint(0, 1) for _ in range(12)]
        yield {"bitmap": bm, "root": rng.randint(0, 11)}


def _documented_score(rule, ref, est):
    """the documented reading of a rule on ONE label pair, computed from the two encodings with plain Python (no
    NumPy, none of the comparison code): what is compared (root / third / triad = first 8 semitones / all 12 / + bass),
    which references are outside the vocabulary (-1); majmin_inv / sevenths_inv at the encoding level (bitmap[bass]),
    the documented bass-in-triad reading of majmin_inv is the separate site chord.majmin_inv"""
    (rr, rb, rs), (er, eb, es) = cl.enc(ref), cl.enc(est)
    rb, eb = list(rb), list(eb)
    if ref == "X":
        return -1.0
    base = rule[:-4] if rule.endswith("_inv") else rule
    inv_ok = (rs == es) if rule.endswith("_inv") else True
    if base == "root":
        return float(rr == er)
    if base == "thirds":
        return float(rr == er and rb[3] == eb[3] and inv_ok)
    if base == "triads":
        return float(rr == er and rb[:8] == eb[:8] and inv_ok)
    if base == "tetrads":
        return float(rr == er and rb == eb and inv_ok)
    if base == "mirex":
        if 0 < sum(1 for v in rb if v > 0) < 3:
            return -1.0
        if rr == -1 and er == -1:
            return 1.0
        pcs = lambda root, bm: {(i + root) % 12 for i, v in enumerate(bm) if v}
        return float(len(pcs(rr, rb) & pcs(er, eb)) >= 3)
    is_n = (ref == "N")
    if base == "majmin":
        if not (is_n or rb[:8] in (cl.MAJ[:8], cl.MIN[:8])):
            return -1.0
        if rule.endswith("_inv") and not is_n and rb[rs] == 0:
            return -1.0
        return float(rr == er and rb[:8] == eb[:8] and inv_ok)
    if base == "sevenths":
        if not (is_n or rb in cl.SEVENTH_BITMAPS):
            return -1.0
        if rule.endswith("_inv") and not is_n and rb[rs] == 0:
            return -1.0
        return float(rr == er and rb == eb and inv_ok)
    raise KeyError(rule)


def check_definition(inp):
    """every rule on one pair returns what its documentation says it compares (root; root + third; root + triad; root +
    all semitones; the same + bass for *_inv; >= 3 common pitch classes for mirex; the maj/min resp. seventh
    vocabularies)"""
    ref, est = inp["ref"], inp["est"]
    for r in ([inp["rule"]] if inp.get("rule") else cl.RULES):
        got = float(cl.rule_fn(r)([ref], [est])[0])
        want = _documented_score(r, ref, est)
        if got != want:
            return "%s(%r, %r) = %r, the documented comparison gives %r" % (r, ref, est, got, want)
    return None


def gen_definition(rng, tier, shard, nshards, boost):
    return _gen_pairs(rng, tier, shard, nshards, boost, 2000, 60000, False)


CHECKERS = {"chord.definition": check_definition, "chord.lattice": check_lattice, "chord.vocab": check_vocab, "chord.majmin_inv": check_majmin_inv,
            "chord.rotate_bitmap_to_root": check_rotate}
ORACLES = {"chord.definition": gen_definition, "chord.lattice": gen_lattice, "chord.vocab": gen_vocab, "chord.majmin_inv": gen_majmin_inv,
           "chord.rotate_bitmap_to_root": gen_rotate}


def _diff_pair_index(d):
    """index of the disagreeing pair inside a batch, from the diff path '[rule][pair]: …'"""
    import re
    m = re.match(r"\[(\d+)\]\[(\d+)\]", d.get("diff") or "")
    return int(m.group(2)) if m else 0


def classify(suite, d):
    """a disagreeing correspondence case -> the property's own checkers on the disagreeing pair"""
    i = d["info"]
    if suite == "gen_chordfn.rotate":
        return ("chord.rotate_bitmap_to_root", {"bitmap": i["bitmap"], "root": i["root"]}) if len(i["bitmap"]) == 12 else None
    if suite == "reachable":
        return "chord.lattice", {"ref": i["label"], "est": i["label"], "est2": "N"}
    if suite == "gen_chordcmp":
        if i.get("rule") not in cl.RULES or not i["ref"] or len(i["ref"]) != len(i["est"]):
            return None
        import re
        m = re.match(r"\[(\d+)\]", d.get("diff") or "")
        k = int(m.group(1)) if m and int(m.group(1)) < len(i["ref"]) else 0
        if cl.enc(i["ref"][k]) is None or cl.enc(i["est"][k]) is None:
            return None
        inp = {"ref": i["ref"][k], "est": i["est"][k], "est2": "N"}
        if check_lattice(inp) is None and check_vocab(inp) is not None:
            return "chord.vocab", inp
        return "chord.lattice", inp
    refs, ests = i["ref"], i["est"]
    k = _diff_pair_index(d) if len(refs) > 1 else 0
    k = k if k < len(refs) else 0
    inp = {"ref": refs[k], "est": ests[k], "est2": "N"}
    if check_lattice(inp) is None and check_vocab(inp) is not None:
        return "chord.vocab", inp
    if check_lattice(inp) is None and check_definition(inp) is not None:
        return "chord.definition", {"ref": inp["ref"], "est": inp["est"]}
    return "chord.lattice", inp
