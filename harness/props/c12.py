"""C12 — interval scores are duration-weighted and blind to how time is cut up.

Correspondence of `chord.weighted_accuracy`, `chord.merge_chord_intervals`, `chord.directional_hamming_distance`,
`overseg/underseg/seg`, the merge+durations+weighted_accuracy pipeline and `chord.evaluate` (root accuracy and
segmentation scores, on labels whose encoding is determined by the root) against `MirModel/Intervals.lean`;
refinement / rescaling oracles on the real `chord.evaluate`, the frame-based `segment` metrics and
`hierarchy.lmeasure`.
"""
from fractions import Fraction as Fr

import numpy as np

import mir_eval

from core import Case
from props.c13 import rand_annotation, enum_annotations, arr, F, U

PID = "C12"
LEAN_MODULES = ["MirProofs.Props.C12", "MirProofs.Props.C12_Segment", "MirProofs.Props.C12_Hierarchy",
                "MirProofs.Props.C12_Gen"]
TRANSLATOR_PARTS = ["chordseg"]    # harness/translate/chordseg.py -> lean/MirGen/ChordSeg.lean (Props/C12_Gen.lean: Gen = model)
RULE = ("annotations on the 1/32 lattice; refinements cut 1-5 intervals at interior lattice points, incl. points "
        "that coincide with the other annotation's boundaries and with frame times; weights rescaled by powers "
        "of two; non-trivial = the call returns a score (no exception)")
ASSUMPTIONS = [
    "binary64 arithmetic is exact on the 1/32 lattice except for the final normalisation w/total and the "
    "weighted sum (compared at 1e-9 against the rational model, at 1e-12 between refinements)",
    "chord labels enter the model as abstract tokens (one token per distinct encoding); the encoding itself "
    "belongs to C10/C11",
]
UNPROVED = [
    "hierarchy.lmeasure is proved invariant under cutting a labelled segment of any level at any interior point, value or "
    "exception (Props/C12_Hierarchy.lean: meet_split, lmeasure_split_ref / _est; hypothesis: the cut segment starts at a "
    "time >= 0); the six frame-based segment metrics likewise (Props/C12_Segment.lean: scores_split_ref / _est)",
    "the T-measure's lca is segment-based, not label-based: invariance is FALSE for it "
    "(C12_Hierarchy.tmeasure_split_full_statement_false, concrete witness) and is not claimed",
]

PITCH = ["C", "C#", "D", "Eb", "E", "F", "F#", "G", "Ab", "A", "Bb", "B"]
PC = {"C": 0, "C#": 1, "D": 2, "Eb": 3, "E": 4, "F": 5, "F#": 6, "G": 7, "Ab": 8, "A": 9, "Bb": 10, "B": 11}
RICH = ["N", "X", "C:maj", "C:min", "G:7", "A:min7", "F:maj/3", "D:sus4", "E:maj(9)", "Bb:maj7", "C:maj6",
        "G:maj", "C", "A:min", "F#:dim", "Ab:aug", "D:min7/b7", "E:hdim7", "G:(1,5)", "B:maj(*3)",
        "G:9", "A:min9", "Bb:maj9", "G:7(*5)", "D:sus4(b7)", "E:11", "A:13"]
# the same chord with an extension / an interval edit: equal under the reduced encoding the segmentation step uses, or
# sharing its base quality's bitmap
EXT_TWIN = {"G:7": ["G:9", "G:7(*5)"], "A:min7": ["A:min9"], "Bb:maj7": ["Bb:maj9"], "D:sus4": ["D:sus4(b7)"],
            "G:9": ["G:7"], "A:min9": ["A:min7"], "Bb:maj9": ["Bb:maj7"], "E:maj(9)": ["E:maj"], "B:maj(*3)": ["B:maj"]}


def root_label(tok):
    return "N" if tok == -1 else ("X" if tok == -2 else PITCH[tok] + ":maj")


# ----------------------------------------------------------------------------------------
# correspondence

def suite_wacc(rng, tier, shard, nshards):
    n = 400 if tier == "quick" else 5000
    for _ in range(n):
        k = rng.randint(0, 7)
        r = rng.random()
        cs = [Fr(rng.choice([-1, 0, 1, 1])) for _ in range(k)]
        if r < 0.1:
            cs = [Fr(-1)] * k
        ws = [Fr(rng.randint(0, 64), 32) for _ in range(k)]
        tag = "plain"
        if r < 0.08 and k:
            ws[rng.randrange(k)] = Fr(-1, 32)
            tag = "negative-weight"
        elif r < 0.16:
            ws = [Fr(0)] * k
            tag = "zero-weights"
        elif r < 0.24 and k:
            ws = [w if c < 0 else Fr(0) for c, w in zip(cs, ws)]
            tag = "valid-weight-zero"
        elif r < 0.3:
            ws = ws + [Fr(1)]
            tag = "length-mismatch"
        elif r < 0.4:
            cs = [Fr(rng.randint(0, 4), 4) if c >= 0 else c for c in cs]
            tag = "fractional"
        yield Case("chord.weighted_accuracy", [cs, ws],
                   lambda cs=cs, ws=ws: mir_eval.chord.weighted_accuracy(
                       np.array([F(c) for c in cs], dtype=float), np.array([F(w) for w in ws], dtype=float)),
                   tol=1e-9, tag=tag, info={"cs": [F(c) for c in cs], "ws": [F(w) for w in ws]},
                   nontrivial=k > 0)


_TOKENS = {}


def token_of(label):
    enc = mir_eval.chord.encode(label, True)
    key = (int(enc[0]), tuple(int(v) for v in enc[1]), int(enc[2]))
    return _TOKENS.setdefault(key, len(_TOKENS))


def suite_merge_chord(rng, tier, shard, nshards):
    n = 200 if tier == "quick" else 3000
    pool = RICH + ["C:maj", "C", "C:maj", "N", "N"]     # equal encodings under different spellings on purpose
    for _ in range(n):
        ivs, _ = rand_annotation(rng, nmax=7, top=64, allow_empty=rng.random() < 0.05)
        labs = []
        for k in range(len(ivs)):
            labs.append(labs[-1] if labs and rng.random() < 0.4 else rng.choice(pool))
        toks = [token_of(l) for l in labs]
        yield Case("chord.merge_chord_intervals", [[[s, e] for s, e in ivs], toks],
                   lambda ivs=ivs, labs=labs: mir_eval.chord.merge_chord_intervals(arr(ivs), list(labs)),
                   tol=0.0, tag="n=%d" % len(ivs), info={"intervals": [[F(s), F(e)] for s, e in ivs], "labels": labs},
                   nontrivial=bool(ivs))


def rand_ivals(rng, fault=True):
    ivs, _ = rand_annotation(rng, nmax=5, top=rng.choice([16, 64]), allow_empty=fault and rng.random() < 0.04)
    tag = "valid"
    if fault and ivs:
        r = rng.random()
        if r < 0.06:
            k = rng.randrange(len(ivs))
            ivs[k] = (ivs[k][0], ivs[k][0])
            tag = "zero-duration"
        elif r < 0.12 and len(ivs) >= 2:
            k = rng.randrange(len(ivs) - 1)
            ivs[k] = (ivs[k][0], ivs[k + 1][0] + U)
            tag = "overlap"
        elif r < 0.16:
            ivs[0] = (Fr(-1, 32), ivs[0][1])
            tag = "negative"
        elif r < 0.2 and len(ivs) >= 2:
            ivs[0], ivs[1] = ivs[1], ivs[0]
            tag = "unsorted"
    return ivs, tag


def suite_seg(rng, tier, shard, nshards):
    n = 250 if tier == "quick" else 4000
    fns = {"chord.directional_hamming_distance": mir_eval.chord.directional_hamming_distance,
           "chord.overseg": mir_eval.chord.overseg, "chord.underseg": mir_eval.chord.underseg,
           "chord.seg": mir_eval.chord.seg}
    for _ in range(n):
        ref, t1 = rand_ivals(rng)
        if rng.random() < 0.5 and ref:
            # estimate on the same span, sharing some boundaries
            lo, hi = min(s for s, _ in ref), max(e for _, e in ref)
            if hi - lo > U:
                inner = sorted(set(rng.randint(int(lo / U) + 1, int(hi / U) - 1) * U
                                   for _ in range(rng.randint(0, 4))) | {s for s, _ in ref[1:] if rng.random() < 0.5})
                inner = [p for p in inner if lo < p < hi]
                bs = [lo] + inner + [hi]
                est, t2 = list(zip(bs[:-1], bs[1:])), "same-span"
            else:
                est, t2 = rand_ivals(rng)
        else:
            est, t2 = rand_ivals(rng)
        op = rng.choice(sorted(fns))
        yield Case(op, [[[s, e] for s, e in ref], [[s, e] for s, e in est]],
                   lambda op=op, ref=ref, est=est: fns[op](arr(ref), arr(est)),
                   tol=1e-9, tag="%s/%s" % (t1, t2),
                   info={"ref": [[F(s), F(e)] for s, e in ref], "est": [[F(s), F(e)] for s, e in est]},
                   nontrivial=bool(ref) and bool(est))


def aligned_tokens(rng, nmax=5, ref_x=True):
    from props.c13 import aligned_pair
    x, _, y, _ = aligned_pair(rng, nmax=nmax)
    if rng.random() < 0.5:
        x, y = y, x

    def toks(n, allow_x):
        out = []
        for _ in range(n):
            if out and rng.random() < 0.35:
                out.append(out[-1])
            else:
                out.append(rng.choice([-1, 0, 0, 2, 7, 9] + ([-2] if allow_x else [])))
        return out
    return x, toks(len(x), ref_x), y, toks(len(y), False)


def _py_score_eq(ri, rt, ei, et):
    iv, rl, el = mir_eval.util.merge_labeled_intervals(arr(ri), list(rt), arr(ei), list(et))
    d = mir_eval.util.intervals_to_durations(iv)
    comps = np.array([(-1.0 if a < -1 else float(a == b)) for a, b in zip(rl, el)], dtype=float)
    return mir_eval.chord.weighted_accuracy(comps, d)


def suite_score(rng, tier, shard, nshards):
    n = 250 if tier == "quick" else 4000
    for _ in range(n):
        ri, rt, ei, et = aligned_tokens(rng)
        yield Case("chord.score_eq", [[[s, e] for s, e in ri], rt, [[s, e] for s, e in ei], et],
                   lambda ri=ri, rt=rt, ei=ei, et=et: _py_score_eq(ri, rt, ei, et),
                   tol=1e-9, tag="aligned", info={"ref": [[F(s), F(e)] for s, e in ri], "rt": rt,
                                                  "est": [[F(s), F(e)] for s, e in ei], "et": et})


def _py_evaluate(ri, rt, ei, et):
    sc = mir_eval.chord.evaluate(arr(ri), [root_label(t) for t in rt], arr(ei), [root_label(t) for t in et])
    return [sc["root"], sc["underseg"], sc["overseg"], sc["seg"]]


def suite_evaluate(rng, tier, shard, nshards):
    n = 250 if tier == "quick" else 2500
    for _ in range(n):
        r = rng.random()
        if r < 0.5:
            ri, rt, ei, et = aligned_tokens(rng)
            tag = "aligned"
        else:
            ri, _ = rand_annotation(rng, nmax=5, top=64, contiguous=rng.random() < 0.7)
            ei, _ = rand_annotation(rng, nmax=5, top=64, contiguous=rng.random() < 0.7,
                                    allow_empty=rng.random() < 0.05)
            rt = [rng.choice([-2, -1, 0, 0, 2, 7]) for _ in ri]
            et = [rng.choice([-1, 0, 0, 2, 7]) for _ in ei]
            tag = "free"
            if ei and rng.random() < 0.5:
                # the shapes evaluate_split_est speaks about: estimate rows cut at lattice points that may fall
                # before, inside or after the reference span (the cut row is then cropped by adjust_intervals)
                cuts = [Fr(rng.randint(0, 64), 32) for _ in range(rng.randint(1, 4))] + [ri[0][0], ri[-1][1]]
                ei, et = refine(ei, et, cuts)
                ei = [tuple(r) for r in ei]
                tag = "free-cut"
        yield Case("chord.evaluate_tokens", [[[s, e] for s, e in ri], rt, [[s, e] for s, e in ei], et],
                   lambda ri=ri, rt=rt, ei=ei, et=et: _py_evaluate(ri, rt, ei, et),
                   tol=1e-9, tag=tag, info={"ref": [[F(s), F(e)] for s, e in ri], "rt": rt,
                                            "est": [[F(s), F(e)] for s, e in ei], "et": et})


# ----------------------------------------------------------------------------------------
# the functions as REGENERATED from the source (driver op `gen.chordseg`, lean/MirGen/ChordSeg.lean, translator part
# `chordseg`) vs the real functions: the streams of the hand-model suites above re-targeted, plus small scopes

GEN_FUNCTIONS = ("directional_hamming_distance", "overseg", "underseg", "seg", "merge_chord_intervals",
                 "weighted_accuracy")


def as_gen(c):
    fn = c.op.split(".", 1)[1]
    info = dict(c.info or {}, op="gen.chordseg", fn=fn)
    if fn == "merge_chord_intervals":        # the generated definition takes the labels themselves (encode_many is its extern)
        return Case("gen.chordseg", [fn, c.args[0], list(c.info["labels"])], c.call, tol=c.tol, tag="%s:%s" % (fn, c.tag),
                    info=info, nontrivial=c.nontrivial, post=c.post)
    return Case("gen.chordseg", [fn] + list(c.args), c.call, tol=c.tol, tag="%s:%s" % (fn, c.tag), info=info,
                nontrivial=c.nontrivial, post=c.post)


def suite_gen_chordseg(rng, tier, shard, nshards):
    for name in ("segmentation", "weighted_accuracy", "merge_chord_intervals"):
        for c in SUITES[name](rng, "quick", shard, nshards):
            if c.op.startswith("chord.") and c.op[6:] in GEN_FUNCTIONS:
                yield as_gen(c)
    # merge_chord_intervals: an invalid label anywhere (InvalidChordException from the extern), runs of equal encodings
    for labs in (["C:maj", "C", "C:maj", "N", "N", "G:7", "G:9"], ["C:maj", "nonsense", "C"], ["N"], [], ["X", "X", "N"],
                 ["A:min7", "A:min9", "A:min7/b7"]):
        ivs = [(Fr(k), Fr(k + 1)) for k in range(len(labs))]
        yield Case("gen.chordseg", ["merge_chord_intervals", [[s, e] for s, e in ivs], list(labs)],
                   lambda ivs=ivs, labs=labs: mir_eval.chord.merge_chord_intervals(arr(ivs), list(labs)),
                   tol=0.0, tag="merge_chord_intervals:corner",
                   info={"op": "gen.chordseg", "fn": "merge_chord_intervals", "labels": list(labs),
                         "intervals": [[F(s), F(e)] for s, e in ivs]}, nontrivial=bool(labs))
    # all pairs of annotations with <= 2 intervals on a 5-point lattice (valid ones), plus faulty references / estimates
    fns = {"directional_hamming_distance": mir_eval.chord.directional_hamming_distance, "overseg": mir_eval.chord.overseg,
           "underseg": mir_eval.chord.underseg, "seg": mir_eval.chord.seg}
    pts = [Fr(k) for k in range(0, 5)]
    anns = list(enum_annotations(pts, 2 if tier == "quick" else 3))
    faulty = [[], [(Fr(1), Fr(1))], [(Fr(2), Fr(3)), (Fr(0), Fr(1))], [(Fr(0), Fr(2)), (Fr(1), Fr(3))], [(Fr(-1), Fr(1))],
              [(Fr(3), Fr(1))]]
    idx = 0
    for ref in anns + faulty:
        for est in anns + faulty:
            idx += 1
            if idx % nshards != shard:
                continue
            fn = sorted(fns)[idx % 4] if "directional_hamming_distance" in GEN_FUNCTIONS else None
            if fn not in GEN_FUNCTIONS:
                continue
            yield Case("gen.chordseg", [fn, [[s, e] for s, e in ref], [[s, e] for s, e in est]],
                       lambda fn=fn, ref=ref, est=est: fns[fn](arr(ref), arr(est)),
                       tol=1e-9, tag="%s:small-scope" % fn,
                       info={"op": "gen.chordseg", "fn": fn, "ref": [[F(s), F(e)] for s, e in ref],
                             "est": [[F(s), F(e)] for s, e in est]}, nontrivial=bool(ref) and bool(est))


SUITES = {
    "weighted_accuracy": suite_wacc,
    "merge_chord_intervals": suite_merge_chord,
    "segmentation": suite_seg,
    "score": suite_score,
    "evaluate": suite_evaluate,
    "gen_chordseg": suite_gen_chordseg,
}
# stream F: the chord fixture files (real interval grids and label vocabularies)
from suites import fixtures as _FX  # noqa: E402
if "chord" in _FX.SUITES:
    SUITES["fixtures.chord"] = _FX.SUITES["chord"]
RULE += "; " + _FX.RULE_NOTE


# ----------------------------------------------------------------------------------------
# oracles: the property itself on the real code

def refine(ivs, labs, cuts):
    """cut intervals at the given interior points (points that are not interior to any interval are ignored)"""
    out_i, out_l = [], []
    for (s, e), l in zip(ivs, labs):
        ps = sorted(p for p in set(cuts) if s < p < e)
        bs = [s] + ps + [e]
        for a, b in zip(bs[:-1], bs[1:]):
            out_i.append([a, b])
            out_l.append(l)
    return out_i, out_l


def _same(a, b, tol):
    if isinstance(a, (tuple, list)):
        return len(a) == len(b) and all(_same(p, q, tol) for p, q in zip(a, b))
    a, b = float(a), float(b)
    if np.isnan(a) or np.isnan(b):
        return np.isnan(a) and np.isnan(b)
    return abs(a - b) <= tol


def _call(fn):
    try:
        return ("ok", fn())
    except Exception as e:  # noqa: BLE001
        return ("err", type(e).__name__)


def check_chord_refine(inp):
    ri, rl, ei, el = inp["ref"], inp["ref_labels"], inp["est"], inp["est_labels"]
    ri2, rl2 = refine(ri, rl, inp["ref_cuts"])
    ei2, el2 = refine(ei, el, inp["est_cuts"])
    if inp.get("fresh"):
        from props._relational import fresh_library
        fresh_library("chord")
    a = _call(lambda: mir_eval.chord.evaluate(np.array(ri, dtype=float).reshape(-1, 2), list(rl),
                                              np.array(ei, dtype=float).reshape(-1, 2), list(el)))
    b = _call(lambda: mir_eval.chord.evaluate(np.array(ri2, dtype=float).reshape(-1, 2), list(rl2),
                                              np.array(ei2, dtype=float).reshape(-1, 2), list(el2)))
    if a[0] != b[0]:
        return "chord.evaluate: %r before the cut, %r after" % (a, b)
    if a[0] == "err":
        return None if a[1] == b[1] else "chord.evaluate raises %s before the cut, %s after" % (a[1], b[1])
    for k in a[1]:
        if not _same(a[1][k], b[1][k], 1e-12):
            return "chord.evaluate[%r] = %r before the cut, %r after (cuts ref %r est %r)" % (
                k, float(a[1][k]), float(b[1][k]), inp["ref_cuts"], inp["est_cuts"])
    return None


def _cuts(rng, ivs, other):
    """1-5 interior lattice points, biased to the other annotation's boundaries"""
    cand = [p for iv in other for p in iv]
    out = []
    for _ in range(rng.randint(1, 5)):
        s, e = rng.choice(ivs)
        if e - s <= U:
            continue
        inner = [p for p in cand if s < p < e]
        if rng.random() < 0.2:
            # next to (not on) a boundary of either annotation: 1 ulp .. 1e-7 s before or after it.  The cut leaves the
            # labelling as a function of time unchanged, so nothing may be merged, dropped or relabelled
            b = float(rng.choice(cand + [p for iv in ivs for p in iv]))
            d = rng.choice([float(np.spacing(b)) if b > 0 else 5e-324, 4e-10, 9.9e-10, 3e-9, 1e-7])
            out.append(b - d if rng.random() < 0.6 else b + d)
        elif inner and rng.random() < 0.4:
            out.append(rng.choice(inner))
        else:
            out.append(s + rng.randint(1, int((e - s) / U) - 1) * U)
    return out


def gen_chord_refine(rng, tier, shard, nshards, boost):
    for _ in range((120 if tier == "quick" else 800) * boost):
        ri, _ = rand_annotation(rng, nmax=5, top=64, contiguous=rng.random() < 0.8)
        if rng.random() < 0.5:
            lo, hi = ri[0][0], ri[-1][1]
            ei = [(lo, hi)]
            if hi - lo > U:
                inner = sorted(set(lo + rng.randint(1, int((hi - lo) / U) - 1) * U for _ in range(rng.randint(0, 4))))
                bs = [lo] + inner + [hi]
                ei = list(zip(bs[:-1], bs[1:]))
        else:
            ei, _ = rand_annotation(rng, nmax=5, top=64, contiguous=rng.random() < 0.8)
        rl = [rng.choice(RICH) for _ in ri]
        el = [rng.choice(RICH[:1] + RICH[2:]) for _ in ei]
        for k in range(1, len(rl)):
            u = rng.random()
            if u < 0.3:
                rl[k] = rl[k - 1]
            elif u < 0.45 and rl[k - 1] in EXT_TWIN:
                rl[k] = rng.choice(EXT_TWIN[rl[k - 1]])
        yield {"ref": [[F(s), F(e)] for s, e in ri], "ref_labels": rl,
               "est": [[F(s), F(e)] for s, e in ei], "est_labels": el,
               "ref_cuts": [F(p) for p in (_cuts(rng, ri, ei) if rng.random() < 0.8 else [])],
               "est_cuts": [F(p) for p in (_cuts(rng, ei, ri) if rng.random() < 0.8 else [])],
               "fresh": rng.random() < 0.3}     # the uncut annotation is the first thing the library's chord module sees


SEG_METRICS = ["pairwise", "rand_index", "ari", "mutual_information", "nce", "vmeasure"]


def check_segment_refine(inp):
    ri, rl, ei, el, fs = inp["ref"], inp["ref_labels"], inp["est"], inp["est_labels"], inp["frame_size"]
    ri2, rl2 = refine(ri, rl, inp["ref_cuts"])
    ei2, el2 = refine(ei, el, inp["est_cuts"])
    for name in SEG_METRICS:
        fn = getattr(mir_eval.segment, name)
        a = _call(lambda: fn(np.array(ri, dtype=float), list(rl), np.array(ei, dtype=float), list(el), frame_size=fs))
        b = _call(lambda: fn(np.array(ri2, dtype=float), list(rl2), np.array(ei2, dtype=float), list(el2),
                             frame_size=fs))
        if a[0] != b[0] or (a[0] == "err" and a[1] != b[1]):
            return "segment.%s: %r before the cut, %r after" % (name, a, b)
        if a[0] == "ok" and not _same(a[1], b[1], 0.0):
            return "segment.%s = %r before the cut, %r after (cuts ref %r est %r)" % (
                name, a[1], b[1], inp["ref_cuts"], inp["est_cuts"])
    return None


def _segmentation(rng, hi, nmax, nlabels):
    inner = sorted(set(rng.randint(1, int(hi / U) - 1) * U for _ in range(rng.randint(0, nmax - 1))))
    bs = [Fr(0)] + inner + [hi]
    ivs = list(zip(bs[:-1], bs[1:]))
    return ivs, [rng.choice("abcd"[:nlabels]) for _ in ivs]


def gen_segment_refine(rng, tier, shard, nshards, boost):
    for _ in range((60 if tier == "quick" else 400) * boost):
        hi = Fr(rng.randint(64, 512), 32)
        ri, rl = _segmentation(rng, hi, 5, 3)
        ei, el = _segmentation(rng, hi, 5, 3)
        fs = rng.choice([Fr(1, 8), Fr(1, 4), Fr(1, 2), Fr(1)])
        grid = [k * fs for k in range(1, int(hi / fs))]

        def cuts(ivs, other):
            c = _cuts(rng, ivs, other)
            if grid and rng.random() < 0.5:
                c.append(rng.choice(grid))         # a cut exactly on a frame time
            return c
        rc, ec = cuts(ri, ei), cuts(ei, ri)
        if rng.random() < 0.3:
            # the rows of a segmentation need not be listed in time order (no validator asks for it; e.g. rows grouped
            # by section label): the same set of labelled intervals, cut the same way
            k = list(range(len(ri)))
            rng.shuffle(k)
            ri, rl = [ri[j] for j in k], [rl[j] for j in k]
            if rng.random() < 0.5:
                k = list(range(len(ei)))
                rng.shuffle(k)
                ei, el = [ei[j] for j in k], [el[j] for j in k]
        yield {"ref": [[F(s), F(e)] for s, e in ri], "ref_labels": rl,
               "est": [[F(s), F(e)] for s, e in ei], "est_labels": el, "frame_size": F(fs),
               "ref_cuts": [F(p) for p in rc], "est_cuts": [F(p) for p in ec]}


def check_lmeasure_refine(inp):
    fs = inp["frame_size"]

    def run(h_ref, h_est):
        return mir_eval.hierarchy.lmeasure([np.array(iv, dtype=float) for iv, _ in h_ref], [l for _, l in h_ref],
                                           [np.array(iv, dtype=float) for iv, _ in h_est], [l for _, l in h_est],
                                           frame_size=fs)
    ref = [(lv["intervals"], lv["labels"]) for lv in inp["ref"]]
    est = [(lv["intervals"], lv["labels"]) for lv in inp["est"]]
    ref2 = [refine(iv, l, inp["cuts"]) if k == inp["ref_level"] else (iv, l) for k, (iv, l) in enumerate(ref)]
    est2 = [refine(iv, l, inp["cuts"]) if k == inp["est_level"] else (iv, l) for k, (iv, l) in enumerate(est)]
    a = _call(lambda: run(ref, est))
    b = _call(lambda: run(ref2, est2))
    if a[0] != b[0] or (a[0] == "err" and a[1] != b[1]):
        return "hierarchy.lmeasure: %r before the cut, %r after" % (a, b)
    if a[0] == "ok" and not _same(a[1], b[1], 0.0):
        return "hierarchy.lmeasure = %r before the cut, %r after (cuts %r)" % (a[1], b[1], inp["cuts"])
    return None


def gen_lmeasure_refine(rng, tier, shard, nshards, boost):
    for _ in range((25 if tier == "quick" else 150) * boost):
        hi = Fr(rng.randint(64, 256), 32)

        def hier():
            levels = []
            for depth in range(rng.randint(1, 3)):
                ivs, labs = _segmentation(rng, hi, 2 + 2 * depth, 3)
                levels.append({"intervals": [[F(s), F(e)] for s, e in ivs], "labels": labs})
            return levels
        ref, est = hier(), hier()
        fs = rng.choice([Fr(1, 4), Fr(1, 2), Fr(1)])
        cuts = [F(rng.randint(1, int(hi / U) - 1) * U) for _ in range(rng.randint(1, 5))]
        yield {"ref": ref, "est": est, "frame_size": F(fs), "cuts": cuts,
               "ref_level": rng.choice([None] + list(range(len(ref)))),
               "est_level": rng.choice([None] + list(range(len(est))))}


def check_wacc(inp):
    cs = np.array(inp["cs"], dtype=float)
    ws = np.array(inp["ws"], dtype=float)
    try:
        base = mir_eval.chord.weighted_accuracy(cs, ws)
    except Exception as e:  # noqa: BLE001 - equal lengths, no negative weight: nothing may be raised
        return "weighted_accuracy raised %r on comparisons / non-negative weights of one length" % (e,)
    for k in inp["scales"]:
        try:
            sc = mir_eval.chord.weighted_accuracy(cs, ws * k)
        except Exception as e:  # noqa: BLE001
            return "weighted_accuracy raised %r after all weights were multiplied by %r" % (e, k)
        if not _same(base, sc, 0.0):
            return "weighted_accuracy changes from %r to %r when all weights are multiplied by %r" % (base, sc, k)
    valid = [(Fr(c), Fr(w)) for c, w in zip(inp["cs"], inp["ws"]) if c >= 0]
    tot = sum(w for _, w in valid)
    if tot > 0:
        want = sum(c * w for c, w in valid) / tot
        if abs(float(base) - float(want)) > 1e-12:
            return "weighted_accuracy = %r, the weighted mean over comparable entries is %s" % (base, want)
        if all(c == 1 for c, _ in valid) and abs(float(base) - 1.0) > 1e-12:
            return "all comparable comparisons are 1 but the score is %r" % (base,)
        if all(c == 0 for c, _ in valid) and float(base) != 0.0:
            return "all comparable comparisons are 0 but the score is %r" % (base,)
    return None


def gen_wacc(rng, tier, shard, nshards, boost):
    for _ in range((200 if tier == "quick" else 3000) * boost):
        k = rng.randint(1, 8)
        mode = rng.random()
        if mode < 0.2:
            cs = [rng.choice([-1.0, 1.0]) for _ in range(k)]
        elif mode < 0.4:
            cs = [rng.choice([-1.0, 0.0]) for _ in range(k)]
        else:
            cs = [rng.choice([-1.0, 0.0, 0.5, 1.0, 1.0]) for _ in range(k)]
        ws = [rng.randint(0, 128) / 32 for _ in range(k)]
        yield {"cs": cs, "ws": ws, "scales": [rng.choice([0.125, 0.25, 0.5, 2.0, 4.0, 1024.0, 2.0 ** -20, 2.0 ** -40, 2.0 ** -60, 2.0 ** 40])
                                               for _ in range(2)]}


CHECKERS = {
    "chord.evaluate:refine": check_chord_refine,
    "segment:refine": check_segment_refine,
    "hierarchy.lmeasure:refine": check_lmeasure_refine,
    "chord.weighted_accuracy": check_wacc,
}
ORACLES = {
    "chord.evaluate:refine": gen_chord_refine,
    "segment:refine": gen_segment_refine,
    "hierarchy.lmeasure:refine": gen_lmeasure_refine,
    "chord.weighted_accuracy": gen_wacc,
}


def classify(suite, d):
    i = d["info"]
    if suite == "weighted_accuracy":
        cs, ws = i["cs"], i["ws"]
        if len(cs) == len(ws) and cs and all(w >= 0 for w in ws):
            return "chord.weighted_accuracy", {"cs": cs, "ws": ws, "scales": [0.5, 2.0]}
    if suite == "fixtures.chord" and i.get("what") == "root":
        ref = [[float(Fr(a)), float(Fr(b))] for a, b in i["ref"]]
        est = [[float(Fr(a)), float(Fr(b))] for a, b in i["est"]]
        return "chord.evaluate:refine", {"ref": ref, "ref_labels": i["ref_labels"], "est": est,
                                        "est_labels": i["est_labels"], "ref_cuts": [(s + e) / 2 for s, e in ref],
                                        "est_cuts": [(s + e) / 2 for s, e in est]}
    if suite in ("score", "evaluate"):
        ref, est = i["ref"], i["est"]
        if ref and est:
            cuts_r = [(s + e) / 2 for s, e in ref]
            cuts_e = [(s + e) / 2 for s, e in est]
            return "chord.evaluate:refine", {"ref": ref, "ref_labels": [root_label(t) for t in i["rt"]],
                                            "est": est, "est_labels": [root_label(t) for t in i["et"]],
                                            "ref_cuts": cuts_r, "est_cuts": cuts_e}
    return None
