"""C13 — interval pre-processing preserves the annotation it re-expresses.

Correspondence (model `MirModel/Intervals.lean` vs the real `mir_eval.util`) on the exact lattice E
(multiples of 1/32 in [0, 64]) with deliberate coincidences, exhaustive small scopes in the thorough tier,
and an independent statement-level oracle (sampling `labelAt` at every lattice point and midpoint).
"""
import itertools
from fractions import Fraction as Fr

import numpy as np

import mir_eval

from core import Case

PID = "C13"
LEAN_MODULES = ["MirProofs.Props.C13", "MirProofs.Props.C13_Gen"]
TRANSLATOR_PARTS = ["utilint"]     # harness/translate/utilint.py -> lean/MirGen/UtilInt.lean (Props/C13_Gen.lean: Gen = model)
RULE = ("times on the 1/32 lattice (exact in binary64); crop points drawn from {None, a boundary, an interior "
        "point, a point inside a gap, beyond either end}; non-trivial = the call returns a value (no exception) "
        "and the annotation is non-empty; thorough tier enumerates all annotations with <= 3 intervals on an "
        "8-point lattice x all (t_min, t_max) on a 10-point lattice and its half-step shift, incl. None")
ASSUMPTIONS = [
    "binary64 arithmetic is exact on the 1/32 lattice (comparisons, max/min, differences)",
    "float32 frame times i*size are exact for dyadic sample sizes (intervals_to_samples)",
    "np.round(x, 5) agrees with exact half-even rounding away from exact ties (ties are not generated)",
    "labels of equal length to the interval array (length mismatch is outside the modelled domain)",
]
UNPROVED = [
    "b2i_i2b / i2b_b2i: proved for 5-decimal-exact times and, 'up to round5', for arbitrary times whose rounded "
    "boundaries stay strictly ascending (b2i_i2b_rounded, b2i_i2b_rounded_of_durations: rows longer than 1e-5 s, "
    "i2b_b2i_rounded); when rounding MERGES two boundaries (a row shorter than 1e-5 s) the round trip drops that row "
    "- not stated as a theorem",
    "merge_misaligned_raises is proved for the alignment test only (IndexError on empty input is by computation)",
]
EXHAUSTIVE = {"thorough": True}

START, END = "__S", "__E"
LABS = ["a", "b", "c", "d"]
U = Fr(1, 32)


# ----------------------------------------------------------------------------------------
# generators

def F(x):
    return float(x)


def arr(ivs):
    return np.array([[F(s), F(e)] for s, e in ivs], dtype=float).reshape(-1, 2)


def rand_annotation(rng, nmax=5, top=64 * 32, contiguous=None, allow_empty=False):
    """time-ordered, positive durations, non-overlapping; gaps with probability 1/2 per junction"""
    n = rng.randint(0 if allow_empty else 1, nmax)
    if contiguous is None:
        contiguous = rng.random() < 0.4
    span = rng.choice([s for s in (8, 16, 64, top) if s + 1 >= 2 * n] or [top])
    pts = sorted(rng.sample(range(0, span + 1), min(2 * n, span + 1)))
    ivs = []
    prev_e = None
    for k in range(n):
        s, e = pts[2 * k], pts[2 * k + 1]
        if prev_e is not None and (contiguous or rng.random() < 0.5):
            s = prev_e
        ivs.append((s * U, e * U))
        prev_e = e
    labs = [rng.choice(LABS) for _ in ivs]
    return ivs, labs


def crop_point(rng, ivs, which):
    """a crop point with deliberate coincidences; returns (value|None, tag)"""
    if not ivs:
        return rng.choice([(None, "none"), (Fr(rng.randint(0, 64)), "free")])
    r = rng.random()
    lo, hi = ivs[0][0], ivs[-1][1]
    if r < 0.12:
        return None, "none"
    if r < 0.40:
        k = rng.randrange(len(ivs))
        return (ivs[k][0], "eq-start") if rng.random() < 0.5 else (ivs[k][1], "eq-end")
    if r < 0.60:
        s, e = ivs[rng.randrange(len(ivs))]
        return (s + e) / 2, "interior"
    if r < 0.72:
        gaps = [(ivs[k][1], ivs[k + 1][0]) for k in range(len(ivs) - 1) if ivs[k][1] < ivs[k + 1][0]]
        if gaps:
            s, e = rng.choice(gaps)
            return (s + e) / 2, "in-gap"
    if r < 0.86:
        return (lo - rng.randint(1, 64) * U, "before-all") if which == "min" or rng.random() < 0.3 \
            else (hi + rng.randint(1, 64) * U, "after-all")
    return (hi + rng.randint(1, 64) * U, "after-all") if which == "max" or rng.random() < 0.3 \
        else (lo - rng.randint(1, 64) * U, "before-all")


def enum_annotations(points, kmax):
    """all time-ordered non-overlapping annotations with 1..kmax intervals whose endpoints are in `points`"""
    pts = sorted(points)

    def rec(k, lo_idx):
        if k == 0:
            yield []
            return
        for i in range(lo_idx, len(pts)):
            for j in range(i + 1, len(pts)):
                for rest in rec(k - 1, j):
                    yield [(pts[i], pts[j])] + rest
    for k in range(1, kmax + 1):
        yield from rec(k, 0)


SMALL_PTS = [Fr(k) for k in range(1, 9)]                     # 8-point lattice
T_LATTICES = [[None] + [Fr(k) for k in range(0, 10)],         # 10-point lattice incl. None, beyond both ends
              [None] + [Fr(2 * k + 1, 2) for k in range(0, 10)]]   # half-step shift: strictly inside rows / gaps


def exhaustive_adjust_inputs(shard, nshards):
    idx = 0
    for ivs in enum_annotations(SMALL_PTS, 3):
        labs = [LABS[k % 3] for k in range(len(ivs))]
        for lat in T_LATTICES:
            for a in lat:
                for b in lat:
                    idx += 1
                    if idx % nshards != shard:
                        continue
                    yield ivs, labs, a, b


def adjust_case(ivs, labs, a, b, tag, with_labels=True):
    fa = None if a is None else F(a)
    fb = None if b is None else F(b)
    largs = list(labs) if with_labels else None
    info = {"intervals": [[F(s), F(e)] for s, e in ivs], "labels": list(labs), "t_min": fa, "t_max": fb}
    return Case("util.adjust_intervals", [[[s, e] for s, e in ivs], largs, a, b, START, END],
                lambda: mir_eval.util.adjust_intervals(arr(ivs), None if largs is None else list(largs),
                                                       fa, fb, START, END),
                tol=0.0, tag=tag, info=info, nontrivial=bool(ivs))


def suite_adjust(rng, tier, shard, nshards):
    n = 400 if tier == "quick" else 4000
    for _ in range(n):
        ivs, labs = rand_annotation(rng, allow_empty=rng.random() < 0.05)
        a, ta = crop_point(rng, ivs, "min")
        b, tb = crop_point(rng, ivs, "max")
        yield adjust_case(ivs, labs, a, b, "tmin=%s,tmax=%s" % (ta, tb), with_labels=rng.random() < 0.85)
    # every (t_min, t_max) on the boundary set of a small annotation (incl. inverted ranges)
    for _ in range(6 if tier == "quick" else 40):
        ivs, labs = rand_annotation(rng, nmax=3, top=16)
        cand = sorted({x for iv in ivs for x in iv} | {ivs[0][0] - U, ivs[-1][1] + U})
        for a in [None] + cand:
            for b in [None] + cand:
                yield adjust_case(ivs, labs, a, b, "grid")
    if tier == "thorough":
        for ivs, labs, a, b in exhaustive_adjust_inputs(shard, nshards):
            yield adjust_case(ivs, labs, a, b, "exhaustive")


def suite_adjust_events(rng, tier, shard, nshards):
    n = 150 if tier == "quick" else 2000
    for _ in range(n):
        k = rng.randint(0, 6)
        ev = sorted(Fr(rng.randint(0, 256), 32) for _ in range(k))
        labs = [rng.choice(LABS) for _ in ev]
        cand = [None] + ev + [Fr(rng.randint(0, 256), 32) for _ in range(2)] + [Fr(-1), Fr(100)]
        a, b = rng.choice(cand), rng.choice(cand)
        wl = rng.random() < 0.7
        fa = None if a is None else F(a)
        fb = None if b is None else F(b)
        yield Case("util.adjust_events", [ev, list(labs) if wl else None, a, b, "__"],
                   lambda ev=ev, labs=labs, wl=wl, fa=fa, fb=fb: mir_eval.util.adjust_events(
                       np.array([F(x) for x in ev]), list(labs) if wl else None, fa, fb, "__"),
                   tol=0.0, tag="n=%d" % k, info={"events": [F(x) for x in ev], "labels": list(labs),
                                                   "t_min": fa, "t_max": fb}, nontrivial=k > 0)


def aligned_pair(rng, nmax=5, contiguous=True):
    x, xl = rand_annotation(rng, nmax=nmax, top=64, contiguous=contiguous)
    lo, hi = x[0][0], x[-1][1]
    inner = sorted(rng.sample(range(int(lo / U) + 1, int(hi / U)), min(rng.randint(0, nmax - 1), int((hi - lo) / U) - 1))) \
        if hi - lo > U else []
    # reuse some of x's boundaries on purpose
    xb = [s for s, _ in x[1:]]
    inner = sorted(set([p * U for p in inner] + [p for p in xb if rng.random() < 0.5]))
    bs = [lo] + inner + [hi]
    y = list(zip(bs[:-1], bs[1:]))
    yl = [rng.choice(LABS).upper() for _ in y]
    return x, xl, y, yl


def merge_case(x, xl, y, yl, tag):
    info = {"x": [[F(s), F(e)] for s, e in x], "xl": xl, "y": [[F(s), F(e)] for s, e in y], "yl": yl}
    return Case("util.merge_labeled_intervals",
                [[[s, e] for s, e in x], list(xl), [[s, e] for s, e in y], list(yl)],
                lambda: mir_eval.util.merge_labeled_intervals(arr(x), list(xl), arr(y), list(yl)),
                tol=0.0, tag=tag, info=info, nontrivial=bool(x) and bool(y))


def suite_merge(rng, tier, shard, nshards):
    n = 300 if tier == "quick" else 4000
    for _ in range(n):
        r = rng.random()
        if r < 0.6:
            x, xl, y, yl = aligned_pair(rng)
            if rng.random() < 0.5:
                x, xl, y, yl = y, yl, x, xl
            yield merge_case(x, xl, y, yl, "aligned-contiguous")
        elif r < 0.8:
            x, xl, y, yl = aligned_pair(rng, contiguous=False)
            yield merge_case(x, xl, y, yl, "aligned-gaps")
        elif r < 0.95:
            x, xl = rand_annotation(rng, nmax=4, top=16)
            y, yl = rand_annotation(rng, nmax=4, top=16)
            yield merge_case(x, xl, y, yl, "unrelated")
        else:
            x, xl = rand_annotation(rng, nmax=2, top=16, allow_empty=True)
            yield merge_case(x, xl, [], [], "empty") if rng.random() < 0.5 else merge_case([], [], x, xl, "empty")
    if tier == "thorough":
        idx = 0
        pts = [Fr(k) for k in range(1, 7)]
        anns = list(enum_annotations(pts, 3))
        for x in anns:
            for y in anns:
                idx += 1
                if idx % nshards != shard:
                    continue
                yield merge_case(x, [LABS[k % 3] for k in range(len(x))], y,
                                 [LABS[k % 2].upper() for k in range(len(y))], "exhaustive")


def rand_times(rng, ivs, m):
    cand = [x for iv in ivs for x in iv]
    out = []
    for _ in range(m):
        r = rng.random()
        if cand and r < 0.4:
            out.append(rng.choice(cand))
        elif cand and r < 0.6:
            out.append(rng.choice(cand) + rng.choice([-1, 1]) * U)
        else:
            out.append(Fr(rng.randint(-8, 64 * 32 + 8), 32))
    return out


def interp_case(ivs, labs, tps, fill, tag):
    info = {"intervals": [[F(s), F(e)] for s, e in ivs], "labels": labs, "times": [F(t) for t in tps], "fill": fill}
    return Case("util.interpolate_intervals", [[[s, e] for s, e in ivs], list(labs), list(tps), fill],
                lambda: mir_eval.util.interpolate_intervals(arr(ivs), list(labs), [F(t) for t in tps], fill),
                tol=0.0, tag=tag, info=info, nontrivial=bool(ivs) and bool(tps))


def suite_interpolate(rng, tier, shard, nshards):
    n = 300 if tier == "quick" else 4000
    for _ in range(n):
        ivs, labs = rand_annotation(rng, allow_empty=rng.random() < 0.05)
        tps = rand_times(rng, ivs, rng.randint(0, 8))
        unsorted = rng.random() < 0.1
        if not unsorted:
            tps = sorted(tps)
        fill = rng.choice([None, "F"])
        yield interp_case(ivs, labs, tps, fill, "unsorted" if unsorted else "sorted")
    if tier == "thorough":
        idx = 0
        grid = [Fr(k, 2) for k in range(0, 20)]      # every lattice point and midpoint, one beyond each end
        for ivs in enum_annotations(SMALL_PTS, 3):
            idx += 1
            if idx % nshards != shard:
                continue
            yield interp_case(ivs, [LABS[k % 3] for k in range(len(ivs))], grid, None, "exhaustive")


def samples_case(ivs, labs, off, size, fill, tag):
    info = {"intervals": [[F(s), F(e)] for s, e in ivs], "labels": labs, "offset": F(off), "size": F(size),
            "fill": fill}
    return Case("util.intervals_to_samples", [[[s, e] for s, e in ivs], list(labs), off, size, fill],
                lambda: mir_eval.util.intervals_to_samples(arr(ivs), list(labs), offset=F(off),
                                                           sample_size=F(size), fill_value=fill),
                tol=0.0, tag=tag, info=info, nontrivial=bool(ivs))


def suite_samples(rng, tier, shard, nshards):
    n = 200 if tier == "quick" else 3000
    for _ in range(n):
        ivs, labs = rand_annotation(rng, top=rng.choice([64, 256, 1024]), allow_empty=rng.random() < 0.03)
        size = rng.choice([Fr(1, 8), Fr(1, 4), Fr(1, 2), Fr(1), Fr(2)])
        off = rng.choice([Fr(0), Fr(0), Fr(1, 16), Fr(1, 4), Fr(1, 2), Fr(1)])
        fill = rng.choice([None, "F"])
        yield samples_case(ivs, labs, off, size, fill, "size=%s,off=%s" % (size, off))


def rounded_lattice(rng):
    """a value with 7 decimals whose 6th/7th digits are at least 1e-6 away from a rounding tie"""
    k = rng.randint(0, 64 * 10 ** 5)
    tail = rng.choice(list(range(0, 40)) + list(range(60, 100)))
    return Fr(k * 100 + tail, 10 ** 7)


def suite_boundaries(rng, tier, shard, nshards):
    n = 200 if tier == "quick" else 3000
    for _ in range(n):
        ivs, _ = rand_annotation(rng, allow_empty=rng.random() < 0.05)
        yield Case("util.intervals_to_boundaries", [[[s, e] for s, e in ivs]],
                   lambda ivs=ivs: mir_eval.util.intervals_to_boundaries(arr(ivs)),
                   tol=0.0, tag="i2b-lattice", info={"intervals": [[F(s), F(e)] for s, e in ivs]},
                   nontrivial=bool(ivs))
        # decimals that do round
        k = rng.randint(1, 4)
        pts = sorted(rounded_lattice(rng) for _ in range(2 * k))
        ivd = [(pts[2 * j], pts[2 * j + 1]) for j in range(k)]
        yield Case("util.intervals_to_boundaries", [[[s, e] for s, e in ivd]],
                   lambda ivd=ivd: mir_eval.util.intervals_to_boundaries(arr(ivd)),
                   tol=1e-9, tag="i2b-decimal", info={"intervals": [[F(s), F(e)] for s, e in ivd]})
        # boundaries -> intervals: sorted unique, duplicates, unsorted, all-equal (broadcast quirk), short
        r = rng.random()
        m = rng.randint(0, 6)
        bs = sorted(set(Fr(rng.randint(0, 64 * 32), 32) for _ in range(m)))
        tag = "b2i-sorted"
        if r < 0.15 and bs:
            bs = bs + [rng.choice(bs)]
            bs.sort()
            tag = "b2i-duplicate"
        elif r < 0.3 and len(bs) >= 2:
            rng.shuffle(bs)
            tag = "b2i-shuffled"
        elif r < 0.4 and bs:
            bs = [bs[0]] * rng.randint(1, 4)
            tag = "b2i-all-equal"
        yield Case("util.boundaries_to_intervals", [list(bs)],
                   lambda bs=bs: mir_eval.util.boundaries_to_intervals(np.array([F(b) for b in bs])),
                   tol=0.0, tag=tag, info={"boundaries": [F(b) for b in bs]}, nontrivial=len(bs) >= 2)


def suite_small(rng, tier, shard, nshards):
    n = 120 if tier == "quick" else 1500
    for _ in range(n):
        ivs, labs = rand_annotation(rng, top=16)
        if rng.random() < 0.5:
            perm = list(range(len(ivs)))
            rng.shuffle(perm)
            ivs, labs = [ivs[p] for p in perm], [labs[p] for p in perm]
        wl = rng.random() < 0.7
        yield Case("util.sort_labeled_intervals", [[[s, e] for s, e in ivs], list(labs) if wl else None],
                   lambda ivs=ivs, labs=labs, wl=wl: mir_eval.util.sort_labeled_intervals(
                       arr(ivs), list(labs) if wl else None),
                   tol=0.0, tag="sort", info={"intervals": [[F(s), F(e)] for s, e in ivs]})
        bad = rng.random()
        iv2 = list(ivs)
        if bad < 0.15:
            k = rng.randrange(len(iv2))
            iv2[k] = (iv2[k][1], iv2[k][0])
        elif bad < 0.3:
            k = rng.randrange(len(iv2))
            iv2[k] = (iv2[k][0], iv2[k][0])
        elif bad < 0.4:
            iv2[0] = (Fr(-1, 32), iv2[0][1])
        yield Case("util.intervals_to_durations", [[[s, e] for s, e in iv2]],
                   lambda iv2=iv2: mir_eval.util.intervals_to_durations(arr(iv2)),
                   tol=0.0, tag="durations", info={"intervals": [[F(s), F(e)] for s, e in iv2]})
        yield Case("util.validate_intervals", [[[s, e] for s, e in iv2]],
                   lambda iv2=iv2: mir_eval.util.validate_intervals(arr(iv2)),
                   tol=0.0, tag="validate_intervals", info={"intervals": [[F(s), F(e)] for s, e in iv2]})
        ev = [Fr(rng.randint(0, 64 * 32), 32) for _ in range(rng.randint(0, 5))]
        if rng.random() < 0.7:
            ev.sort()
        mt = rng.choice([Fr(30000), Fr(30000), Fr(32)])
        yield Case("util.validate_events", [list(ev), mt],
                   lambda ev=ev, mt=mt: mir_eval.util.validate_events(np.array([F(x) for x in ev]), F(mt)),
                   tol=0.0, tag="validate_events", info={"events": [F(x) for x in ev]})


# ----------------------------------------------------------------------------------------
# the functions as REGENERATED from the source (driver op `gen.utilint`, lean/MirGen/UtilInt.lean, translator part
# `utilint`) vs the real functions: the same exact-lattice streams as the hand-model suites above, plus (also in the quick
# tier) ALL annotations with <= 3 intervals on a 5-point lattice x all (t_min, t_max) on a 7-point lattice incl. None

GEN_FUNCTIONS = ("adjust_intervals", "adjust_events", "intervals_to_boundaries", "boundaries_to_intervals",
                 "sort_labeled_intervals", "intervals_to_durations", "validate_intervals", "interpolate_intervals",
                 "intervals_to_samples", "merge_labeled_intervals")
GEN_SOURCES = {"adjust_intervals": "adjust_intervals", "adjust_events": "adjust_events", "boundaries": "boundaries",
               "small": "small", "merge_labeled_intervals": "merge_labeled_intervals"}


def as_gen(c):
    """the hand-model case `util.<f> args` as a case of the generated definition `gen.utilint "<f>" args`"""
    fn = c.op.split(".", 1)[1]
    args = list(c.args)
    if fn == "intervals_to_boundaries" and len(args) == 1:
        args.append(5)
    info = dict(c.info or {}, op="gen.utilint", fn=fn)
    return Case("gen.utilint", [fn] + args, c.call, tol=c.tol, tag="%s:%s" % (fn, c.tag), info=info,
                nontrivial=c.nontrivial, post=c.post)


def suite_gen_utilint(rng, tier, shard, nshards):
    for name in ("adjust_intervals", "adjust_events", "boundaries", "small", "merge_labeled_intervals",
                 "interpolate_intervals", "intervals_to_samples"):
        for c in SUITES[name](rng, "quick", shard, nshards):
            if c.op.startswith("util.") and c.op[5:] in GEN_FUNCTIONS:
                yield as_gen(c)
    # small scope, exhaustively: crop points on every boundary, between, beyond both ends, None; with and without labels
    pts = [Fr(k) for k in range(1, 6)]
    lat = [None] + [Fr(k) for k in range(0, 7)]
    idx = 0
    for ivs in enum_annotations(pts, 3 if tier == "thorough" else 2):
        labs = [LABS[k % 3] for k in range(len(ivs))]
        for a in lat:
            for b in lat:
                idx += 1
                if idx % nshards != shard:
                    continue
                yield as_gen(adjust_case(ivs, labs, a, b, "small-scope", with_labels=(idx % 3 != 0)))
    for a in lat:
        for b in lat:
            yield as_gen(adjust_case([], [], a, b, "empty", with_labels=True))
            yield as_gen(adjust_case([], [], a, b, "empty", with_labels=False))
    # events: all subsets of a 5-point lattice x all crop points
    for mask in range(32):
        ev = [Fr(k + 1) for k in range(5) if mask >> k & 1]
        for a in lat:
            for b in lat:
                idx += 1
                if idx % nshards != shard:
                    continue
                wl = idx % 3 != 0
                labs = [LABS[k % 4] for k in range(len(ev))]
                fa = None if a is None else F(a)
                fb = None if b is None else F(b)
                yield as_gen(Case("util.adjust_events", [ev, list(labs) if wl else None, a, b, "__"],
                                  lambda ev=ev, labs=labs, wl=wl, fa=fa, fb=fb: mir_eval.util.adjust_events(
                                      np.array([F(x) for x in ev]), list(labs) if wl else None, fa, fb, "__"),
                                  tol=0.0, tag="small-scope", info={"events": [F(x) for x in ev], "labels": list(labs),
                                                                    "t_min": fa, "t_max": fb}, nontrivial=bool(ev)))
    # interpolate / samples / merge on a small scope: every annotation with <= 2 intervals on the 5-point lattice against the
    # grid of all lattice points and midpoints (one beyond each end), unsorted grids, zero / negative sample sizes
    grid = [Fr(k, 2) for k in range(0, 14)]
    anns = list(enum_annotations(pts, 2))
    for ivs in anns:
        idx += 1
        if idx % nshards != shard:
            continue
        labs = [LABS[k % 3] for k in range(len(ivs))]
        yield as_gen(interp_case(ivs, labs, grid, None if idx % 2 else "F", "small-scope"))
        yield as_gen(interp_case(ivs, labs, list(reversed(grid[:3])), None, "small-scope-unsorted"))
        for size in (Fr(1, 2), Fr(1), Fr(2), Fr(0), Fr(-1)):
            yield as_gen(samples_case(ivs, labs, Fr(idx % 3, 4), size, None if idx % 2 else "F", "small-scope"))
    yield as_gen(interp_case([], [], grid[:4], "F", "empty"))
    yield as_gen(samples_case([], [], Fr(0), Fr(1), None, "empty"))
    yield as_gen(samples_case([(Fr(0), Fr(0))], ["a"], Fr(0), Fr(0), None, "zero-over-zero"))
    for x in anns:
        for y in anns:
            idx += 1
            if idx % nshards != shard:
                continue
            yield as_gen(merge_case(x, [LABS[k % 3] for k in range(len(x))], y, [LABS[k % 2].upper() for k in range(len(y))],
                                    "small-scope"))
    # index_labels: (indices, {index: label}) with and without case folding; case twins, duplicates, empty list
    alphabet = ["a", "A", "b", "B", "ab", "Ab", "", "c1", "C1", "Z", "z~"]
    for k in range(40):
        n = rng.randint(0, 8)
        labs = [rng.choice(alphabet) for _ in range(n)]
        for cs in (False, True):
            yield Case("gen.utilint", ["index_labels", list(labs), cs],
                       lambda labs=labs, cs=cs: (lambda r: [r[0], [[i, l] for i, l in sorted(r[1].items())]])(
                           mir_eval.util.index_labels(list(labs), case_sensitive=cs)),
                       tol=0.0, tag="index_labels:case_sensitive=%s" % cs,
                       info={"op": "gen.utilint", "fn": "index_labels", "labels": list(labs), "case_sensitive": cs},
                       nontrivial=n > 0)
    for n in (0, 1, 2, 11, 101):
        for prefix in ("__", "", "seg "):
            items = [Fr(k) for k in range(n)]
            yield Case("gen.utilint", ["generate_labels", items, prefix],
                       lambda n=n, prefix=prefix: mir_eval.util.generate_labels(np.zeros(n), prefix),
                       tol=0.0, tag="generate_labels", info={"op": "gen.utilint", "fn": "generate_labels", "n": n,
                                                             "prefix": prefix}, nontrivial=n > 0)
    # the decimal places of intervals_to_boundaries (dyadic values: exact in binary64, not ties)
    for q in (-1, 0, 1, 2, 3, 5, 7):
        for _ in range(6):
            ivs, _l = rand_annotation(rng)
            yield Case("gen.utilint", ["intervals_to_boundaries", [[s, e] for s, e in ivs], q],
                       lambda ivs=ivs, q=q: mir_eval.util.intervals_to_boundaries(arr(ivs), q),
                       tol=1e-9, tag="intervals_to_boundaries:q=%d" % q,
                       info={"op": "gen.utilint", "fn": "intervals_to_boundaries", "q": q,
                             "intervals": [[F(s), F(e)] for s, e in ivs]})


SUITES = {
    "adjust_intervals": suite_adjust,
    "adjust_events": suite_adjust_events,
    "merge_labeled_intervals": suite_merge,
    "interpolate_intervals": suite_interpolate,
    "intervals_to_samples": suite_samples,
    "boundaries": suite_boundaries,
    "small": suite_small,
    "gen_utilint": suite_gen_utilint,
}


# ----------------------------------------------------------------------------------------
# the statement itself, independently of the model, on the real functions

def label_at(ivs, labs, t):
    """labels of all rows [s, e) containing t"""
    return [l for (s, e), l in zip(ivs, labs) if s <= t < e]


def label_at_closed(ivs, labs, t, fill):
    """the later row wins among the closed rows containing t"""
    out = fill
    for (s, e), l in zip(ivs, labs):
        if s <= t <= e:
            out = l
    return out


def sample_points(values):
    vs = sorted(set(values))
    pts = list(vs)
    pts += [(p + q) / 2 for p, q in zip(vs[:-1], vs[1:])]
    if vs:
        pts += [vs[0] - 0.25, vs[-1] + 0.25]
    return sorted(pts)


def _run_adjust(inp):
    ivs = [tuple(x) for x in inp["intervals"]]
    labs = list(inp["labels"])
    a, b = inp["t_min"], inp["t_max"]
    out_iv, out_l = mir_eval.util.adjust_intervals(arr(ivs), list(labs), a, b, START, END)
    return ivs, labs, a, b, [tuple(r) for r in np.asarray(out_iv).tolist()], out_l


def _range(ivs, a, b):
    lo = a if a is not None else ivs[0][0]
    hi = b if b is not None else ivs[-1][1]
    return lo, hi


def check_adjust_posdur(inp):
    try:
        ivs, labs, a, b, out, out_l = _run_adjust(inp)
    except Exception as e:  # noqa: BLE001
        return "adjust_intervals raised %r on a valid annotation and range" % (e,)
    for s, e in out:
        if not e > s:
            return "output interval [%r, %r] does not have strictly positive duration (output %r)" % (s, e, out)
    return None


def expected_label(ivs, labs, t):
    if t < ivs[0][0]:
        return START
    if t >= ivs[-1][1]:
        return END
    got = label_at(ivs, labs, t)
    return got[-1] if got else None


def check_adjust_label(inp):
    try:
        ivs, labs, a, b, out, out_l = _run_adjust(inp)
    except Exception as e:  # noqa: BLE001
        return "adjust_intervals raised %r on a valid annotation and range" % (e,)
    if len(out) != len(out_l):
        return "%d intervals but %d labels" % (len(out), len(out_l))
    lo, hi = _range(ivs, a, b)
    for t in sample_points([x for iv in ivs for x in iv] + [lo, hi]):
        if not (lo <= t < hi):
            continue
        got = label_at(out, out_l, t)
        want = expected_label(ivs, labs, t)
        if len(got) > 1:
            return "instant %r is covered by %d output intervals" % (t, len(got))
        g = got[0] if got else None
        if g != want:
            return "instant %r carries %r in the output but %r in the input (output %r %r)" % (t, g, want, out, out_l)
    return None


def check_adjust_rest(inp):
    """span, within, order, label count; and the other two sub-claims outside their known regions"""
    import regions
    try:
        ivs, labs, a, b, out, out_l = _run_adjust(inp)
    except Exception as e:  # noqa: BLE001
        return "adjust_intervals raised %r on a valid annotation and range" % (e,)
    if not out:
        return "empty output"
    if len(out) != len(out_l):
        return "%d intervals but %d labels" % (len(out), len(out_l))
    lo, hi = _range(ivs, a, b)
    if out[0][0] != lo:
        return "output begins at %r, not at %r" % (out[0][0], lo)
    if out[-1][1] != hi:
        return "output ends at %r, not at %r" % (out[-1][1], hi)
    for s, e in out:
        if s < lo or e > hi or s > e:
            return "output interval [%r, %r] is not inside [%r, %r]" % (s, e, lo, hi)
    for (s0, e0), (s1, e1) in zip(out[:-1], out[1:]):
        if e0 > s1:
            return "output intervals overlap / out of order: %r" % (out,)
    # labels=None path returns the same intervals and no labels
    o2, l2 = mir_eval.util.adjust_intervals(arr(ivs), None, a, b, START, END)
    if l2 is not None or [tuple(r) for r in np.asarray(o2).tolist()] != out:
        return "labels=None gives different intervals or invents labels"
    if not regions.REGIONS["adjust_all_before_tmin"](inp):
        w = check_adjust_posdur(inp)
        if w:
            return w
    if not regions.REGIONS["adjust_gap_straddle"](inp):
        w = check_adjust_label(inp)
        if w:
            return w
    return None


def _adjust_input(ivs, labs, a, b):
    return {"intervals": [[F(s), F(e)] for s, e in ivs], "labels": list(labs),
            "t_min": None if a is None else F(a), "t_max": None if b is None else F(b)}


def _proper(ivs, a, b):
    lo = a if a is not None else ivs[0][0]
    hi = b if b is not None else ivs[-1][1]
    return lo < hi


def gen_adjust(rng, tier, shard, nshards, boost):
    n = (150 if tier == "quick" else 1500) * boost
    k = 0
    while k < n:
        ivs, labs = rand_annotation(rng)
        a, _ = crop_point(rng, ivs, "min")
        b, _ = crop_point(rng, ivs, "max")
        if not _proper(ivs, a, b):
            continue
        k += 1
        yield _adjust_input(ivs, labs, a, b)
    if tier == "thorough":
        for ivs, labs, a, b in exhaustive_adjust_inputs(shard, nshards):
            if _proper(ivs, a, b):
                yield _adjust_input(ivs, labs, a, b)
    else:
        # a small exhaustive scope even in the quick tier: <= 2 intervals on 5 points x all crop points
        idx = 0
        pts = [Fr(k) for k in range(1, 6)]
        lat = [None] + [Fr(k, 2) for k in range(0, 13)]
        for ivs in enum_annotations(pts, 2):
            for a in lat:
                for b in lat:
                    idx += 1
                    if idx % nshards == shard and _proper(ivs, a, b):
                        yield _adjust_input(ivs, [LABS[j % 3] for j in range(len(ivs))], a, b)


# ---- adjust_events: the documented statement (Mir.C13.eventsSpec) on the real function
TMIN_L, TMAX_L = "__T_MIN", "__T_MAX"


def events_spec(ev, labs, a, b):
    """events inside [a, b] in their order; a in front / b at the end (synthetic labels) when not already there"""
    out = [(t, l) for t, l in zip(ev, labs) if (a is None or t >= a) and (b is None or t <= b)]
    if a is not None and not any(t == a for t, _ in out):
        out.insert(0, (a, TMIN_L))
    if b is not None and not any(t == b for t, _ in out):
        out.append((b, TMAX_L))
    return out


def check_adjust_events(inp):
    ev, labs, a, b = list(inp["events"]), list(inp["labels"]), inp["t_min"], inp["t_max"]
    try:
        out_t, out_l = mir_eval.util.adjust_events(np.array(ev, dtype=float), list(labs), a, b)
    except Exception as e:  # noqa: BLE001
        return "adjust_events raised %r on time-ordered events and a proper range" % (e,)
    out_t = np.asarray(out_t).tolist()
    if len(out_t) != len(out_l):
        return "%d event times but %d labels" % (len(out_t), len(out_l))
    got = list(zip(out_t, out_l))
    want = events_spec(ev, labs, a, b)
    if got != want:
        return "adjust_events returned %r, the documented result is %r" % (got, want)
    try:
        o2, l2 = mir_eval.util.adjust_events(np.array(ev, dtype=float), None, a, b)
    except Exception as e:  # noqa: BLE001
        return "adjust_events(labels=None) raised %r" % (e,)
    if l2 is not None or np.asarray(o2).tolist() != out_t:
        return "labels=None gives different event times or invents labels"
    return None


def _events_input(ev, labs, a, b):
    return {"events": [F(t) for t in ev], "labels": list(labs),
            "t_min": None if a is None else F(a), "t_max": None if b is None else F(b)}


def gen_adjust_events(rng, tier, shard, nshards, boost):
    n = (150 if tier == "quick" else 1500) * boost
    k = 0
    while k < n:
        m = rng.randint(1, 6)
        ev = sorted(Fr(rng.randint(0, 256), 32) for _ in range(m))
        if m > 1 and rng.random() < 0.3:
            j = rng.randrange(1, m)
            ev[j] = ev[j - 1]                                     # simultaneous events
        labs = [rng.choice(LABS) for _ in ev]
        cand = [None] + ev + [(p + q) / 2 for p, q in zip(ev[:-1], ev[1:])] + \
            [Fr(rng.randint(0, 256), 32), ev[0] - 1, ev[-1] + 1]
        a, b = rng.choice(cand), rng.choice(cand)
        if a is not None and b is not None and a > b:
            continue
        k += 1
        yield _events_input(ev, labs, a, b)
    # exhaustive small scope: <= 3 time-ordered events (ties allowed) on 4 points x all (t_min <= t_max) incl. None
    pts = [Fr(j) for j in range(1, 5)]
    lat = [None] + [Fr(j, 2) for j in range(0, 11)]
    idx = 0
    import itertools
    for m in (1, 2, 3):
        for ev in itertools.combinations_with_replacement(pts, m):
            for a in lat:
                for b in lat:
                    if a is not None and b is not None and a > b:
                        continue
                    idx += 1
                    if idx % nshards == shard:
                        yield _events_input(list(ev), [LABS[j] for j in range(m)], a, b)


def check_merge(inp):
    x = [tuple(r) for r in inp["x"]]
    y = [tuple(r) for r in inp["y"]]
    xl, yl = list(inp["xl"]), list(inp["yl"])
    try:
        iv, oxl, oyl = mir_eval.util.merge_labeled_intervals(arr(x), list(xl), arr(y), list(yl))
    except Exception as e:  # noqa: BLE001
        return "merge_labeled_intervals raised %r on aligned segmentations" % (e,)
    iv = [tuple(r) for r in np.asarray(iv).tolist()]
    if not (len(iv) == len(oxl) == len(oyl)):
        return "lengths differ: %d intervals, %d/%d labels" % (len(iv), len(oxl), len(oyl))
    if not iv:
        return "empty output"
    lo, hi = x[0][0], x[-1][1]
    if iv[0][0] != lo or iv[-1][1] != hi:
        return "output spans [%r, %r], inputs span [%r, %r]" % (iv[0][0], iv[-1][1], lo, hi)
    for (s0, e0), (s1, e1) in zip(iv[:-1], iv[1:]):
        if e0 != s1:
            return "output is not contiguous: %r" % (iv,)
    want = sorted(set(t for r in x + y for t in r))
    if [s for s, _ in iv] + [iv[-1][1]] != want:
        return "boundaries %r are not the union of the input boundaries %r" % (iv, want)
    tot = Fr(0)
    for (s, e), lx, ly in zip(iv, oxl, oyl):
        if not e > s:
            return "non-positive output duration [%r, %r]" % (s, e)
        tot += Fr(e) - Fr(s)
        for t in (s, (s + e) / 2):
            if not s <= t < e:
                continue          # the binary64 midpoint of two neighbouring doubles is one of them
            if label_at(x, xl, t) != [lx]:
                return "x-label over [%r, %r] is %r, x has %r at %r" % (s, e, lx, label_at(x, xl, t), t)
            if label_at(y, yl, t) != [ly]:
                return "y-label over [%r, %r] is %r, y has %r at %r" % (s, e, ly, label_at(y, yl, t), t)
        # the whole output interval lies inside one row of each input
        if not any(xs <= s and e <= xe for xs, xe in x) or not any(ys <= s and e <= ye for ys, ye in y):
            return "output interval [%r, %r] straddles an input boundary" % (s, e)
    if tot != Fr(hi) - Fr(lo):
        return "total duration %r, span %r" % (float(tot), hi - lo)
    return None


def _near_cut(rng, x, xl, y, yl):
    """one more cut in x or y, next to (not on) an existing boundary of either sequence: 1 ulp .. 1e-7 s away at
    ordinary time stamps, up to 0.9e-5 * t away (what a RELATIVE tolerance calls equal) after a shift to late time stamps.
    Both sequences stay valid, aligned segmentations; the merged boundaries are still the union, nothing may collapse."""
    t0 = rng.choice([0.0, 0.0, 1024.0, 3600.0, 16384.0])
    x = [(F(s) + t0, F(e) + t0) for s, e in x]
    y = [(F(s) + t0, F(e) + t0) for s, e in y]
    lo, hi = x[0][0], x[-1][1]
    for _ in range(rng.randint(1, 3)):
        b = rng.choice(sorted(set(t for r in x + y for t in r)))
        ulp = float(np.spacing(b)) if b > 0 else 5e-324
        d = rng.choice([ulp, 2 * ulp, 4e-10, 9.9e-10, 3e-9, 1e-7] + ([0.9e-5 * b, 0.3e-5 * b] if b >= 1024 else []))
        c = b - d if rng.random() < 0.6 else b + d
        if not lo < c < hi or any(c == t for r in x + y for t in r):
            continue
        seq, labs = (x, xl) if rng.random() < 0.5 else (y, yl)
        for k, (s, e) in enumerate(seq):
            if s < c < e:
                seq[k:k + 1] = [(s, c), (c, e)]
                labs[k:k + 1] = [labs[k], labs[k] if rng.random() < 0.5 else rng.choice(LABS)]
                break
    return x, xl, y, yl


def gen_merge(rng, tier, shard, nshards, boost):
    for i in range((150 if tier == "quick" else 2000) * boost):
        x, xl, y, yl = aligned_pair(rng, nmax=rng.choice([3, 5, 8]))
        if rng.random() < 0.5:
            x, xl, y, yl = y, yl, x, xl
        x, xl, y, yl = list(x), list(xl), list(y), list(yl)
        if i % 3 == 2:
            x, xl, y, yl = _near_cut(rng, x, xl, y, yl)
        yield {"x": [[F(s), F(e)] for s, e in x], "xl": xl, "y": [[F(s), F(e)] for s, e in y], "yl": yl}


def check_interpolate(inp):
    ivs = [tuple(r) for r in inp["intervals"]]
    labs, tps, fill = inp["labels"], inp["times"], inp["fill"]
    try:
        got = mir_eval.util.interpolate_intervals(arr(ivs), list(labs), list(tps), fill)
    except Exception as e:  # noqa: BLE001
        return "interpolate_intervals raised %r on sorted time points" % (e,)
    if len(got) != len(tps):
        return "%d labels for %d time points" % (len(got), len(tps))
    for t, g in zip(tps, got):
        w = label_at_closed(ivs, labs, t, fill)
        if g != w:
            return "time %r got %r, the interval containing it says %r" % (t, g, w)
    return None


def gen_interpolate(rng, tier, shard, nshards, boost):
    for _ in range((150 if tier == "quick" else 2000) * boost):
        ivs, labs = rand_annotation(rng)
        tps = sorted(rand_times(rng, ivs, rng.randint(1, 10)))
        if rng.random() < 0.25:
            # rows listed out of time order (documented requirement: disjoint intervals, sorted TIME POINTS)
            k = list(range(len(ivs)))
            rng.shuffle(k)
            ivs, labs = [ivs[j] for j in k], [labs[j] for j in k]
        yield {"intervals": [[F(s), F(e)] for s, e in ivs], "labels": labs, "times": [F(t) for t in tps],
               "fill": rng.choice([None, "F"])}
    idx = 0
    pts = SMALL_PTS if tier == "thorough" else SMALL_PTS[:6]
    grid = [k / 2 for k in range(0, 20)]
    for ivs in enum_annotations(pts, 3):
        idx += 1
        if idx % nshards == shard:
            yield {"intervals": [[F(s), F(e)] for s, e in ivs], "labels": [LABS[k % 3] for k in range(len(ivs))],
                   "times": grid, "fill": None}


def check_samples(inp):
    ivs = [tuple(r) for r in inp["intervals"]]
    labs, off, size, fill = inp["labels"], inp["offset"], inp["size"], inp["fill"]
    try:
        times, got = mir_eval.util.intervals_to_samples(arr(ivs), list(labs), offset=off, sample_size=size,
                                                        fill_value=fill)
    except Exception as e:  # noqa: BLE001
        return "intervals_to_samples raised %r" % (e,)
    if inp.get("decimal"):
        # sample_size is not a binary fraction: the grid is computed in single precision, so the returned times are only
        # near i*size + offset; what must hold exactly is that each label is that of the interval containing the time
        # that is RETURNED (a grid time that single precision puts just below a boundary belongs to the earlier segment)
        n = int(np.floor(max(e for _, e in ivs) / size))
        if len(times) != n:
            return "%d sample times, expected floor(max/size) = %d" % (len(times), n)
        for i, t in enumerate(times):
            w = i * size + off
            if abs(t - w) > 2e-7 * max(1.0, abs(w)):
                return "sample time %d is %r, expected about %r" % (i, t, w)
    else:
        n = int(max(e for _, e in ivs) // size)
        want_t = [i * size + off for i in range(n)]
        if list(times) != want_t:
            return "sample times %r, expected %r" % (list(times)[:8], want_t[:8])
    for t, g in zip(times, got):
        w = label_at_closed(ivs, labs, t, fill)
        if g != w:
            return "sample at %r got %r, the interval containing it says %r" % (t, g, w)
    return None


def gen_samples(rng, tier, shard, nshards, boost):
    for _ in range((100 if tier == "quick" else 1500) * boost):
        ivs, labs = rand_annotation(rng, top=rng.choice([64, 256, 1024]))
        yield {"intervals": [[F(s), F(e)] for s, e in ivs], "labels": labs,
               "offset": F(rng.choice([Fr(0), Fr(1, 16), Fr(1, 4), Fr(1)])),
               "size": F(rng.choice([Fr(1, 8), Fr(1, 4), Fr(1, 2), Fr(1), Fr(2)])), "fill": rng.choice([None, "F"])}
    for _ in range((60 if tier == "quick" else 600) * boost):
        # decimal frame sizes (the default is 0.1 s) with boundaries ON grid multiples: about half of the single-precision
        # grid times fall just below the boundary they approximate
        size = rng.choice([0.1, 0.1, 0.05, 0.01, 0.3])
        k0 = rng.choice([0, 0, 0, 36000, 290000]) if size == 0.1 else 0
        ks = sorted(rng.sample(range(k0 + 1, k0 + 120), rng.randint(1, 6)))
        bs = [k0 * size] + [k * size + (rng.choice([0.0, 0.0, 1e-4, -1e-4, 0.013]) if rng.random() < 0.3 else 0.0) for k in ks]
        bs = sorted(set(bs))
        ivs = list(zip(bs[:-1], bs[1:]))
        if not ivs:
            continue
        yield {"intervals": [[s, e] for s, e in ivs], "labels": [LABS[j % len(LABS)] for j in range(len(ivs))],
               "offset": rng.choice([0.0, 0.0, 0.05]), "size": size, "fill": rng.choice([None, "F"]), "decimal": True}


def check_roundtrip(inp):
    bs = list(inp["boundaries"])
    tol = inp.get("tol", 0.0)
    try:
        iv = mir_eval.util.boundaries_to_intervals(np.array(bs))
    except Exception as e:  # noqa: BLE001
        return "boundaries_to_intervals raised %r on ascending unique boundaries" % (e,)
    ivl = [tuple(r) for r in np.asarray(iv).tolist()]
    if ivl != list(zip(bs[:-1], bs[1:])):
        return "boundaries_to_intervals(%r) = %r" % (bs, ivl)
    back = mir_eval.util.intervals_to_boundaries(iv).tolist()
    if len(back) != len(bs) or any(abs(p - q) > tol for p, q in zip(back, bs)):
        return "intervals_to_boundaries(boundaries_to_intervals(b)) = %r, b = %r" % (back, bs)
    again = [tuple(r) for r in np.asarray(mir_eval.util.boundaries_to_intervals(np.array(back))).tolist()]
    if len(again) != len(ivl) or any(abs(p - q) > tol for r1, r2 in zip(again, ivl) for p, q in zip(r1, r2)):
        return "boundaries_to_intervals(intervals_to_boundaries(i)) = %r, i = %r" % (again, ivl)
    return None


def gen_roundtrip(rng, tier, shard, nshards, boost):
    for _ in range((150 if tier == "quick" else 2000) * boost):
        m = rng.randint(2, 8)
        if rng.random() < 0.6:
            bs = sorted(set(Fr(rng.randint(0, 64 * 32), 32) for _ in range(m)))
            tol = 0.0
        else:   # documented rounding: values with 7 decimals, pairwise more than 2e-5 apart
            bs = sorted(set(rounded_lattice(rng) for _ in range(m)))
            bs = [b for k, b in enumerate(bs) if k == 0 or b - bs[k - 1] > Fr(1, 1000)]
            tol = 0.5e-5 + 1e-9
        if len(bs) >= 2:
            yield {"boundaries": [F(b) for b in bs], "tol": tol}


def check_roundtrip_noisy(inp):
    """a contiguous segmentation whose shared boundaries differ by float noise (< 1e-6): the documented 5-decimal
    rounding must identify them, so intervals -> boundaries -> intervals works and reproduces the segmentation"""
    iv = np.array(inp["intervals"], dtype=float)
    n = iv.shape[0]
    try:
        b = mir_eval.util.intervals_to_boundaries(iv)
        back = mir_eval.util.boundaries_to_intervals(b)
    except Exception as e:  # noqa: BLE001
        return "round trip raised %r on a contiguous segmentation with float-noise boundaries" % (e,)
    if len(b) != n + 1:
        return "intervals_to_boundaries returned %d boundaries for %d contiguous intervals: %r" % (len(b), n, b.tolist())
    back = np.asarray(back)
    if back.shape != iv.shape or np.max(np.abs(back - iv)) > 0.5e-5 + 1e-6:
        return "boundaries_to_intervals(intervals_to_boundaries(i)) = %r, i = %r" % (back.tolist(), iv.tolist())
    return None


def gen_roundtrip_noisy(rng, tier, shard, nshards, boost):
    for _ in range((150 if tier == "quick" else 2000) * boost):
        m = rng.randint(2, 7)
        bs = sorted(set(rng.randint(0, 6400) / 100.0 for _ in range(m + 1)))
        if len(bs) < 3:
            continue
        ivs = []
        for k in range(len(bs) - 1):
            a = bs[k] + rng.choice([0.0, 1e-9, -1e-9, 3e-8, 2e-7, -2e-7]) if k > 0 else bs[k]
            e = bs[k + 1] + rng.choice([0.0, 1e-9, -1e-9, 3e-8, 2e-7, -2e-7]) if k < len(bs) - 2 else bs[k + 1]
            ivs.append([a, e])
        yield {"intervals": ivs}


# ---- re-expressing the SAME annotation objects several times (histories)
def _out(r):
    iv, l = r
    return [np.asarray(iv).tolist(), None if l is None else list(l)]


def check_adjust_reuse(inp):
    """the annotation that is re-expressed is preserved: adjusting the same array / label list objects to a sequence of
    ranges gives, at every step, what adjusting a fresh copy of the original annotation to that range gives"""
    ivs = [tuple(x) for x in inp["intervals"]]
    labs = list(inp["labels"])
    shared_iv, shared_l = arr(ivs), list(labs)
    for k, (a, b) in enumerate(inp["calls"]):
        def run(iv, l):
            try:
                return ("ok", _out(mir_eval.util.adjust_intervals(iv, l, a, b, START, END)))
            except Exception as e:  # noqa: BLE001
                return ("raised", type(e).__name__)
        got = run(shared_iv, shared_l)
        want = run(arr(ivs), list(labs))
        if got != want:
            return ("call %d of %d on the same annotation objects, range [%r, %r]: got %r; a fresh copy of the "
                    "annotation gives %r" % (k + 1, len(inp["calls"]), a, b, got, want))
    return None


def gen_adjust_reuse(rng, tier, shard, nshards, boost):
    n = (150 if tier == "quick" else 1500) * boost
    k = 0
    while k < n:
        ivs, labs = rand_annotation(rng)
        calls = []
        for _ in range(rng.choice([2, 2, 3])):
            a, _x = crop_point(rng, ivs, "min")
            b, _x = crop_point(rng, ivs, "max")
            if rng.random() < 0.3:
                a = ivs[0][0]              # a range that starts exactly where the annotation starts
            if _proper(ivs, a, b):
                calls.append([None if a is None else F(a), None if b is None else F(b)])
        if len(calls) < 2:
            continue
        k += 1
        d = _adjust_input(ivs, labs, None, None)
        yield {"intervals": d["intervals"], "labels": d["labels"], "calls": calls}


def check_events_reuse(inp):
    ev, labs = list(inp["events"]), list(inp["labels"])
    shared_t, shared_l = np.array(ev, dtype=float), list(labs)
    for k, (a, b) in enumerate(inp["calls"]):
        def run(t, l):
            try:
                return ("ok", _out(mir_eval.util.adjust_events(t, l, a, b)))
            except Exception as e:  # noqa: BLE001
                return ("raised", type(e).__name__)
        got = run(shared_t, shared_l)
        want = run(np.array(ev, dtype=float), list(labs))
        if got != want:
            return ("call %d of %d on the same event objects, range [%r, %r]: got %r; a fresh copy gives %r"
                    % (k + 1, len(inp["calls"]), a, b, got, want))
    return None


def gen_events_reuse(rng, tier, shard, nshards, boost):
    for d in gen_adjust_events(rng, tier, shard, nshards, boost):
        ev = d["events"]
        cand = [None] + ev + [ev[0] - 1, ev[-1] + 1, (ev[0] + ev[-1]) / 2]
        calls = [[d["t_min"], d["t_max"]]]
        for _ in range(2):
            a, b = rng.choice(cand), rng.choice(cand)
            if a is None or b is None or a <= b:
                calls.append([a, b])
        if len(calls) >= 2 and rng.random() < 0.25:
            yield {"events": ev, "labels": d["labels"], "calls": calls}


def check_index_labels(inp):
    """the documented contract of index_labels: `labels[i] == index_to_label[indices[i]]` (after `str(.).lower()` unless
    case_sensitive), equal labels <-> equal indices, indices are the ranks of the labels in sorted order (0 .. k-1)"""
    labels, cs = list(inp["labels"]), bool(inp["case_sensitive"])
    try:
        idx, back = mir_eval.util.index_labels(list(labels), case_sensitive=cs)
    except Exception as e:  # noqa: BLE001
        return "index_labels raised %r" % (e,)
    norm = labels if cs else [str(x).lower() for x in labels]
    if len(idx) != len(labels):
        return "%d indices for %d labels" % (len(idx), len(labels))
    for i, (k, n) in enumerate(zip(idx, norm)):
        if back.get(k) != n:
            return "index_to_label[indices[%d]] = %r, the label is %r" % (i, back.get(k), n)
    ranks = {n: r for r, n in enumerate(sorted(set(norm)))}
    if list(idx) != [ranks[n] for n in norm]:
        return "indices %r are not the ranks %r of the labels in sorted order" % (list(idx), [ranks[n] for n in norm])
    if sorted(back) != list(range(len(ranks))):
        return "index_to_label has keys %r for %d distinct labels" % (sorted(back), len(ranks))
    return None


def gen_index_labels(rng, tier, shard, nshards, boost):
    alphabet = ["a", "A", "b", "B", "ab", "Ab", "", "c1", "C1", "Z", "z~", "seg 1", "Seg 1"]
    for _ in range((60 if tier == "quick" else 600) * boost):
        n = rng.randint(0, 9)
        yield {"labels": [rng.choice(alphabet) for _ in range(n)], "case_sensitive": rng.random() < 0.5}


CHECKERS = {
    "util.index_labels": check_index_labels,
    "util.adjust_intervals:reuse": check_adjust_reuse,
    "util.adjust_events:reuse": check_events_reuse,
    "util.intervals_roundtrip_noisy": check_roundtrip_noisy,
    "util.adjust_intervals": check_adjust_rest,
    "util.adjust_intervals:posdur": check_adjust_posdur,
    "util.adjust_intervals:labelAt": check_adjust_label,
    "util.adjust_events": check_adjust_events,
    "util.merge_labeled_intervals": check_merge,
    "util.interpolate_intervals": check_interpolate,
    "util.intervals_to_samples": check_samples,
    "util.boundaries_roundtrip": check_roundtrip,
}
ORACLES = {
    "util.index_labels": gen_index_labels,
    "util.adjust_intervals:reuse": gen_adjust_reuse,
    "util.adjust_events:reuse": gen_events_reuse,
    "util.intervals_roundtrip_noisy": gen_roundtrip_noisy,
    "util.adjust_intervals": gen_adjust,
    "util.adjust_intervals:posdur": gen_adjust,
    "util.adjust_intervals:labelAt": gen_adjust,
    "util.adjust_events": gen_adjust_events,
    "util.merge_labeled_intervals": gen_merge,
    "util.interpolate_intervals": gen_interpolate,
    "util.intervals_to_samples": gen_samples,
    "util.boundaries_roundtrip": gen_roundtrip,
}


def _ordered(ivs):
    return all(s < e for s, e in ivs) and all(p[1] <= q[0] for p, q in zip(ivs[:-1], ivs[1:]))


def classify(suite, d):
    """Map a disagreeing correspondence case to (site, oracle input) when it lies in the statement's domain."""
    i = d["info"]
    if suite == "gen_utilint":
        # a generated definition disagreeing with the function it was generated from: tried as an input of that function's
        # own statement-level oracle
        src = {"adjust_intervals": "adjust_intervals", "adjust_events": "adjust_events",
               "merge_labeled_intervals": "merge_labeled_intervals", "boundaries_to_intervals": "boundaries",
               "interpolate_intervals": "interpolate_intervals",
               "intervals_to_samples": "intervals_to_samples"}.get(i.get("fn"))
        if i.get("fn") == "index_labels":
            return "util.index_labels", {"labels": i["labels"], "case_sensitive": i["case_sensitive"]}
        return classify(src, d) if src else None
    if suite == "adjust_intervals":
        ivs = [tuple(r) for r in i["intervals"]]
        if ivs and _ordered(ivs) and _proper(ivs, i["t_min"], i["t_max"]):
            return "util.adjust_intervals", i
    if suite == "adjust_events":
        ev, a, b = i["events"], i.get("t_min"), i.get("t_max")
        if ev and "labels" in i and not (a is not None and b is not None and a > b):
            return "util.adjust_events", {"events": ev, "labels": i["labels"], "t_min": a, "t_max": b}
    if suite == "merge_labeled_intervals":
        x, y = [tuple(r) for r in i["x"]], [tuple(r) for r in i["y"]]
        contig = lambda z: all(p[1] == q[0] for p, q in zip(z[:-1], z[1:]))  # noqa: E731
        if x and y and _ordered(x) and _ordered(y) and contig(x) and contig(y) and x[0][0] == y[0][0] \
                and x[-1][1] == y[-1][1]:
            return "util.merge_labeled_intervals", i
    if suite == "interpolate_intervals":
        if i["intervals"] and i["times"] == sorted(i["times"]) and _ordered([tuple(r) for r in i["intervals"]]):
            return "util.interpolate_intervals", i
    if suite == "intervals_to_samples":
        if i["intervals"]:
            return "util.intervals_to_samples", i
    if suite == "boundaries" and "boundaries" in i:
        bs = i["boundaries"]
        if len(bs) >= 2 and all(p < q for p, q in zip(bs[:-1], bs[1:])):
            return "util.boundaries_roundtrip", {"boundaries": bs, "tol": 0.0}
    return None
