"""C14 — valid annotations are always scored; malformed ones are rejected cleanly (oracle side + validator tie)."""
import glob
import os
import random

import numpy as np

import faults as FX
import proto
import suites as SU
import tasks as T

PID = "C14"
_here = os.path.dirname(os.path.abspath(__file__))
_props = os.path.join(os.path.dirname(os.path.dirname(_here)), "lean", "MirProofs", "Props")
LEAN_MODULES = sorted("MirProofs.Props." + os.path.basename(f)[:-5]
                      for f in glob.glob(os.path.join(_props, "C14*.lean")))
RULE = ("valid stream: every task's valid (reference, estimate) generator incl. empty sides, single items, duplicate "
        "times, estimates starting earlier / running longer than the reference, boundaries coinciding with the "
        "reference's start/end, fed to evaluate() and to every public metric function: none may raise; X stream: one "
        "single-fault corruption per documented fault class and entry point: must raise ValueError "
        "(InvalidChordException for labels), never return a score, never another exception type")
ASSUMPTIONS = ["fault classes are those a validator names or raises for (DESIGN §5 C14 scope rule)",
               "NaN values and non-array containers are not fault classes of this property"]
UNPROVED = ["totality of every metric body on valid input is established by the oracle, not by a theorem, except for "
            "the validators (Props/C14.lean)"]
SUITES, _cl = SU.load_all(only=["validators"])


def check_valid(inp):
    b = FX.build(inp)
    fn, o, kw = b
    try:
        fn(o, **kw)
    except Exception as e:  # noqa: BLE001
        return "%s.%s raised %s on a valid input: %s" % (inp["task"], inp["entry"], type(e).__name__, str(e)[:120])
    return None


def check_fault(inp):
    b = FX.build(inp)
    if b is None:
        return None
    fn, o, kw = b
    _, exc = FX.FAULT_INDEX[(inp["task"], inp["entry"], inp["fault"])]
    try:
        try:
            res = fn(o, **kw)
        except RuntimeError as e:
            if "not applicable" in str(e):
                return None
            raise
    except Exception as e:  # noqa: BLE001
        got = proto.classify_exc(e).cls
        if got == exc:
            return None
        return "%s.%s with fault %s raised %s (%s) instead of %s" % (
            inp["task"], inp["entry"], inp["fault"], type(e).__name__, str(e)[:100], exc)
    return "%s.%s with fault %s returned a result instead of raising %s" % (
        inp["task"], inp["entry"], inp["fault"], exc)


def admissible(task, entry, base):
    """is `base` a valid input for this entry point (evaluate() accepts more than the metric functions)"""
    if task == "segment" and entry != "evaluate":
        ri, ei = base["ref"][0], base["est"][0]
        if entry in ("detection", "deviation"):
            return True
        return bool(ri) and bool(ei) and ri[-1][1] == ei[-1][1]
    return True


def gen_valid(task):
    def g(rng, tier, shard, nshards, boost):
        n = (40 if tier == "quick" else 800) * boost
        entries = sorted(FX.ENTRIES[task])
        for _ in range(n):
            base = T.TASKS[task].gen(rng) if rng.random() < 0.85 else T.TASKS[task].gen_self(rng)
            base.pop("transform", None)
            for e in entries:
                if admissible(task, e, base):
                    yield {"task": task, "entry": e, "fault": None, "base": base}
    return g


def gen_fault(task):
    fl = [(t, e, name) for (t, e, name) in FX.FAULT_INDEX if t == task]

    def g(rng, tier, shard, nshards, boost):
        reps = (2 if tier == "quick" else 30) * boost
        for _ in range(reps):
            for (t, e, name) in sorted(fl):
                base = T.TASKS[task].gen(rng)
                base.pop("transform", None)
                yield {"task": task, "entry": e, "fault": name, "base": base, "seed": rng.randint(0, 10 ** 6)}
    return g


CHECKERS, ORACLES = {}, {}
for _t in FX.ENTRIES:
    CHECKERS["%s:valid" % _t] = check_valid
    ORACLES["%s:valid" % _t] = gen_valid(_t)
    CHECKERS["%s:fault" % _t] = check_fault
    ORACLES["%s:fault" % _t] = gen_fault(_t)

from suites import validators as _V  # noqa: E402
for _k, _v in _V.CHECKERS.items():
    CHECKERS["validator:" + _k] = _v
    ORACLES["validator:" + _k] = _V.ORACLES[_k]


def classify(suite, d):
    r = _V.classify(suite.split(".", 1)[-1], d)
    if r and ("validator:" + r[0]) in CHECKERS:
        return "validator:" + r[0], r[1]
    return None
