"""C14 — valid annotations are always scored; malformed ones are rejected cleanly (oracle side + validator tie)."""
import glob
import os
import random
from fractions import Fraction as Fr

import numpy as np

import faults as FX
import proto
import suites as SU
import tasks as T

PID = "C14"
_here = os.path.dirname(os.path.abspath(__file__))
_props = os.path.join(os.path.dirname(os.path.dirname(_here)), "lean", "MirProofs", "Props")
LEAN_MODULES = sorted("MirProofs.Props." + os.path.basename(f)[:-5]
                      for f in glob.glob(os.path.join(_props, "C14*.lean")))
RULE = ("valid stream: every task's valid (reference, estimate) generator incl. empty sides, single items, duplicate "
        "times, estimates starting earlier / running longer than the reference, boundaries coinciding with the "
        "reference's start/end, fed to evaluate() and to every public metric function: none may raise; X stream: one "
        "single-fault corruption per documented fault class and entry point: must raise ValueError "
        "(InvalidChordException for labels), never return a score, never another exception type")
ASSUMPTIONS = ["fault classes are those a validator names or raises for (DESIGN §5 C14 scope rule)",
               "the translator part `validators` and its run-time library lean/MirModel/PyVal.lean (NumPy operations on "
               "shape + row-major data, no broadcasting between arrays, exception messages not evaluated, warnings skipped) "
               "are assumed and exercised against the real validators and against NumPy by suite validators.gen_validators",
               "NaN values and non-array containers are not fault classes of this property"]
UNPROVED = ["totality of the metric bodies on valid input is a theorem for the validators (Props/C14.lean) and for the "
            "models of melody, multipitch, transcription + transcription_velocity, the segment labelling metrics, "
            "the chord interval scores, beat, boundary detection, pattern, alignment, onset, tempo and key "
            "(Props/C14_<Task>.lean, with the escapes of the unchanged code refuted from "
            "witnesses: IndexError on empty melody series / short voicing arrays / empty chord reference / "
            "out-of-range pairings, OverflowError on hop = 0; key: KeyError of the second split cannot escape, "
            "C14_Key.weighted_score_errors); hierarchy: C17.tmeasure_total_partial; for separation and "
            "chord.evaluate as a pipeline it is established by the oracle only",
            "C14_Key is about MirModel/Key.lean's validateKey (regenerated from the source by the scalars_key "
            "translator part of C04); that it equals the validator model keyValidateKey of Props/C14.lean is compared "
            "(both against the real validate_key), not proved"]
# the validators are also REGENERATED from the source (harness/translate/validators.py -> lean/MirGen/Validators.lean) and
# proved equal to the hand-written model (Props/C14_GenVal.lean, picked up by the glob above); suite
# `validators.gen_validators` runs the generated definitions (driver op `gen.validators`) against the real validators
TRANSLATOR_PARTS = ["validators"]
SUITES, _cl = SU.load_all(only=["validators"])


def check_valid(inp):
    b = FX.build(inp)
    fn, o, kw = b
    try:
        fn(o, **kw)
    except Exception as e:  # noqa: BLE001
        return "%s.%s raised %s on a valid input: %s" % (inp["task"], inp["entry"], type(e).__name__, str(e)[:120])
    # the same (valid) annotation objects scored again, by this and by the task's other entry points: still valid,
    # still scored
    for e2 in [inp["entry"]] + list(inp.get("then", [])):
        try:
            FX.ENTRIES[inp["task"]][e2](o, **(kw if e2 == inp["entry"] else {}))
        except Exception as e:  # noqa: BLE001
            # only a failure of THIS claim when the entry point scores a fresh copy of the same annotation (an entry
            # that rejects the fresh copy as well is reported under its own input)
            fn2, o2, _ = FX.build(dict(inp, entry=e2, kw=(inp.get("kw") if e2 == inp["entry"] else None)))
            try:
                fn2(o2, **(kw if e2 == inp["entry"] else {}))
            except Exception:  # noqa: BLE001
                continue
            return ("%s.%s raised %s when the same valid annotation objects were scored again after %s.%s: %s"
                    % (inp["task"], e2, type(e).__name__, inp["task"], inp["entry"], str(e)[:120]))
    return None


def check_fault(inp):
    b = FX.build(inp)
    if b is None:
        return None
    fn, o, kw = b
    _, exc = FX.FAULT_INDEX[(inp["task"], inp["entry"], inp["fault"])]
    try:
        try:
            res = fn(o, **kw)
        except RuntimeError as e:
            if "not applicable" in str(e):
                return None
            raise
    except Exception as e:  # noqa: BLE001
        got = proto.classify_exc(e).cls
        if got == exc:
            return None
        return "%s.%s with fault %s raised %s (%s) instead of %s" % (
            inp["task"], inp["entry"], inp["fault"], type(e).__name__, str(e)[:100], exc)
    return "%s.%s with fault %s returned a result instead of raising %s" % (
        inp["task"], inp["entry"], inp["fault"], exc)


def admissible(task, entry, base):
    """is `base` a valid input for this entry point (evaluate() accepts more than the metric functions)"""
    if task == "segment" and entry != "evaluate":
        ri, ei = base["ref"][0], base["est"][0]
        if entry in ("detection", "deviation"):
            return True
        # "end together": as the validator defines it (np.allclose: |a - b| <= 1e-8 + 1e-5 |b|)
        return bool(ri) and bool(ei) and abs(T.F(ri[-1][1]) - T.F(ei[-1][1])) <= Fr(1, 10 ** 8) + Fr(1, 10 ** 5) * abs(T.F(ei[-1][1]))
    return True


# documented, in-range, non-default parameter settings tried on the valid stream (a valid input must be scored under
# every admissible setting, not only the defaults)
VALID_KW = {
    ("segment", "detection"): [{"trim": True}, {"trim": True, "window": 3.0}, {"beta": 2.0}],
    ("segment", "deviation"): [{"trim": True}],
    ("segment", "nce"): [{"marginal": True}, {"beta": 0.5}],
    ("segment", "pairwise"): [{"frame_size": 0.5}, {"beta": 2.0}],
    ("segment", "evaluate"): [{"trim": True}, {"frame_size": 0.5}],
    ("onset", "f_measure"): [{"window": 0.0}, {"window": 1.0}],
    ("beat", "f_measure"): [{"f_measure_threshold": 0.0}],
    ("beat", "information_gain"): [{"bins": 11}],
    ("beat", "evaluate"): [{"min_beat_time": 0.0}, {"bins": 11}],
    ("transcription", "precision_recall_f1_overlap"): [{"strict": True}, {"offset_ratio": None}, {"beta": 2.0}],
    ("transcription", "onset_precision_recall_f1"): [{"strict": True}],
    ("transcription", "offset_precision_recall_f1"): [{"strict": True}, {"offset_min_tolerance": 0.0}],
    ("transcription", "evaluate"): [{"strict": True}, {"offset_ratio": None}],
    ("transcription_velocity", "evaluate"): [{"strict": True}, {"velocity_tolerance": 0.5}],
    ("multipitch", "evaluate"): [{"window": 1.0}],
    ("melody", "evaluate"): [{"cent_tolerance": 25}, {"hop": 0.25}],
    ("tempo", "detection"): [{"tol": 0.0}, {"tol": 1.0}],
    ("alignment", "percentage_correct"): [{"window": 0.0}],
    ("alignment", "percentage_correct_segments"): [{"duration": 100.0}],
    ("pattern", "occurrence_FPR"): [{"thres": 0.5}],
    ("pattern", "first_n_three_layer_P"): [{"n": 1}],
    ("pattern", "evaluate"): [{"n": 1}],
    ("hierarchy", "tmeasure"): [{"transitive": True}, {"window": 2.0, "frame_size": 0.5}, {"frame_size": 1.0}],
    ("hierarchy", "lmeasure"): [{"frame_size": 1.0}, {"beta": 2.0}],
    ("hierarchy", "evaluate"): [{"frame_size": 1.0}],
    ("chord", "evaluate"): [],
    ("key", "evaluate"): [],
}


def vary_timebase(rng, base):
    """melody / multipitch: reference and estimate need not share a time base (melody.to_cent_voicing resamples the
    estimate, adds a sample at time 0, extends a series that ends early and trims one that runs long;
    multipitch.metrics resamples the estimate onto the reference times, frames outside its range are empty): every
    such input is valid and must be scored (Props/C14_Melody.evaluate_total, C14_Multipitch.metrics_total).  The
    task generators always use one common time base, so half of the bases get an estimate / reference that ends
    earlier, starts later, or sits half a hop off the grid."""
    ref = [list(base["ref"][0]), list(base["ref"][1])]
    est = [list(base["est"][0]), list(base["est"][1])]
    n = len(est[0])
    if n < 2 or rng.random() < 0.5:
        return base
    k = rng.randint(1, n - 1)
    mode = rng.choice(["est_short", "est_late", "ref_short", "ref_late", "est_offset"])
    if mode == "est_short":
        est = [est[0][:-k], est[1][:-k]]
    elif mode == "est_late":
        est = [est[0][k:], est[1][k:]]
    elif mode == "ref_short":
        ref = [ref[0][:-k], ref[1][:-k]]
    elif mode == "ref_late":
        ref = [ref[0][k:], ref[1][k:]]
    else:
        est = [[T.S(T.F(x) + Fr(1, 16)) for x in est[0]], est[1]]
    out = dict(base)
    out["ref"], out["est"] = ref, est
    return out


def gen_valid(task):
    def g(rng, tier, shard, nshards, boost):
        n = (40 if tier == "quick" else 800) * boost
        entries = sorted(FX.ENTRIES[task])
        for _ in range(n):
            base = T.TASKS[task].gen(rng) if rng.random() < 0.85 else T.TASKS[task].gen_self(rng)
            base.pop("transform", None)
            mel_kw = None
            if task == "melody" and base.get("kw"):
                # the estimate on its own time base with a continuous voicing curve and a documented interpolation kind
                # (tasks.Melody.gen): valid, must be scored by evaluate()
                mel_kw = dict(base.pop("kw"))
                base["use_voicing"] = True
            elif task in ("melody", "multipitch"):
                base = vary_timebase(random.Random(rng.randint(0, 10 ** 9)), base)
            if task == "melody" and rng.random() < 0.03:
                # empty sides: the frame measures define a score (0, with a warning) for empty series
                side = rng.choice(["ref", "est", "both"])
                base = dict(base)
                if side in ("ref", "both"):
                    base["ref"] = [[], []]
                if side in ("est", "both"):
                    base["est"] = [[], []]
            if task == "segment" and rng.random() < 0.03 and base["ref"][0] and base["est"][0]:
                # the two annotations end together up to the validator's own tolerance (np.allclose) but on
                # different sides of a frame boundary
                base = dict(base)
                ei = [list(r) for r in base["est"][0]]
                ei[-1][1] = T.S(T.F(ei[-1][1]) - Fr(1, 20000))
                base["est"] = [ei, base["est"][1]]
            ok_entries = [e for e in entries if admissible(task, e, base)]
            if mel_kw is not None:
                yield {"task": task, "entry": "evaluate", "fault": None, "base": base, "kw": mel_kw}
                continue
            for e in entries:
                if admissible(task, e, base):
                    then = [x for x in ok_entries if x != e and rng.random() < 0.3][:2]
                    yield {"task": task, "entry": e, "fault": None, "base": base, "then": then}
                    for kw in VALID_KW.get((task, e), []):
                        if rng.random() < 0.5:
                            yield {"task": task, "entry": e, "fault": None, "base": base, "kw": kw}
    return g


def gen_fault(task):
    fl = [(t, e, name) for (t, e, name) in FX.FAULT_INDEX if t == task]

    def g(rng, tier, shard, nshards, boost):
        reps = (2 if tier == "quick" else 30) * boost
        for _ in range(reps):
            for (t, e, name) in sorted(fl):
                base = T.TASKS[task].gen(rng)
                base.pop("transform", None)
                yield {"task": task, "entry": e, "fault": name, "base": base, "seed": rng.randint(0, 10 ** 6)}
    return g


CHECKERS, ORACLES = {}, {}
for _t in FX.ENTRIES:
    CHECKERS["%s:valid" % _t] = check_valid
    ORACLES["%s:valid" % _t] = gen_valid(_t)
    CHECKERS["%s:fault" % _t] = check_fault
    ORACLES["%s:fault" % _t] = gen_fault(_t)

# ----------------------------------------------------------------------------------------
# separation entry points (signals are not annotations of harness/tasks.py: recipes and helpers of props/c19.py)

def _sep_call(inp):
    from props import c19 as C19
    ref, est = C19.make_signals(inp)
    f = inp.get("fault")
    if f == "ref-silent-source":
        ref[inp["src"]] = 0.0
    elif f == "est-silent-source":
        est[inp["src"]] = 0.0
    elif f == "shape-mismatch":
        est = est[:, :-1]
    elif f == "four-dimensional":
        ref, est = ref.reshape(ref.shape + (1,) * (4 - ref.ndim)), est.reshape(est.shape + (1,) * (4 - est.ndim))
    fn = C19._fn(inp["fn"])
    args = [inp["window"], inp["hop"]] if inp["fn"].endswith("framewise") else []
    import warnings
    with warnings.catch_warnings():
        warnings.simplefilter("ignore")
        with C19.forced_flen(inp["flen"]):
            return fn(ref, est, *args, inp["cp"])


def check_separation_valid(inp):
    """valid signals (every source non-silent over the whole excerpt; single windows may well be silent on either side,
    which the framewise functions document as NaN frames) are always scored"""
    try:
        _sep_call(inp)
    except Exception as e:  # noqa: BLE001 - the class is the observation
        return "separation.bss_eval_%s raised %s on valid signals: %s" % (inp["fn"], type(e).__name__, str(e)[:160])
    return None


def check_separation_fault(inp):
    try:
        _sep_call(inp)
    except ValueError:
        return None
    except Exception as e:  # noqa: BLE001
        return "separation.bss_eval_%s: fault %r raised %s instead of ValueError: %s" % (
            inp["fn"], inp["fault"], type(e).__name__, str(e)[:160])
    return "separation.bss_eval_%s: fault %r was scored" % (inp["fn"], inp["fault"])


def _gen_separation(faulty):
    def g(rng, tier, shard, nshards, boost):
        from props import c19 as C19
        n = (10 if tier == "quick" else 120) * boost
        for name in ("sources", "images", "sources_framewise", "images_framewise"):
            images = name.startswith("images")
            if name.endswith("framewise"):
                src = C19._gen_framewise(name)(rng, tier, 1, 2, 1)      # shard 1 of 2: the recipes without the fixed extras
            else:
                src = (dict(C19._real_recipe(rng, tier, images, real_flen_ok=False), fn=name, cp=rng.random() < 0.5)
                       for _ in range(n))
            k = 0
            for r in src:
                if k >= n:
                    break
                if r.get("flen") == 512 or "window" not in r and name.endswith("framewise"):
                    continue
                k += 1
                r = dict(r, fn=name)
                r.pop("check", None)
                if not faulty:
                    yield r
                else:
                    f = rng.choice(["ref-silent-source", "est-silent-source", "shape-mismatch", "four-dimensional"])
                    yield dict(r, fault=f, src=rng.randrange(r["nsrc"]), silent=[])
    return g


CHECKERS["separation:valid"] = check_separation_valid
ORACLES["separation:valid"] = _gen_separation(False)
CHECKERS["separation:fault"] = check_separation_fault
ORACLES["separation:fault"] = _gen_separation(True)

from suites import validators as _V  # noqa: E402
for _k, _v in _V.CHECKERS.items():
    CHECKERS["validator:" + _k] = _v
    ORACLES["validator:" + _k] = _V.ORACLES[_k]


def classify(suite, d):
    r = _V.classify(suite.split(".", 1)[-1], d)
    if r and ("validator:" + r[0]) in CHECKERS:
        return "validator:" + r[0], r[1]
    return None
