"""C15 — evaluation is pure: inputs are never modified, results are repeatable.

Proof side: lean/MirModel/Effects.lean (effect language, semantics, abstract interpreter),
lean/MirProofs/Props/C15.lean (analysis_sound, history_invariant, empty_init_sound, G-obligations on the program that
harness/translate/effects.py regenerates from the current source).

Runtime side (this file) = validation of the translator + direct oracle on the real code, for every public
function of the task modules, util, sonify and separation, on generated valid inputs:
  * deep snapshot of all arguments (bytes of ndarrays incl. base buffers, lists, dicts, nested pattern
    lists, kwargs) before vs after the call;
  * the call repeated on pristine copies: results bit-identical;
  * the call on read-only (writeable=False) copies: silent writes become exceptions;
  * `np.empty` poisoned with sentinel A, then B: any difference in a returned number is a read of
    uninitialised memory;
  * histories: calls from all modules on *shared* argument objects in shuffled / reversed / interleaved
    order vs each call in isolation.
An oracle input is `{"fn": "<module>.<function>", "seed": <int>}` (arguments are regenerated from the seed)
or `{"fn": …, "lit": {param: value}}` with ndarrays written as `{"nd": nested list}`.
"""
import copy
import importlib
import inspect
import random
import struct
import warnings

import numpy as np

import mir_eval  # noqa: F401

from core import Case, REPO

PID = "C15"
LEAN_MODULES = ["MirProofs.Props.C15"]
TRANSLATOR_PARTS = ["effects"]     # this property depends on lean/MirGen/Effects*.lean only
RULE = ("every public function of 16 modules x generated valid inputs (seeded); an input is non-trivial when "
        "the call returns without raising; correspondence = Lean effect analysis vs Python port vs runtime "
        "observation per function")
ASSUMPTIONS = [
    "effects translator classification tables (which NumPy/SciPy/builtin calls allocate, return views, write "
    "in place) and region abstraction (harness/translate/effects.py docstring)",
    "documented parameter types (numpydoc) are the contract of a valid input (scalars/str immutable, label "
    "lists hold immutable items, documented array shapes)",
    "user-supplied callables and warnings.warn do not write their arguments",
    "CPython/NumPy semantics of aliasing as modelled by Mir.Effects.Exec (one location per region)",
]
UNPROVED = [
    "util.intersect_files: pure on valid inputs (runtime oracle) but not provable by the analysis, which does not "
    "know that the path strings it stores are immutable (listed in Mir.C15.unproved)",
    "bit-identical repeatability of returned values is observed at run time, not modelled (the model proves "
    "every call sees unmodified arguments and unchanged global state)",
]

MODULES = ["util", "alignment", "beat", "chord", "hierarchy", "key", "melody", "multipitch", "onset",
           "pattern", "segment", "separation", "sonify", "tempo", "transcription", "transcription_velocity"]


def public_functions():
    out = []
    for m in MODULES:
        mod = importlib.import_module("mir_eval." + m)
        for n, f in sorted(vars(mod).items()):
            if inspect.isfunction(f) and not n.startswith("_") and getattr(f, "__module__", None) == mod.__name__:
                out.append(m + "." + n)
    return out


def get_function(qual):
    m, n = qual.split(".", 1)
    return getattr(importlib.import_module("mir_eval." + m), n)


# ---------------------------------------------------------------------------------------------------
# input generators

def _events(rng, n, lo=0.0, step=(0.05, 1.5)):
    t, out = lo + rng.uniform(0, 1.0), []
    for _ in range(n):
        out.append(round(t, 4))
        t += rng.uniform(*step)
    return np.array(out, dtype=float)


def _segments(rng, n, start=0.0, end=None):
    b = _events(rng, n + 1, lo=start, step=(0.3, 3.0))
    b[0] = start
    if end is not None and end > b[-2]:
        b[-1] = end
    return np.array([b[:-1], b[1:]]).T.copy()


def _labels(rng, n, vocab):
    return [rng.choice(vocab) for _ in range(n)]


SEG_VOCAB = ["a", "b", "c", "A", "verse", "chorus", "a'"]
CHORDS = ["N", "X", "C", "C:maj", "A:min", "G:7", "D:min7", "F#:maj7", "Bb:maj/3", "E:min/b3", "C:sus4",
          "D:dim", "A:aug", "G:maj6", "C:min9", "F:maj(9)", "Ab:hdim7", "E:7/b7", "B:min/5", "C:maj(*3)",
          "D:9", "G:13", "A:min11", "Db:5", "C:1"]
KEYS = ["C major", "a minor", "F# major", "Eb minor", "G major", "d minor", "B major", "c# minor",
        "Db major", "e minor"]


def _notes(rng, n):
    on = _events(rng, n, step=(0.05, 0.8))
    dur = np.array([round(rng.uniform(0.1, 1.5), 4) for _ in range(n)])
    return np.array([on, on + dur]).T.copy()


def _hz(rng, n, lo=100.0, hi=1000.0):
    return np.array([round(440.0 * 2 ** (rng.randint(-24, 24) / 12.0) * rng.choice([1.0, 1.0, 1.01]), 4)
                     for _ in range(n)])


def _melody_series(rng, n, hop):
    t = np.arange(n) * hop
    f = np.array([0.0 if rng.random() < 0.25 else round(rng.uniform(100, 800), 3) for _ in range(n)])
    return t, f


def _pattern(rng):
    nocc = rng.randint(1, 3)
    base = sorted({(round(rng.uniform(0, 20), 2), float(rng.randint(50, 80))) for _ in range(rng.randint(2, 6))})
    occs = []
    for k in range(nocc):
        dt, dp = (0.0, 0.0) if k == 0 else (round(rng.uniform(1, 30), 2), float(rng.randint(-5, 5)))
        occ = [(round(o + dt, 2), p + dp) for (o, p) in base]
        if k and rng.random() < 0.4 and len(occ) > 2:
            occ = occ[:-1]
        occs.append(occ)
    return occs


def _patterns(rng):
    return [_pattern(rng) for _ in range(rng.randint(1, 3))]


def _partition(rng, n, start, end):
    """n contiguous segments covering exactly [start, end]"""
    cuts = sorted({round(rng.uniform(start, end), 2) for _ in range(n - 1)} - {start, end})
    b = np.array([start] + cuts + [end], dtype=float)
    return np.array([b[:-1], b[1:]]).T.copy()


def _hier(rng, end):
    nlev = rng.randint(1, 3)
    ivs, labs = [], []
    n = rng.randint(1, 3)
    for _ in range(nlev):
        iv = _partition(rng, n, 0.0, end)
        n = len(iv)
        ivs.append(iv)
        labs.append(_labels(rng, n, SEG_VOCAB))
        n += rng.randint(1, 3)
    return ivs, labs


def scen_alignment(rng, fn):
    n = rng.randint(2, 8)
    ref = _events(rng, n)
    est = np.sort(np.clip(ref + np.array([rng.uniform(-0.3, 0.3) for _ in range(n)]), 0, None))
    return {"reference_timestamps": ref, "estimated_timestamps": est,
            "window": rng.choice([0.1, 0.3, 0.5]), "duration": float(max(ref.max(), est.max()) + rng.choice([0.5, 2.0]))}


def scen_beat(rng, fn):
    ref = _events(rng, rng.randint(8, 30), lo=rng.choice([0.0, 4.0, 6.0]), step=(0.3, 0.8))
    if rng.random() < 0.5:
        est = np.sort(ref + np.array([rng.uniform(-0.05, 0.05) for _ in ref]))[rng.randint(0, 2):]
    else:
        est = _events(rng, rng.randint(8, 30), lo=rng.choice([0.0, 5.5]), step=(0.3, 0.9))
    return {"reference_beats": ref, "estimated_beats": est, "beats": ref, "min_beat_time": rng.choice([5.0, 2.0]),
            "bins": rng.choice([41, 21]), "f_measure_threshold": 0.07, "cemgil_sigma": 0.04,
            "goto_threshold": 0.35, "p_score_threshold": 0.2}


def scen_onset(rng, fn):
    ref = _events(rng, rng.randint(0, 12), step=(0.03, 0.6))
    est = _events(rng, rng.randint(0, 12), step=(0.03, 0.6))
    if len(ref) and rng.random() < 0.5:
        est = np.sort(ref + np.array([rng.uniform(-0.04, 0.04) for _ in ref]).clip(-ref.min(), None))
    return {"reference_onsets": ref, "estimated_onsets": est, "window": rng.choice([0.05, 0.1])}


def scen_tempo(rng, fn):
    a = round(rng.uniform(40, 90), 2)
    ref = np.array([a, round(a * rng.choice([2, 3, 1.5]), 2)])
    est = np.array([round(ref[0] * rng.choice([1.0, 1.03, 1.2]), 2), round(ref[1] * rng.choice([1.0, 0.95, 0.5]), 2)])
    return {"reference_tempi": ref, "reference_weight": round(rng.random(), 3), "estimated_tempi": est,
            "tol": rng.choice([0.08, 0.04]), "tempi": ref, "reference": True}


def scen_key(rng, fn):
    return {"reference_key": rng.choice(KEYS), "estimated_key": rng.choice(KEYS), "key": rng.choice(KEYS)}


def scen_chord(rng, fn):
    n = rng.randint(1, 6)
    ref_iv = _segments(rng, n, rng.choice([0.0, 1.0]))
    m = rng.randint(1, 6)
    est_iv = _segments(rng, m, rng.choice([0.0, 0.5, float(ref_iv[0, 0])]))
    if rng.random() < 0.15:       # estimate entirely before the reference (valid, if unusual)
        est_iv = _segments(rng, m, 0.0)
        ref_iv = ref_iv + float(est_iv.max()) + 1.0
    k = rng.randint(1, 6)
    same_span = _segments(rng, m, float(ref_iv[0, 0]), float(ref_iv[-1, 1]))
    same_span[-1, 1] = ref_iv[-1, 1]
    if same_span[-1, 0] >= same_span[-1, 1]:
        same_span = ref_iv.copy()
    return {
        "ref_intervals": ref_iv, "ref_labels": _labels(rng, n, CHORDS), "est_intervals": est_iv,
        "est_labels": _labels(rng, m, CHORDS),
        "reference_labels": _labels(rng, k, CHORDS), "estimated_labels": _labels(rng, k, CHORDS),
        "reference_intervals": ref_iv, "estimated_intervals": same_span,
        "intervals": ref_iv, "labels": _labels(rng, n, CHORDS),
        "chord_label": rng.choice(CHORDS), "chord_labels": _labels(rng, k, CHORDS),
        "reduce_extended_chords": rng.random() < 0.5, "strict_bass_intervals": False,
        "comparisons": np.array([rng.choice([1.0, 0.0, -1.0]) for _ in range(k)]),
        "weights": np.array([round(rng.uniform(0.1, 2), 3) for _ in range(k)]),
        "chord_root": rng.randint(0, 11) if fn == "rotate_bitmap_to_root" else rng.choice(["C", "F#", "Bb"]), "quality": rng.choice(["maj", "min7", "", "sus4"]),
        "extensions": rng.choice([None, ["9"], ["*3", "11"]]), "bass": rng.choice(["", "3", "5", "b7"]),
        "pitch_class": rng.choice(["C", "F#", "Bb", "Gbb", "E##"]),
        "scale_degree": rng.choice(["1", "b3", "#5", "b7", "9", "*3", "bb7"]) if fn == "scale_degree_to_bitmap"
        else rng.choice(["1", "b3", "#5", "b7", "9", "bb7"]),
        "modulo": rng.random() < 0.5, "length": 12,
        "bitmap": np.array([rng.randint(0, 1) for _ in range(12)]),
        "bitmaps": np.array([[rng.randint(0, 1) for _ in range(12)] for _ in range(k)]),
        "roots": np.array([rng.randint(0, 11) for _ in range(k)]),
    }


def scen_segment(rng, fn):
    n, m = rng.randint(1, 6), rng.randint(1, 6)
    ref = _segments(rng, n, 0.0)
    if fn in ("detection", "deviation", "validate_boundary", "evaluate") and rng.random() < 0.4:
        est = _segments(rng, m, 0.0)
    else:
        est = _partition(rng, m, 0.0, float(ref[-1, 1]))
        m = len(est)
    d = {"ref_intervals": ref, "ref_labels": _labels(rng, n, SEG_VOCAB), "est_intervals": est,
         "est_labels": _labels(rng, m, SEG_VOCAB), "trim": rng.random() < 0.5,
         "window": rng.choice([0.5, 3.0]), "frame_size": rng.choice([0.5, 0.25]), "beta": rng.choice([1.0, 0.5]),
         "marginal": rng.random() < 0.5}
    d.update({"reference_intervals": d["ref_intervals"], "reference_labels": d["ref_labels"],
              "estimated_intervals": d["est_intervals"], "estimated_labels": d["est_labels"]})
    return d


def scen_hierarchy(rng, fn):
    end = round(rng.uniform(4, 12), 2)
    ri, rl = _hier(rng, end)
    ei, el = _hier(rng, end)
    return {"ref_intervals_hier": ri, "ref_labels_hier": rl, "est_intervals_hier": ei, "est_labels_hier": el,
            "reference_intervals_hier": ri, "reference_labels_hier": rl, "estimated_intervals_hier": ei,
            "estimated_labels_hier": el, "intervals_hier": ri, "transitive": rng.random() < 0.5,
            "window": rng.choice([15.0, 5.0]), "frame_size": rng.choice([0.5, 1.0]), "beta": 1.0}


def scen_melody(rng, fn):
    n, m = rng.randint(3, 25), rng.randint(3, 25)
    hop = rng.choice([0.01, 0.0058, 0.02])
    rt, rf = _melody_series(rng, n, hop)
    et, ef = _melody_series(rng, m, rng.choice([hop, 0.01]))
    if rng.random() < 0.3:
        rt = rt + hop            # series that do not start at 0 exercise the insertion path
    if rng.random() < 0.3:
        ef = ef * np.array([rng.choice([1.0, -1.0]) for _ in range(m)])
    k = rng.randint(1, 20)
    voi = lambda q: np.array([round(rng.random(), 2) if rng.random() < 0.5 else float(rng.randint(0, 1)) for _ in range(q)])  # noqa: E731
    d = {"ref_time": rt, "ref_freq": rf, "est_time": et, "est_freq": ef,
         "base_frequency": 10.0, "hop": rng.choice([None, 0.01]), "kind": "linear",
         "frequencies": np.abs(ef) if fn != "freq_to_voicing" else ef, "freq_hz": np.abs(rf),
         "end_time": round(rng.uniform(0.05, 1.0), 3), "times": rt, "times_new": et, "cent_tolerance": 50}
    if fn in ("evaluate", "to_cent_voicing"):
        d["est_voicing"] = voi(m)
        d["ref_reward"] = voi(n)
        d["hop"] = d["hop"] or 0.01 if fn == "to_cent_voicing" and rng.random() < 0.5 else d["hop"]
    elif fn == "freq_to_voicing":
        d["voicing"] = voi(m)
    elif fn == "resample_melody_series":
        d["frequencies"] = np.abs(rf)
        d["voicing"] = (rf > 0).astype(float)
        d["times_new"] = np.round(np.sort(np.array([rng.uniform(float(rt[0]), float(rt[-1]))
                                                    for _ in range(rng.randint(2, 20))])), 4)
    elif fn == "constant_hop_timebase":
        d["hop"] = rng.choice([0.01, 0.0058])
    else:
        d.update({"ref_voicing": voi(k), "ref_cent": np.array([round(rng.uniform(3000, 6000), 2) for _ in range(k)]),
                  "est_voicing": voi(k), "est_cent": np.array([round(rng.uniform(3000, 6000), 2) for _ in range(k)])})
    return d


def scen_multipitch(rng, fn):
    def freqs(n):
        return [np.sort(_hz(rng, rng.randint(0, 3))) for _ in range(n)]
    n, m = rng.randint(1, 10), rng.randint(1, 10)
    rt, et = np.arange(n) * 0.01, np.arange(m) * rng.choice([0.01, 0.02])
    k = rng.randint(1, 8)
    nr = np.array([rng.randint(0, 4) for _ in range(k)])
    ne = np.array([rng.randint(0, 4) for _ in range(k)])
    fr = freqs(k)
    return {"ref_time": rt, "ref_freqs": freqs(n), "est_time": et, "est_freqs": freqs(m),
            "true_positives": np.minimum(nr, ne) - (np.minimum(nr, ne) > 0) * rng.randint(0, 1), "n_ref": nr,
            "n_est": ne, "frequencies": fr, "ref_frequency": 440.0,
            "frequencies_midi": [12 * (np.log2(f) - np.log2(440.0)) + 69 for f in fr],
            "times": np.arange(k) * 0.01, "target_times": np.arange(rng.randint(1, 10)) * 0.013,
            "window": 0.5, "chroma": rng.random() < 0.5}


def scen_pattern(rng, fn):
    r, e = _patterns(rng), _patterns(rng)
    if rng.random() < 0.3:
        e = copy.deepcopy(r)
    return {"reference_patterns": r, "estimated_patterns": e, "ref_patterns": r, "est_patterns": e,
            "n": rng.choice([5, 1, 2]), "thres": rng.choice([0.75, 0.5]), "tol": 1e-5,
            "similarity_metric": "cardinality_score"}


def scen_separation(rng, fn):
    nsrc = rng.choice([1, 2])
    n = rng.choice([560, 640])
    g = np.random.RandomState(rng.randint(0, 2 ** 31 - 1))
    images = fn in ("bss_eval_images", "bss_eval_images_framewise") and rng.random() < 0.7
    shape = (nsrc, n, rng.choice([1, 2])) if images else (nsrc, n)
    ref = np.round(g.randn(*shape), 3)
    est = np.round(ref + 0.3 * g.randn(*shape), 3)
    win = n // rng.choice([2, 3])
    if fn in ("bss_eval_images_framewise", "bss_eval_sources_framewise", "evaluate") and rng.random() < 0.5:
        a = rng.randint(0, 1) * win
        (ref if rng.random() < 0.5 else est)[0, a:a + win] = 0.0          # a silent window
    d = {"reference_sources": ref, "estimated_sources": est, "compute_permutation": rng.random() < 0.5}
    if "framewise" in fn:
        d.update({"window": win, "hop": win})
    if fn == "evaluate" and rng.random() < 0.7:
        d["__kwargs__"] = {"window": win, "hop": win}
    return d


def scen_sonify(rng, fn):
    fs = rng.choice([200, 400])
    n = rng.randint(1, 5) if fn in ("clicks", "pitch_contour") else rng.randint(3, 6)
    times = _events(rng, n, step=(0.05, 0.3))
    d = {"fs": fs, "times": times, "click": rng.choice([None, np.hanning(rng.randint(4, 12))]),
         "length": rng.choice([None, int(fs * 1.5)]), "kind": "linear", "n_dec": 1, "threshold": 0.01}
    if fn == "time_frequency":
        nf = rng.randint(1, 3)
        d.update({"gram": np.abs(np.round(np.random.RandomState(rng.randint(0, 999)).rand(nf, n), 3)),
                  "frequencies": np.array([round(rng.uniform(20, fs / 4), 2) for _ in range(nf)]),
                  "times": times if rng.random() < 0.5 else np.array([times, times + 0.05]).T.copy()})
    elif fn == "pitch_contour":
        d.update({"frequencies": np.array([rng.choice([0.0, -50.0, float("nan"), round(rng.uniform(20, fs / 4), 2)])
                                            for _ in range(n)]),
                  "amplitudes": rng.choice([None, np.array([round(rng.random(), 2) for _ in range(n)])])})
    elif fn == "chroma":
        d.update({"chromagram": np.round(np.random.RandomState(rng.randint(0, 999)).rand(12, n), 3),
                  "times": times})
        d["fs"] = 2000
    elif fn == "chords":
        d.update({"chord_labels": _labels(rng, n, CHORDS), "intervals": np.array([times, times + 0.04]).T.copy()})
        d["fs"] = 2000
    return d


def scen_transcription(rng, fn):
    n, m = rng.randint(1, 7), rng.randint(1, 7)
    ri = _notes(rng, n)
    ei = _notes(rng, m)
    rp, ep = _hz(rng, n), _hz(rng, m)
    if rng.random() < 0.5:
        k = min(n, m)
        ei[:k] = ri[:k] + np.array([[rng.uniform(-0.03, 0.03), rng.uniform(-0.03, 0.03)] for _ in range(k)])
        ei = np.round(np.abs(ei), 4)
        ei[:, 1] = np.maximum(ei[:, 1], ei[:, 0] + 0.05)
        ep[:k] = rp[:k]
    matching = sorted({(rng.randint(0, n - 1), rng.randint(0, m - 1)) for _ in range(rng.randint(0, 3))})
    seen_r, seen_e, mm = set(), set(), []
    for a, b in matching:
        if a not in seen_r and b not in seen_e:
            mm.append((a, b))
            seen_r.add(a)
            seen_e.add(b)
    return {"ref_intervals": ri, "ref_pitches": rp, "est_intervals": ei, "est_pitches": ep,
            "ref_velocities": np.array([float(rng.randint(1, 127)) for _ in range(n)]),
            "est_velocities": np.array([float(rng.randint(1, 127)) for _ in range(m)]),
            "matching": mm, "onset_tolerance": 0.05, "pitch_tolerance": 50.0, "offset_ratio": rng.choice([0.2, None]) if fn in ("match_notes", "precision_recall_f1_overlap") else 0.2,
            "offset_min_tolerance": 0.05, "strict": rng.random() < 0.5, "beta": 1.0, "velocity_tolerance": 0.1}


def _f_args(a, b=1, *rest, c=2, **kw):
    return a


def scen_util(rng, fn):
    n = rng.randint(1, 6)
    iv = _segments(rng, n, rng.choice([0.0, 0.5]))
    labels = _labels(rng, n, SEG_VOCAB)
    ev = _events(rng, n)
    d = {"intervals": iv, "labels": labels, "events": ev, "boundaries": np.concatenate([iv[:, 0], iv[-1:, 1]]),
         "precision": round(rng.random(), 3), "recall": round(rng.random(), 3), "beta": rng.choice([1.0, 0.5]),
         "items": list(range(n)), "prefix": "__", "freqs": _hz(rng, n), "midi": np.array([float(rng.randint(30, 90))
                                                                                        for _ in range(n)]),
         "case_sensitive": rng.random() < 0.5, "q": 5, "max_time": 30000.0,
         "frequencies": _hz(rng, n), "max_freq": 5000.0, "min_freq": 20.0, "allow_negatives": False,
         "ref": ev, "est": np.sort(ev + np.array([rng.uniform(-0.1, 0.1) for _ in range(n)])), "window": 0.05,
         "distance": None, "function": rng.choice([_f_args, scen_key]), "_function": _f_args,
         "flist1": ["/a/x%d.lab" % i for i in range(n)], "flist2": ["/b/x%d.txt" % rng.randint(0, n) for _ in range(n)],
         "version": "0.8", "version_removed": "0.9", "offset": 0, "sample_size": rng.choice([0.1, 0.25]),
         "fill_value": None, "time_points": np.array([round(rng.uniform(0, float(iv.max()) + 1), 3) for _ in range(5)])}
    if fn in ("adjust_intervals", "adjust_events"):
        d["labels"] = rng.choice([None, labels, labels])
        d["t_min"] = rng.choice([0.0, None, round(float(iv[0, 0]) + 0.1, 2), float(iv.max()) + 1.0])
        d["t_max"] = rng.choice([None, float(iv.max()) + 1.0, round(float(iv.max()) - 0.2, 2)])
        if fn == "adjust_events":
            d["t_max"] = rng.choice([None, float(ev.max()) + 1.0, round(float(ev.max()) - 0.01, 3)])
            d["t_min"] = rng.choice([0.0, None, float(ev.max()) + 0.5])
    if fn == "sort_labeled_intervals":
        d["intervals"] = iv[::-1].copy()
        d["labels"] = rng.choice([None, labels])
    if fn == "interpolate_intervals":
        d["time_points"] = np.sort(d["time_points"])
    if fn == "merge_labeled_intervals":
        m = rng.randint(1, 5)
        y = _segments(rng, m, float(iv[0, 0]), float(iv[-1, 1]))
        y[-1, 1] = iv[-1, 1]
        if y[-1, 0] >= y[-1, 1]:
            y, m = iv.copy(), n
        d.update({"x_intervals": iv, "x_labels": labels, "y_intervals": y, "y_labels": _labels(rng, m, SEG_VOCAB)})
    if fn == "filter_kwargs":
        d["__args__"] = (iv,)
        d["__kwargs__"] = {"b": labels, "zzz": ev}
    return d


SCEN = {"alignment": scen_alignment, "beat": scen_beat, "onset": scen_onset, "tempo": scen_tempo, "key": scen_key,
        "chord": scen_chord, "segment": scen_segment, "hierarchy": scen_hierarchy, "melody": scen_melody,
        "multipitch": scen_multipitch, "pattern": scen_pattern, "separation": scen_separation,
        "sonify": scen_sonify, "transcription": scen_transcription, "transcription_velocity": scen_transcription,
        "util": scen_util}

# optional parameters that are always passed when the scenario provides them
ALWAYS = {"est_voicing", "ref_reward", "voicing", "labels", "t_min", "t_max", "click", "amplitudes", "length",
          "window", "hop", "frame_size", "compute_permutation", "trim", "fill_value", "hop"}


class Uncovered(Exception):
    pass


def make_args(inp):
    """-> (args tuple, kwargs dict) for an oracle input"""
    qual = inp["fn"]
    f = get_function(qual)
    mod, name = qual.split(".", 1)
    if "lit" in inp:
        def conv(v):
            if isinstance(v, dict) and "nd" in v:
                return np.array(v["nd"], dtype=float)
            if isinstance(v, list):
                return [conv(x) for x in v]
            return v
        return (), {k: conv(v) for k, v in inp["lit"].items()}
    rng = random.Random(inp["seed"])
    scen = SCEN[mod](rng, name)
    args, kwargs = [], {}
    for p in inspect.signature(f).parameters.values():
        if p.kind == p.VAR_POSITIONAL:
            args += list(scen.get("__args__", ()))
        elif p.kind == p.VAR_KEYWORD:
            kwargs.update(scen.get("__kwargs__", {}))
        elif p.default is p.empty:
            if p.name not in scen:
                raise Uncovered("%s: no generator for parameter %r" % (qual, p.name))
            if p.kind == p.KEYWORD_ONLY:
                kwargs[p.name] = scen[p.name]
            else:
                args.append(scen[p.name])
        elif p.name in scen and (p.name in ALWAYS or rng.random() < 0.5):
            kwargs[p.name] = scen[p.name]
    return tuple(args), kwargs


# ---------------------------------------------------------------------------------------------------
# observation

def snap(v, depth=0):
    """deep, bit-exact snapshot of an argument (ndarray: dtype, shape, bytes, and the bytes of its bases)"""
    if isinstance(v, np.ndarray):
        base = v.base
        b = snap(base, depth + 1) if isinstance(base, np.ndarray) and depth < 4 else None
        return ("nd", v.dtype.str, v.shape, v.tobytes(), b)
    if isinstance(v, (list, tuple)):
        return (type(v).__name__, tuple(snap(x, depth + 1) for x in v))
    if isinstance(v, dict):
        return ("dict", tuple((repr(k), snap(x, depth + 1)) for k, x in v.items()))
    if isinstance(v, float):
        return ("f", struct.pack("<d", v))
    if isinstance(v, (np.generic,)):
        return ("g", v.dtype.str, v.tobytes())
    if isinstance(v, (str, int, bool, type(None))):
        return v
    return ("obj", id(v))


def bits(v):
    """bit-exact canonical form of a result"""
    if isinstance(v, np.ndarray):
        if v.dtype == object:
            return ("ndo", v.shape, tuple(bits(x) for x in v.ravel().tolist()))
        return ("nd", v.dtype.str, v.shape, v.tobytes())
    if isinstance(v, (list, tuple)):
        return (type(v).__name__, tuple(bits(x) for x in v))
    if isinstance(v, dict):
        return ("dict", tuple((repr(k), bits(x)) for k, x in v.items()))
    if isinstance(v, float):
        return ("f", struct.pack("<d", v))
    if isinstance(v, np.generic):
        return ("g", v.dtype.str, v.tobytes())
    if isinstance(v, (str, int, bool, type(None))):
        return v
    if isinstance(v, (set, frozenset)):
        return ("set", tuple(sorted(repr(x) for x in v)))
    if callable(v):
        return ("callable",)
    return ("repr", repr(v))


def diff_path(a, b, path="arg"):
    """where two snapshots differ (short text)"""
    if a == b:
        return None
    if isinstance(a, tuple) and isinstance(b, tuple) and a and b and a[0] == b[0] and a[0] in ("list", "tuple", "dict"):
        if len(a[1]) != len(b[1]):
            return "%s: length %d -> %d" % (path, len(a[1]), len(b[1]))
        for i, (x, y) in enumerate(zip(a[1], b[1])):
            if a[0] == "dict":
                d = diff_path(x[1], y[1], "%s[%s]" % (path, x[0])) if x[0] == y[0] else "%s: keys changed" % path
            else:
                d = diff_path(x, y, "%s[%d]" % (path, i))
            if d:
                return d
    if isinstance(a, tuple) and a and a[0] == "nd" and isinstance(b, tuple) and b and b[0] == "nd":
        if a[1:3] != b[1:3]:
            return "%s: dtype/shape changed" % path
        if a[3] != b[3]:
            return "%s: array contents changed" % path
        return "%s: base buffer changed" % path
    return "%s: changed" % path


def run(f, args, kwargs):
    """-> ("ok", bits) | ("exc", class name, message)"""
    try:
        with warnings.catch_warnings():
            warnings.simplefilter("ignore")
            return ("ok", bits(f(*args, **kwargs)))
    except Exception as e:  # noqa: BLE001 - the outcome is the observation
        return ("exc", type(e).__name__, str(e)[:120])


def readonly(v):
    if isinstance(v, np.ndarray):
        w = v.copy()
        w.setflags(write=False)
        return w
    if isinstance(v, list):
        return [readonly(x) for x in v]
    if isinstance(v, tuple):
        return tuple(readonly(x) for x in v)
    if isinstance(v, dict):
        return {k: readonly(x) for k, x in v.items()}
    return v


class poisoned_empty:
    """np.empty / np.empty_like filled with a sentinel while active"""

    def __init__(self, value):
        self.value = value

    def __enter__(self):
        self.orig, self.orig_like = np.empty, np.empty_like
        val = self.value

        def empty(*a, **k):
            r = self.orig(*a, **k)
            if r.dtype.kind in "fc":
                r.fill(val)
            elif r.dtype.kind in "iu":
                r.fill(int(val) % 97)
            return r

        def empty_like(*a, **k):
            r = self.orig_like(*a, **k)
            if r.dtype.kind in "fc":
                r.fill(val)
            return r
        np.empty, np.empty_like = empty, empty_like
        return self

    def __exit__(self, *exc):
        np.empty, np.empty_like = self.orig, self.orig_like
        return False


_USES_EMPTY = {}


def uses_empty(qual):
    mod = qual.split(".")[0]
    if mod not in _USES_EMPTY:
        try:
            src = inspect.getsource(importlib.import_module("mir_eval." + mod))
        except (OSError, TypeError):
            src = "np.empty"
        _USES_EMPTY[mod] = "np.empty" in src or "empty_like" in src
    return _USES_EMPTY[mod]


def check_call(inp, parts=("repeat", "readonly", "recycle", "poison")):
    """The property on ONE input of ONE public function.  None | what failed.
    (The before/after snapshot is always taken; `parts` selects the additional observations.)"""
    qual = inp["fn"]
    f = get_function(qual)
    try:
        args, kwargs = make_args(inp)
    except Uncovered as e:
        return "no input generator: %s" % e
    pristine = copy.deepcopy((args, kwargs))
    before = snap((args, kwargs))
    r1 = run(f, args, kwargs)
    after = snap((args, kwargs))
    if after != before:
        names = list(inspect.signature(f).parameters)
        d = diff_path(before, after)
        return "%s modified its input (%s; positional order %s; outcome %s)" % (qual, d, names[:len(args)], r1[0])
    a2, k2 = copy.deepcopy(pristine)
    r2 = run(f, a2, k2) if "repeat" in parts else r1
    if r2 != r1:
        return "%s is not repeatable: second call on identical arguments differs (%s vs %s)" % (
            qual, _short(r1), _short(r2))
    a3, k3 = readonly(copy.deepcopy(pristine))
    r3 = run(f, a3, k3) if "readonly" in parts else r1
    if r3 != r1:
        if r3[0] == "exc" and "read-only" in r3[2]:
            return "%s writes through a read-only input: %s" % (qual, r3[2])
        return "%s gives a different result on read-only copies of the same arguments (%s vs %s)" % (
            qual, _short(r1), _short(r3))
    if "recycle" in parts:
        # the SAME argument objects as an earlier call, updated in place in between (a caller who edits an annotation and
        # scores it again): the result may depend on the values only, never on object identity (a memo keyed by id())
        import relcheck as _R
        rec = _R._Recycler()
        mode = ("labels", "scale", "both")[int(inp.get("seed", 0)) % 3]
        va, vk = copy.deepcopy(pristine)
        wa = tuple(rec.put(("a", i), _R._variant(x, mode)) for i, x in enumerate(va))
        wk = {k: rec.put(("k", k), _R._variant(x, mode)) for k, x in vk.items()}
        run(f, wa, wk)
        a5, k5 = copy.deepcopy(pristine)
        ra = tuple(rec.put(("a", i), x) for i, x in enumerate(a5))
        rk = {k: rec.put(("k", k), x) for k, x in k5.items()}
        r5 = run(f, ra, rk)
        if r5 != r1:
            return ("%s depends on the history of its argument OBJECTS: called on the same arrays / lists as an earlier call "
                    "(values updated in place in between, variant %r) it gives %s, on fresh objects with the same values %s"
                    % (qual, mode, _short(r5), _short(r1)))
    if "poison" in parts and uses_empty(qual):
        outs = []
        for sentinel in (1.5e300, -7.25e-300):
            a4, k4 = copy.deepcopy(pristine)
            with poisoned_empty(sentinel):
                outs.append(run(f, a4, k4))
        if outs[0] != outs[1]:
            return "%s returns uninitialised memory: results differ with np.empty poisoned by two sentinels" % qual
    return None


def _short(r):
    s = repr(r)
    return s if len(s) < 100 else s[:100] + "…"


def nontrivial(inp):
    f = get_function(inp["fn"])
    a, k = make_args(inp)
    return run(f, a, k)[0] == "ok"


# ---------------------------------------------------------------------------------------------------
# histories

def fresh_library():
    """re-execute every mir_eval module: any module-level state (caches, counters, patched tables) is reset, so the
    next call really is 'in isolation'"""
    import sys
    names = sorted(n for n in sys.modules if n == "mir_eval" or n.startswith("mir_eval."))
    for n in sorted(names, key=lambda x: (x != "mir_eval.util", x)):
        if n in ("mir_eval", "mir_eval.display"):
            continue
        try:
            importlib.reload(sys.modules[n])
        except Exception:  # noqa: BLE001
            pass


def check_history(inp):
    """calls from several modules on shared argument objects, in several orders, vs isolated calls (isolated = first
    call after the library's module-level state has been reset)"""
    rng = random.Random(inp["seed"])
    quals = inp["fns"]
    calls = []
    for i, q in enumerate(quals):
        one = {"fn": q, "seed": inp["seed"] * 1000 + i}
        try:
            calls.append((q, make_args(one)))
        except Uncovered:
            continue
    skip = set(inp.get("skip", []))
    calls = [c for c in calls if c[0] not in skip]
    for q, (a, k) in calls:
        k.update((inp.get("kw") or {}).get(q, {}))       # non-default metric keywords handed to evaluate()
    iso = []
    for q, (a, k) in calls:
        a2, k2 = copy.deepcopy((a, k))
        fresh_library()
        iso.append(run(get_function(q), a2, k2))
    shared_before = [snap(c[1]) for c in calls]
    orders = [list(range(len(calls))), list(reversed(range(len(calls))))]
    sh = list(range(len(calls)))
    rng.shuffle(sh)
    orders.append(sh)
    orders.append([i for pair in zip(sh, reversed(sh)) for i in pair])        # interleaved, with repeats
    for order in orders:
        fresh_library()
        for i in order:
            q, (a, k) = calls[i]
            r = run(get_function(q), a, k)
            if r != iso[i]:
                return "%s gives a different result after %s than in isolation (%s vs %s)" % (
                    q, [calls[j][0] for j in order[:order.index(i)]][-3:], _short(iso[i]), _short(r))
            if snap((a, k)) != shared_before[i]:
                return "%s modified its (shared) input during a call sequence: %s" % (
                    q, diff_path(shared_before[i], snap((a, k))))
    return None


# ---------------------------------------------------------------------------------------------------
# harness interfaces

def _budget(tier, qual):
    slow = qual.startswith("separation.")
    if tier == "quick":
        return 6 if slow else 24
    return 96 if slow else 1280


def _gen_for(qual):
    def gen(rng, tier, shard, nshards, boost):
        n = _budget(tier, qual) * (min(boost, 2) if qual.startswith("separation.") else boost)
        for i in range(n):
            if i % nshards != shard:
                continue
            yield {"fn": qual, "seed": rng.randint(0, 2 ** 31 - 1)}
    return gen


def _gen_history(rng, tier, shard, nshards, boost):
    pubs = [q for q in public_functions() if not q.startswith("separation.") and q not in KNOWN_IMPURE]
    n = (8 if tier == "quick" else 320) * boost
    for i in range(n):
        if i % nshards != shard:
            continue
        k = rng.randint(4, 10)
        yield {"fns": [rng.choice(pubs) for _ in range(k)], "seed": rng.randint(0, 2 ** 20)}


# functions with a listed finding are kept out of the *history* sequences (they are exercised — and their
# findings reproduced — at their own sites); everything else is fair game
# (both sets are empty since the `fix:` commits c44e6a6, aa0fc9a, b910d54: every public function takes part in the
# history sequences and in the observed-initok correspondence)
INIT_FLAGGED = set()
KNOWN_IMPURE = set()

def _gen_history_module(module):
    """call sequences inside ONE module (a module-level cache or counter is the most plausible hidden state): many
    calls drawing their arguments from the same small vocabularies (e.g. the same extended chord label reaching
    encode() once with and once without reduce_extended_chords)"""
    def gen(rng, tier, shard, nshards, boost):
        pubs = [q for q in public_functions() if q.startswith(module + ".") and q not in KNOWN_IMPURE]
        if len(pubs) < 2:
            return
        n = (3 if tier == "quick" else 100) * boost
        for i in range(n):
            if i % nshards != shard:
                continue
            k = rng.randint(6, 14)
            yield {"fns": [rng.choice(pubs) for _ in range(k)], "seed": rng.randint(0, 2 ** 20)}
    return gen


CHECKERS = {q: check_call for q in public_functions()}
# evaluate() of several tasks in one process, each with a non-default keyword of one of ITS metric functions: the
# keyword routing of one task must not depend on which other tasks (with same-named metrics) ran before
EVAL_KW = {
    "onset.evaluate": [{"window": 0.01}, {"window": 0.2}],
    "beat.evaluate": [{"f_measure_threshold": 0.01}, {"cemgil_sigma": 0.01}, {"p_score_threshold": 0.05}],
    "segment.evaluate": [{"beta": 2.0}, {"trim": True}, {"frame_size": 0.5}],
    "tempo.evaluate": [{"tol": 0.3}],
    "transcription.evaluate": [{"onset_tolerance": 0.01}, {"offset_ratio": 0.5}, {"pitch_tolerance": 5.0}],
    "transcription_velocity.evaluate": [{"velocity_tolerance": 0.5}, {"onset_tolerance": 0.01}],
    "melody.evaluate": [{"cent_tolerance": 10}],
    "multipitch.evaluate": [{"window": 0.1}],
    "alignment.evaluate": [{"window": 0.05}],
    "hierarchy.evaluate": [{"window": 5.0}, {"frame_size": 0.5}],
    "pattern.evaluate": [{"tol": 0.5}],
}


def _gen_history_evalkw(rng, tier, shard, nshards, boost):
    quals = sorted(q for q in EVAL_KW if q in public_functions() and q not in KNOWN_IMPURE)
    n = (16 if tier == "quick" else 400) * boost
    for i in range(n):
        if i % nshards != shard:
            continue
        fns = rng.sample(quals, rng.randint(2, min(5, len(quals))))
        yield {"fns": fns, "seed": rng.randint(0, 2 ** 20), "kw": {q: rng.choice(EVAL_KW[q]) for q in fns}}


CHECKERS["history"] = check_history
CHECKERS["history:evaluate-keywords"] = check_history
ORACLES = {q: _gen_for(q) for q in public_functions()}
ORACLES["history"] = _gen_history
ORACLES["history:evaluate-keywords"] = _gen_history_evalkw
for _m in sorted({q.split(".")[0] for q in public_functions()} - {"separation"}):
    CHECKERS["history:" + _m] = check_history
    ORACLES["history:" + _m] = _gen_history_module(_m)


# correspondence: the Lean analysis (driver) vs the Python port that proposed the table vs what is observed
def _flagged():
    from translate import effects
    fl, pub, problems = effects.flagged(REPO)
    return fl, pub


def _observed_pure(qual, seeds, parts=("readonly",)):
    for s in seeds:
        try:
            if check_call({"fn": qual, "seed": s}, parts) is not None:
                return False
        except Exception:  # noqa: BLE001
            return False
    return True


def suite_analysis(rng, tier, shard, nshards):
    fl, pub = _flagged()
    live = set(public_functions())
    if shard == 0:
        yield Case("effects.table_agrees", [], lambda: True, tag="table", info={"what": "build prog = table"})
    for i, q in enumerate(pub):
        if i % nshards != shard:
            continue
        # (a) Lean's verdict equals the verdict of the Python port that proposed the summary table
        yield Case("effects.safe", [q], lambda q=q: q not in fl, tag="port", info={"fn": q})
        # (b) a function the analysis calls safe is never observed writing its input; one it calls
        #     init-safe never returns poisoned memory
        if q in live and q not in fl:
            seeds = [rng.randint(0, 2 ** 31 - 1) for _ in range(3 if q.startswith("separation.") else 6)]
            yield Case("effects.safe", [q], lambda q=q, seeds=seeds: _observed_pure(q, seeds), tag="observed",
                       info={"fn": q, "seeds": seeds})
        # (c) a function whose np.empty buffers the analysis calls filled never returns poisoned memory
        if q in live and uses_empty(q) and q not in INIT_FLAGGED:
            seeds = [rng.randint(0, 2 ** 31 - 1) for _ in range(3)]
            yield Case("effects.initok", [q], lambda q=q, seeds=seeds: _observed_pure(q, seeds, ("poison",)),
                       tag="initok", info={"fn": q, "seeds": seeds})
    if shard == 0:
        for q in sorted(live - set(pub)) + sorted(set(pub) - live):
            # the translator and the running code disagree about what the public API is
            yield Case("effects.safe", [q], lambda: "public API mismatch", tag="api", info={"fn": q})


SUITES = {"analysis": suite_analysis}


def classify(suite, d):
    return None
