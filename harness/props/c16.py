"""C16 — segment labelling scores equal their clustering-index definitions.

Correspondence (model vs code): the six public frame-clustering metrics of mir_eval.segment plus the two
helpers they share (frame sampling + label indexing), on the exact lattice (times k/32, dyadic frame sizes),
on a decimal stream with the default 0.1 s frame, and on ALL pairs of restricted-growth label sequences of
small length realised as unit-frame segments (exhaustive in the thorough tier).

Regeneration: `_contingency_matrix`, `_adjusted_rand_index`, the bodies of `pairwise` / `rand_index` / `ari`, `_entropy`,
`_mutual_info_score`, `_normalized_mutual_info_score`, `nce`, `vmeasure` are re-translated from segment.py on every run
(translator part `segindex`) and proved equal to the hand model (Props/C16_GenIndex.lean); suite `gen_segindex` runs the
GENERATED definitions (driver op `gen.segindex`) against the real private / public functions on label sequences.

Oracle (the property itself on the real code): an independent computation of every score from the two
frame-label sequences (own sampler, collections.Counter, fractions, math.log / math.comb), and the stated
identities (vmeasure == nce(marginal=True), case-insensitivity, MI symmetry, V = harmonic mean, ARI = 1 on
coinciding partitions, _entropy = -sum p log p, V-measure scores = MI/H(est) and MI/H(ref)).
"""
import math
from collections import Counter
from fractions import Fraction as Fr

import numpy as np

import mir_eval
from mir_eval import segment as S

from core import Case

PID = "C16"
LEAN_MODULES = ["MirProofs.Props.C16", "MirProofs.Props.C16_GenIndex"]
# segindex: _contingency_matrix, _adjusted_rand_index and the bodies of pairwise / rand_index / ari regenerated from the
# source (lean/MirGen/SegIndex.lean) and proved equal to the hand model (Props/C16_GenIndex.lean); scalars: util.f_measure
TRANSLATOR_PARTS = ["segindex", "scalars"]
RULE = ("valid labelled segmentations with equal span starting at 0 on the 1/32 lattice (dyadic frame sizes) "
        "and on a decimal stream (0.1 s frames, boundaries >= 1e-2 from the frame grid); thorough: all pairs of "
        "restricted-growth label sequences of <= 8 frames over <= 3 labels (exact metrics: every pair; entropy "
        "metrics: every pair up to 7 frames and every 8th pair at 8 frames); non-trivial = at least two frames "
        "and at least one side with two or more labels")
ASSUMPTIONS = [
    "labels are ASCII (Python's str.lower is Unicode-aware, the model's is not)",
    "Float (binary64) log/exp/sqrt of the Lean runtime and of numpy agree to 1e-9 on the entropy-based scores",
    "ill-conditioned quotients (NMI with a zero-entropy side: denominator floored at 1e-10 - since fix e9d8aa2 "
    "negative rounding noise of MI is clipped to 0 there, positive noise (NMI up to ~6e-6) remains; AMI with "
    "max(H)-EMI at rounding level, i.e. both partitions all-singletons) are compared through numerator and "
    "tolerance 1e-9 + 4e-16/|denominator| (DESIGN 2.3); they are not 'valid' inputs of the property",
    "both annotations have exactly equal end times (np.allclose-equal but different ends are outside the model)",
    "translator segindex + run-time library MirModel/PyMat.lean: the reading of NumPy/SciPy primitives (np.unique = sorted "
    "distinct values, coo_matrix(...).toarray() sums duplicates and raises ValueError on unequal index lengths, a NumPy "
    "scalar never raises on '/', Python floats raise ZeroDivisionError, comb(n, 2, exact=1) = n(n-1)/2, integer-valued "
    "float arrays are exact below 2^53, np.log2 = log/log 2, no broadcasting between agreement matrices of different "
    "size) is assumed, and exercised by suite gen_segindex on every run; validate_structure, util.intervals_to_samples, "
    "util.index_labels and util.f_measure on NumPy scalars are externs bound to the hand model (the last one tied to the "
    "translated util.f_measure on finite arguments by f_measure_np_finite)",
    "AMI's expected-MI term: the model's transliterated loop is proved equal (over the reals) to the hypergeometric "
    "expectation with binomial coefficients (emi_textbook); the weights over the loop's range plus the k = 0 weight "
    "sum to 1 (hypergeometric_weights_sum_one, Vandermonde), so the loop is the expectation over the whole support "
    "(emi_is_hypergeometric_expectation); the oracle re-computes that expectation independently from exact "
    "hypergeometric probabilities",
]
UNPROVED = [
    "the textbook forms of the entropy-based scores (entropy_textbook, nmi_textbook, nce_textbook, v_textbook, "
    "emi_textbook, ami_textbook) are theorems about the model at the real-number instance; that binary64 "
    "evaluation of the same expressions stays within 1e-9 of the real value is compared, not proved",
    "frames_are_labelAt (contiguous segmentations starting at or before 0) and frames_with_gaps (any sorted "
    "non-overlapping annotation: labelAt completed by the label of a row ending exactly at the frame time, else None) "
    "read the frame times as the exact rationals i*frame_size; that numpy's "
    "binary64 arange(n)*frame_size and searchsorted land on the same side of every boundary is compared on the "
    "exact lattice and the decimal stream, not proved",
]
EXHAUSTIVE = {"quick": False, "thorough": True}

OPS = ["segment.pairwise", "segment.rand_index", "segment.ari", "segment.mutual_information",
       "segment.nce", "segment.vmeasure"]
NMI_FLOOR_K = 1e-9 / (1e-9 + 4e-16 / 1e-10)


# ----------------------------------------------------------------------------------------
# independent reference computations (never import the functions under test)

def sample_frames(segs, fs):
    """Frame labels of a contiguous segmentation [(start, end, label)] sampled at i*fs, i < floor(T/fs)."""
    T = max(e for _, e, _ in segs)
    n = int(T / fs)  # Fractions: floor for positive values
    out = []
    for i in range(n):
        t = i * fs
        lab = None
        for s, e, l in segs:
            if s <= t < e:
                lab = l
        out.append("none" if lab is None else lab.lower())
    return out


def table(yr, ye):
    nij = Counter(zip(yr, ye))
    a = Counter(yr)
    b = Counter(ye)
    return nij, a, b


def c2(n):
    return n * (n - 1) // 2


def textbook_pairs(yr, ye):
    nij, a, b = table(yr, ye)
    return (sum(c2(v) for v in nij.values()), sum(c2(v) for v in a.values()),
            sum(c2(v) for v in b.values()), c2(len(yr)))


def tb_entropy(counts, n):
    return -sum((v / n) * math.log(v / n) for v in counts if v)


def tb_mi(nij, a, b, n):
    return sum((v / n) * math.log((v * n) / (a[i] * b[j])) for (i, j), v in nij.items() if v)


def tb_emi(a, b, n):
    """Expected MI under the permutation model, from exact hypergeometric probabilities."""
    tot = 0.0
    cn = {}
    for ai in a.values():
        for bj in b.values():
            den = cn.get(bj)
            if den is None:
                den = cn[bj] = math.comb(n, bj)
            for k in range(max(1, ai + bj - n), min(ai, bj) + 1):
                p = Fr(math.comb(ai, k) * math.comb(n - ai, bj - k), den)
                tot += (k / n) * math.log((n * k) / (ai * bj)) * float(p)
    return tot


def tb_cond_entropy_bits(nij, given, n):
    """H(X | Y) in bits where `given` are the counts of Y and nij is keyed (x, y) — caller orders keys."""
    h = 0.0
    for (x, y), v in nij.items():
        if v:
            h -= (v / n) * math.log2(v / given[y])
    return h


def close(x, y, tol=1e-9):
    x, y = float(x), float(y)
    if math.isnan(x) or math.isnan(y):
        return math.isnan(x) and math.isnan(y)
    return abs(x - y) <= tol * max(1.0, abs(y))


# ----------------------------------------------------------------------------------------
# inputs

def to_arrays(segs):
    iv = np.array([[float(s), float(e)] for s, e, _ in segs], dtype=float).reshape(-1, 2)
    return iv, [l for _, _, l in segs]


def model_args(ref, est):
    return [[[s, e] for s, e, _ in ref], [l for _, _, l in ref],
            [[s, e] for s, e, _ in est], [l for _, _, l in est]]


LABEL_POOLS = [
    ["a", "A", "b", "B", "c", "C", "d"],
    ["verse", "Verse", "VERSE", "chorus", "Chorus", "bridge", "intro"],
    ["Z", "a", "B", "z", "b", "A", "_x"],
    ["none", "None", "N", "silence", "Silence", "x"],
]


def rand_labels(rng, k, nlab):
    pool = rng.choice(LABEL_POOLS)
    names = rng.sample(pool, min(nlab, len(pool)))
    if rng.random() < 0.2:
        return [names[0]] * k if rng.random() < 0.3 else [rng.choice(names[:max(1, len(names) // 2)]) for _ in range(k)]
    return [rng.choice(names) for _ in range(k)]


def rand_segmentation(rng, T, fs, maxseg=6, nlab=4):
    """Contiguous segmentation of [0, T] with boundaries on the 1/32 lattice (often on the frame grid)."""
    k = rng.choice([1] + list(range(2, maxseg + 1)) * 3)
    cands = set()
    tries = 0
    while len(cands) < k - 1 and tries < 50:
        tries += 1
        if rng.random() < 0.5:
            m = int(T / fs)
            if m >= 1:
                b = rng.randint(0, m) * fs     # exactly a frame time
            else:
                b = Fr(rng.randint(1, int(T * 32)), 32)
        else:
            b = Fr(rng.randint(1, int(T * 32)), 32)
        if 0 < b < T:
            cands.add(b)
    bs = [Fr(0)] + sorted(cands) + [T]
    labs = rand_labels(rng, len(bs) - 1, rng.choice([1] + list(range(2, nlab + 1)) * 3))
    return [(bs[i], bs[i + 1], labs[i]) for i in range(len(bs) - 1)]


def rand_pair_E(rng):
    fs = rng.choice([Fr(1, 8), Fr(1, 4), Fr(1, 2), Fr(1), Fr(1), Fr(2)])
    r = rng.random()
    if r < 0.08:
        T = Fr(rng.randint(1, 3)) * fs + Fr(rng.randint(0, 3), 32)      # very few frames
    elif r < 0.6:
        T = rng.randint(4, 12) * fs + Fr(rng.randint(0, max(0, int(fs * 32) - 1)), 32)   # 4..12 frames
    else:
        T = Fr(rng.randint(32, 16 * 32), 32)
        if T / fs > 96:
            T = 96 * fs
    ref = rand_segmentation(rng, T, fs)
    if rng.random() < 0.12:
        # same partition under other names / boundaries cut differently
        names = {}
        est = []
        for s, e, l in ref:
            nl = names.setdefault(l.lower(), "q%d" % len(names))
            if e - s >= Fr(1, 16) and rng.random() < 0.5:
                m = s + Fr(rng.randint(1, int((e - s) * 32) - 1), 32)
                est += [(s, m, nl), (m, e, nl.upper())]
            else:
                est.append((s, e, nl))
    else:
        est = rand_segmentation(rng, T, fs)
    return ref, est, fs


def rand_pair_D(rng):
    """Decimal stream: 0.1 s frames, boundaries k*0.1 + 0.05 +- 0.04 (>= 1e-2 from every frame time)."""
    fs = Fr(1, 10)
    nfr = rng.randint(2, 60)
    T = nfr * fs + Fr(rng.randint(20, 80), 1000)

    def one():
        k = rng.choice([1, 2, 2, 3, 3, 4, 4, 5, 6])
        bs = set()
        for _ in range(k - 1):
            b = rng.randint(0, nfr - 1) * fs + Fr(rng.randint(10, 90), 1000)
            if 0 < b < T:
                bs.add(b)
        bs = [Fr(0)] + sorted(bs) + [T]
        labs = rand_labels(rng, len(bs) - 1, rng.choice([1, 2, 2, 3, 3, 3, 4, 4]))
        return [(bs[i], bs[i + 1], labs[i]) for i in range(len(bs) - 1)]
    return one(), one(), fs


def degenerate_flags(ref, est, fs):
    """(ami_ill, nmi_ill, nontrivial) decided exactly from the frame sequences (third party to both sides)."""
    yr, ye = sample_frames(ref, fs), sample_frames(est, fs)
    n = len(yr)
    kr, ke = len(set(yr)), len(set(ye))
    nmi_ill = (kr == 1) != (ke == 1)
    ami_ill = False
    if n and not (kr == 1 and ke == 1):
        nij, a, b = table(yr, ye)
        den = max(tb_entropy(a.values(), n), tb_entropy(b.values(), n)) - tb_emi(a, b, n)
        ami_ill = abs(den) < 1e-6
    return ami_ill, nmi_ill, (n >= 2 and (kr > 1 or ke > 1))


def fix_mi(v, ami_ill, nmi_ill):
    """Common shape of a mutual_information result on both sides: [mi, ami | None, nmi (scaled if floored)]."""
    if not isinstance(v, list) or len(v) < 3:
        return v
    mi, ami, nmi = v[0], v[1], v[2]
    if len(v) == 3 and all(x == 0 for x in v):
        return v   # the early `return 0., 0., 0.`
    return [mi, None if ami_ill else ami, (float(nmi) * NMI_FLOOR_K) if nmi_ill else nmi]


def make_case(op, ref, est, fs, beta, tag, flags=None):
    ri, rl = to_arrays(ref)
    ei, el = to_arrays(est)
    f, b = float(fs), float(beta)
    margs = model_args(ref, est)
    info = {"op": op, "ref": [[str(s), str(e), l] for s, e, l in ref],
            "est": [[str(s), str(e), l] for s, e, l in est], "frame_size": str(fs), "beta": str(beta)}
    if flags is None:
        flags = degenerate_flags(ref, est, fs)
    ami_ill, nmi_ill, nontriv = flags
    post = None
    if op == "segment.pairwise":
        args = margs + [fs, beta]
        call = lambda: S.pairwise(ri, rl, ei, el, frame_size=f, beta=b)
    elif op == "segment.rand_index":
        args = margs + [fs]
        call = lambda: S.rand_index(ri, rl, ei, el, frame_size=f)
    elif op == "segment.ari":
        args = margs + [fs]
        call = lambda: S.ari(ri, rl, ei, el, frame_size=f)
    elif op == "segment.mutual_information":
        args = margs + [fs]
        call = lambda: fix_mi(list(map(float, S.mutual_information(ri, rl, ei, el, frame_size=f))), ami_ill, nmi_ill)
        post = lambda mv: fix_mi(mv, ami_ill, nmi_ill)
    elif op == "segment.nce":
        marg = tag.endswith("marginal")
        args = margs + [fs, beta, marg]
        call = lambda: S.nce(ri, rl, ei, el, frame_size=f, beta=b, marginal=marg)
    elif op == "segment.vmeasure":
        args = margs + [fs, beta]
        call = lambda: S.vmeasure(ri, rl, ei, el, frame_size=f, beta=b)
    elif op == "segment.all":
        args = margs + [fs, beta]

        def call():
            return [S.pairwise(ri, rl, ei, el, frame_size=f, beta=b),
                    S.rand_index(ri, rl, ei, el, frame_size=f),
                    S.ari(ri, rl, ei, el, frame_size=f),
                    fix_mi(list(map(float, S.mutual_information(ri, rl, ei, el, frame_size=f))), ami_ill, nmi_ill),
                    S.nce(ri, rl, ei, el, frame_size=f, beta=b),
                    S.vmeasure(ri, rl, ei, el, frame_size=f, beta=b)]

        def post(mv):
            if isinstance(mv, list) and len(mv) == 6:
                mv = list(mv)
                mv[3] = fix_mi(mv[3], ami_ill, nmi_ill)
            return mv
    else:
        raise ValueError(op)
    if (ami_ill or nmi_ill) and op in ("segment.mutual_information", "segment.all"):
        tag += "|ill-conditioned"
    return Case(op, args, call, tag=tag, info=info, nontrivial=nontriv, post=post)


# ----------------------------------------------------------------------------------------
# correspondence suites

def suite_lattice(rng, tier, shard, nshards):
    n = 150 if tier == "quick" else 1500
    for _ in range(n):
        ref, est, fs = rand_pair_E(rng)
        beta = rng.choice([Fr(1), Fr(1), Fr(1, 2), Fr(2)])
        flags = degenerate_flags(ref, est, fs)
        for op in OPS:
            tag = "E fs=%s" % fs
            if op == "segment.nce":
                tag += rng.choice([" plain", " marginal"])
            yield make_case(op, ref, est, fs, beta, tag, flags)


def suite_decimal(rng, tier, shard, nshards):
    n = 60 if tier == "quick" else 600
    for _ in range(n):
        ref, est, fs = rand_pair_D(rng)
        flags = degenerate_flags(ref, est, fs)
        for op in OPS:
            tag = "D fs=0.1"
            if op == "segment.nce":
                tag += rng.choice([" plain", " marginal"])
            yield make_case(op, ref, est, fs, Fr(1), tag, flags)


def suite_irregular(rng, tier, shard, nshards):
    """Annotations validate_structure accepts although they are not partitions (gaps -> label 'none',
    overlaps -> later interval wins, unsorted rows); plus empty sides and rejected inputs."""
    n = 40 if tier == "quick" else 600
    for _ in range(n):
        fs = rng.choice([Fr(1, 4), Fr(1, 2), Fr(1)])
        T = Fr(rng.randint(2 * 32, 10 * 32), 32) * fs
        kind = rng.choice(["gap", "overlap", "unsorted", "empty", "late-start", "end-mismatch", "short-labels",
                           "zero-length"])

        def irregular():
            k = rng.randint(2, 5)
            segs = [(Fr(0), Fr(rng.randint(1, int(T * 32)), 32), rng.choice("abN"))]
            for _ in range(k - 1):
                s = Fr(rng.randint(0, int(T * 32) - 1), 32)
                e = Fr(rng.randint(int(s * 32) + 1, int(T * 32)), 32)
                segs.append((s, e, rng.choice(["a", "b", "none", "B"])))
            segs.append((Fr(rng.randint(0, int(T * 32) - 1), 32), T, rng.choice("ab")))
            if kind == "unsorted":
                rng.shuffle(segs)
            return segs
        ref = irregular() if kind in ("gap", "overlap", "unsorted") else rand_segmentation(rng, T, fs)
        est = rand_segmentation(rng, T, fs)
        if kind == "empty":
            if rng.random() < 0.5:
                ref = []
            else:
                est = []
        elif kind == "late-start":
            est = [(s + Fr(1, 32), e + Fr(1, 32), l) for s, e, l in est]
            ref = ref[:-1] + [(ref[-1][0], ref[-1][1] + Fr(1, 32), ref[-1][2])]
        elif kind == "end-mismatch":
            est = est[:-1] + [(est[-1][0], est[-1][1] + Fr(1, 32), est[-1][2])]
        elif kind == "zero-length":
            est = est + [(T, T, "a")]
        if rng.random() < 0.5:
            ref, est = est, ref
        flags = (False, False, False)
        if kind in ("gap", "overlap", "unsorted"):
            # flags need frame sequences of non-partitions: use the code-independent rule "last interval wins"
            flags = irregular_flags(ref, est, fs)
        elif kind not in ("empty", "late-start", "end-mismatch", "zero-length"):
            flags = degenerate_flags(ref, est, fs)
        for op in rng.sample(OPS, 3):
            tag = "X " + kind
            if op == "segment.nce":
                tag += " plain"
            c = make_case(op, ref, est, fs, Fr(1), tag, flags)
            if kind == "short-labels":
                # one label missing on the reference side
                ri, rl = to_arrays(ref)
                ei, el = to_arrays(est)
                rl2 = rl[:-1]
                c.args[1] = rl2
                f = float(fs)
                fn = getattr(S, op.split(".")[1])
                c.call = (lambda fn=fn, ri=ri, rl2=rl2, ei=ei, el=el, f=f: fn(ri, rl2, ei, el, frame_size=f))
                c.post = None
            yield c


def frames_lastwins(segs, fs):
    T = max(max(s, e) for s, e, _ in segs)
    out = []
    for i in range(int(T / fs)):
        t = i * fs
        lab = None
        for s, e, l in segs:
            if s <= t <= e:
                lab = l
        out.append("none" if lab is None else lab.lower())
    return out


def irregular_flags(ref, est, fs):
    yr, ye = frames_lastwins(ref, fs), frames_lastwins(est, fs)
    n = len(yr)
    if n != len(ye) or n == 0:
        return (False, False, False)
    kr, ke = len(set(yr)), len(set(ye))
    nmi_ill = (kr == 1) != (ke == 1)
    ami_ill = False
    if not (kr == 1 and ke == 1):
        nij, a, b = table(yr, ye)
        den = max(tb_entropy(a.values(), n), tb_entropy(b.values(), n)) - tb_emi(a, b, n)
        ami_ill = abs(den) < 1e-6
    return ami_ill, nmi_ill, n >= 2


def suite_frames(rng, tier, shard, nshards):
    """util.intervals_to_samples + util.index_labels: the frame-label index sequence itself (discrete, exact)."""
    n = 150 if tier == "quick" else 3000
    for _ in range(n):
        ref, _, fs = rand_pair_E(rng)
        iv, labs = to_arrays(ref)
        f = float(fs)
        yield Case("segment.frame_indices", [[[s, e] for s, e, _ in ref], labs, fs],
                   lambda iv=iv, labs=labs, f=f: mir_eval.util.index_labels(
                       mir_eval.util.intervals_to_samples(iv, labs, sample_size=f)[-1])[0],
                   tag="fs=%s" % fs, info={"ref": [[str(s), str(e), l] for s, e, l in ref], "frame_size": str(fs)},
                   nontrivial=len(ref) > 1)


def suite_index_labels(rng, tier, shard, nshards):
    n = 150 if tier == "quick" else 3000
    alphabet = "abAB zZ_09~"
    for _ in range(n):
        k = rng.randint(0, 8)
        pool = ["".join(rng.choice(alphabet) for _ in range(rng.randint(0, 3))) for _ in range(rng.randint(1, 4))]
        labs = []
        for _ in range(k):
            s = rng.choice(pool)
            r = rng.random()
            labs.append(s.upper() if r < 0.25 else s.lower() if r < 0.5 else s.swapcase() if r < 0.6 else s)
        yield Case("util.index_labels", [labs], lambda labs=labs: mir_eval.util.index_labels(labs)[0],
                   tag="k=%d" % k, info={"labels": labs}, nontrivial=len(set(l.lower() for l in labs)) > 1)


def rgs(n, kmax):
    """All restricted-growth strings of length n with at most kmax distinct values."""
    out = []

    def rec(prefix, m):
        if len(prefix) == n:
            out.append(tuple(prefix))
            return
        for v in range(min(m + 1, kmax - 1) + 1):
            rec(prefix + [v], max(m, v))
    if n:
        rec([0], 0)
    return out


NAMINGS = [("a", "b", "c"), ("c", "A", "b"), ("B", "a", "C"), ("x", "X2", "w"), ("Verse", "chorus", "BRIDGE")]


def unit_segments(seq, names, rng):
    out = []
    for i, v in enumerate(seq):
        nm = names[v]
        if rng.random() < 0.3:
            nm = nm.swapcase()
        out.append((Fr(i), Fr(i + 1), nm))
    return out


_UNIT = {}


def _unit(n):
    """Shared (read-only) interval data of n unit segments: model rows, numpy array, info rows."""
    if n not in _UNIT:
        rows = [[Fr(i), Fr(i + 1)] for i in range(n)]
        arr = np.array([[float(i), float(i + 1)] for i in range(n)], dtype=float).reshape(-1, 2)
        arr.setflags(write=False)
        _UNIT[n] = (rows, arr)
    return _UNIT[n]


def make_rgs_case(a, b, rng, tag, full=True):
    """All six functions (or, with full=False, the three exact ones) on the unit-frame realisation of the
    label sequences a, b (memory-light)."""
    n = len(a)
    rows, arr = _unit(n)
    na, nb = rng.choice(NAMINGS), rng.choice(NAMINGS)
    rl = [na[v].swapcase() if rng.random() < 0.3 else na[v] for v in a]
    el = [nb[v].swapcase() if rng.random() < 0.3 else nb[v] for v in b]
    ami_ill, nmi_ill, nontriv = rgs_flags(a, b)

    def call():
        return [S.pairwise(arr, rl, arr, el, frame_size=1.0, beta=1.0),
                S.rand_index(arr, rl, arr, el, frame_size=1.0),
                S.ari(arr, rl, arr, el, frame_size=1.0),
                fix_mi(list(map(float, S.mutual_information(arr, rl, arr, el, frame_size=1.0))), ami_ill, nmi_ill),
                S.nce(arr, rl, arr, el, frame_size=1.0, beta=1.0),
                S.vmeasure(arr, rl, arr, el, frame_size=1.0, beta=1.0)]

    def post(mv):
        if isinstance(mv, list) and len(mv) == 6:
            mv = list(mv)
            mv[3] = fix_mi(mv[3], ami_ill, nmi_ill)
        return mv
    if not full:
        def call3():
            return [S.pairwise(arr, rl, arr, el, frame_size=1.0, beta=1.0),
                    S.rand_index(arr, rl, arr, el, frame_size=1.0),
                    S.ari(arr, rl, arr, el, frame_size=1.0)]
        return Case("segment.exact3", [rows, rl, rows, el, Fr(1), Fr(1)], call3, tag=tag + " exact3",
                    info={"op": "segment.all", "unit_ref": rl, "unit_est": el}, nontrivial=nontriv)
    if ami_ill or nmi_ill:
        tag += "|ill-conditioned"
    return Case("segment.all", [rows, rl, rows, el, Fr(1), Fr(1)], call, tag=tag,
                info={"op": "segment.all", "unit_ref": rl, "unit_est": el}, nontrivial=nontriv, post=post)


def suite_rgs(rng, tier, shard, nshards):
    """Pairs of restricted-growth label sequences (<= 3 labels) realised as unit-frame segments.
    thorough: ALL pairs for n = 1..8 (1 594 323 pairs): all six functions for n <= 7 and for every 8th pair at
    n = 8, the three exact metrics (pairwise, rand_index, ari) for every pair at n = 8;
    quick: all pairs for n <= 4 and a random sample above, all six functions."""
    idx = 0
    nmax = 8
    for n in range(1, nmax + 1):
        seqs = rgs(n, 3)
        if tier == "thorough" or n <= 4:
            for a in seqs:
                for b in seqs:
                    idx += 1
                    if idx % nshards == shard:
                        full = n <= 7 or (idx // nshards) % 8 == 0
                        yield make_rgs_case(a, b, rng, "rgs n=%d all" % n, full)
        else:
            # every shard draws its own sample
            for _ in range(240 if n < 8 else 320):
                yield make_rgs_case(rng.choice(seqs), rng.choice(seqs), rng, "rgs n=%d sample" % n)


def rgs_flags(a, b):
    n = len(a)
    ka, kb = len(set(a)), len(set(b))
    nmi_ill = (ka == 1) != (kb == 1)
    # max(H) - EMI vanishes exactly when both partitions are all singletons (EMI = MI = H = log n);
    # checked against the independent computation in the quick tier below n = 5
    ami_ill = (ka == n and kb == n and n > 1)
    return ami_ill, nmi_ill, (n >= 2 and (ka > 1 or kb > 1))


# ----------------------------------------------------------------------------------------
# the index functions as REGENERATED from the source (driver op `gen.segindex`, lean/MirGen/SegIndex.lean) vs the real
# functions: exercises the translator's own semantic assumptions (np.unique(return_inverse) + COO scatter, NumPy-scalar
# vs Python division, comb, the chained == of the special cases) on label sequences directly

def _seq_info(fn, a, b, beta="1"):
    """replayable description + what `classify` needs to turn a disagreement into an oracle input"""
    return {"op": "gen.segindex", "fn": fn, "seq_ref": [int(x) for x in a], "seq_est": [int(x) for x in b], "beta": str(beta)}


def _gen_private_cases(a, b, tag):
    """the two private functions on the index arrays themselves"""
    ya, yb = np.array(a, dtype=int), np.array(b, dtype=int)
    nontriv = len(a) >= 2 and (len(set(a)) > 1 or len(set(b)) > 1)
    yield Case("gen.segindex", ["_contingency_matrix", list(a), list(b)],
               lambda ya=ya, yb=yb: S._contingency_matrix(ya, yb),
               tag=tag + " contingency", info=_seq_info("_contingency_matrix", a, b), nontrivial=nontriv)
    yield Case("gen.segindex", ["_adjusted_rand_index", list(a), list(b)],
               lambda ya=ya, yb=yb: S._adjusted_rand_index(ya, yb),
               tag=tag + " ari", info=_seq_info("_adjusted_rand_index", a, b), nontrivial=nontriv)


def _gen_entropy_cases(a, b, rng, tag, beta=Fr(1)):
    """the translated entropy family (Float instance): _entropy, _mutual_info_score (computing the table itself and
    with a pre-computed one), nce (both normalisations) and vmeasure on the unit-frame realisation"""
    ya, yb = np.array(a, dtype=int), np.array(b, dtype=int)
    n = len(a)
    nontriv = n >= 2 and (len(set(a)) > 1 or len(set(b)) > 1)
    yield Case("gen.segindex", ["_entropy", list(a)], lambda ya=ya: S._entropy(ya),
               tag=tag + " entropy", info=_seq_info("_entropy", a, a), nontrivial=len(set(a)) > 1)
    yield Case("gen.segindex", ["_mutual_info_score", list(a), list(b), None],
               lambda ya=ya, yb=yb: S._mutual_info_score(ya, yb),
               tag=tag + " mi", info=_seq_info("_mutual_info_score", a, b), nontrivial=nontriv)
    if n != len(b) or (len(set(a)) == 1) == (len(set(b)) == 1):
        # (a zero-entropy side against a split one floors the denominator at 1e-10 and divides rounding noise by it:
        #  ill-conditioned, see ASSUMPTIONS; compared through the public function's suites only)
        yield Case("gen.segindex", ["_normalized_mutual_info_score", list(a), list(b)],
                   lambda ya=ya, yb=yb: S._normalized_mutual_info_score(ya, yb),
                   tag=tag + " nmi", info=_seq_info("_normalized_mutual_info_score", a, b), nontrivial=nontriv)
    if n == len(b) and n > 0:
        c = S._contingency_matrix(ya, yb)
        yield Case("gen.segindex", ["_mutual_info_score", list(a), list(b), c.tolist()],
                   lambda ya=ya, yb=yb, c=c: S._mutual_info_score(ya, yb, contingency=c.astype(float)),
                   tag=tag + " mi precomputed", info=_seq_info("_mutual_info_score", a, b), nontrivial=nontriv)
        rows, arr = _unit(n)
        rl, el = ["r%d" % v for v in a], ["E%d" % v for v in b]
        fb = float(beta)
        marg = rng.random() < 0.5
        yield Case("gen.segindex", ["nce", rows, rl, rows, el, Fr(1), beta, marg],
                   lambda: S.nce(arr, rl, arr, el, frame_size=1.0, beta=fb, marginal=marg),
                   tag=tag + (" nce marginal" if marg else " nce plain"), info=_seq_info("nce", a, b, beta),
                   nontrivial=nontriv)
        yield Case("gen.segindex", ["vmeasure", rows, rl, rows, el, Fr(1), beta],
                   lambda: S.vmeasure(arr, rl, arr, el, frame_size=1.0, beta=fb),
                   tag=tag + " vmeasure", info=_seq_info("vmeasure", a, b, beta), nontrivial=nontriv)


def _gen_public_cases(a, b, rng, tag, beta=Fr(1)):
    """pairwise / rand_index / ari (translated prologue + core) on the unit-frame realisation of two sequences"""
    n = len(a)
    rows, arr = _unit(n)
    rl, el = ["r%d" % v for v in a], ["E%d" % v for v in b]
    nontriv = n >= 2 and (len(set(a)) > 1 or len(set(b)) > 1)
    fb = float(beta)
    yield Case("gen.segindex", ["pairwise", rows, rl, rows, el, Fr(1), beta],
               lambda: S.pairwise(arr, rl, arr, el, frame_size=1.0, beta=fb),
               tag=tag + " pairwise", info=_seq_info("pairwise", a, b, beta), nontrivial=nontriv)
    yield Case("gen.segindex", ["rand_index", rows, rl, rows, el, Fr(1), beta],
               lambda: S.rand_index(arr, rl, arr, el, frame_size=1.0, beta=fb),
               tag=tag + " rand_index", info=_seq_info("rand_index", a, b, beta), nontrivial=nontriv)
    yield Case("gen.segindex", ["ari", rows, rl, rows, el, Fr(1)],
               lambda: S.ari(arr, rl, arr, el, frame_size=1.0),
               tag=tag + " ari_public", info=_seq_info("ari", a, b, beta), nontrivial=nontriv)


def suite_gen_segindex(rng, tier, shard, nshards):
    """ALL pairs of restricted-growth sequences up to 4 (quick) / 6 (thorough) frames over <= 3 labels, random sequences
    with arbitrary (non-dense, unsorted) index values up to 40 frames, all-distinct / one-label / unequal-length /
    empty inputs; public functions also on lattice annotations (prologue externs)."""
    cases = []
    nmax = 4 if tier == "quick" else 6
    for n in range(1, nmax + 1):
        seqs = rgs(n, 3)
        for a in seqs:
            for b in seqs:
                cases += list(_gen_private_cases(a, b, "rgs n=%d" % n))
                cases += list(_gen_public_cases(a, b, rng, "rgs n=%d" % n))
                cases += list(_gen_entropy_cases(a, b, rng, "rgs n=%d" % n))
    # corners
    for a, b in ([], []), ([3], [7]), ([0, 1], [0]), ([0], [0, 1]), ([], [0]), ([0, 0, 1], [0, 0]), ([1, 1, 1], [2, 2, 2]), \
            ([0, 1, 2, 3], [3, 2, 1, 0]), ([0, 1, 2, 3], [0, 0, 0, 0]), ([4, 4], [9, 1]):
        cases += list(_gen_private_cases(a, b, "corner"))
        cases += list(_gen_entropy_cases(a, b, rng, "corner"))
    for i, c in enumerate(cases):
        if i % nshards == shard:
            yield c
    # random (every shard draws its own)
    for _ in range(60 if tier == "quick" else 500):
        n = rng.choice([2, 3, 5, 8, 8, 13, 21, 40])
        ka, kb = rng.randint(1, min(n, 6)), rng.randint(1, min(n, 6))
        pa, pb = rng.sample(range(0, 50), ka), rng.sample(range(0, 50), kb)     # arbitrary index values
        a = [rng.choice(pa) for _ in range(n)]
        r = rng.random()
        if r < 0.15:
            m = dict(zip(sorted(set(a)), rng.sample(range(0, 50), len(set(a)))))
            b = [m[v] for v in a]                                                 # the same partition renamed
        elif r < 0.25:
            b = list(range(n)) if rng.random() < 0.5 else [pb[0]] * n
            if rng.random() < 0.5:
                a = rng.sample(range(0, 60), n)                                   # all distinct
        else:
            b = [rng.choice(pb) for _ in range(n)]
        for c in _gen_private_cases(a, b, "random n=%d" % n):
            yield c
        if n <= 13:
            for c in _gen_public_cases(a, b, rng, "random n=%d" % n, rng.choice([Fr(1), Fr(1, 2), Fr(2)])):
                yield c
        for c in _gen_entropy_cases(a, b, rng, "random n=%d" % n, rng.choice([Fr(1), Fr(1, 2), Fr(2)])):
            yield c
    # the translated public functions on lattice annotations (validation, empty sides, frame sampling = externs)
    for _ in range(10 if tier == "quick" else 200):
        ref, est, fs = rand_pair_E(rng)
        if rng.random() < 0.1:
            ref, est = ([], est) if rng.random() < 0.5 else (ref, [])
        elif rng.random() < 0.1 and est:
            est = est[:-1] + [(est[-1][0], est[-1][1] + Fr(1, 32), est[-1][2])]      # end mismatch -> ValueError
        beta = rng.choice([Fr(1), Fr(1, 2), Fr(2)])
        ri, rl = to_arrays(ref)
        ei, el = to_arrays(est)
        f, bb = float(fs), float(beta)
        margs = model_args(ref, est)
        info = {"op": "gen.segindex", "ref": [[str(s), str(e), l] for s, e, l in ref],
                "est": [[str(s), str(e), l] for s, e, l in est], "frame_size": str(fs), "beta": str(beta)}
        yield Case("gen.segindex", ["pairwise"] + margs + [fs, beta],
                   lambda ri=ri, rl=rl, ei=ei, el=el, f=f, bb=bb: S.pairwise(ri, rl, ei, el, frame_size=f, beta=bb),
                   tag="E pairwise", info=dict(info, fn="pairwise"))
        yield Case("gen.segindex", ["rand_index"] + margs + [fs, beta],
                   lambda ri=ri, rl=rl, ei=ei, el=el, f=f, bb=bb: S.rand_index(ri, rl, ei, el, frame_size=f, beta=bb),
                   tag="E rand_index", info=dict(info, fn="rand_index"))
        yield Case("gen.segindex", ["ari"] + margs + [fs],
                   lambda ri=ri, rl=rl, ei=ei, el=el, f=f: S.ari(ri, rl, ei, el, frame_size=f),
                   tag="E ari_public", info=dict(info, fn="ari"))
        marg = rng.random() < 0.5
        yield Case("gen.segindex", ["nce"] + margs + [fs, beta, marg],
                   lambda ri=ri, rl=rl, ei=ei, el=el, f=f, bb=bb, marg=marg: S.nce(ri, rl, ei, el, frame_size=f, beta=bb,
                                                                                  marginal=marg),
                   tag="E nce", info=dict(info, fn="nce"))
        yield Case("gen.segindex", ["vmeasure"] + margs + [fs, beta],
                   lambda ri=ri, rl=rl, ei=ei, el=el, f=f, bb=bb: S.vmeasure(ri, rl, ei, el, frame_size=f, beta=bb),
                   tag="E vmeasure", info=dict(info, fn="vmeasure"))


SUITES = {"lattice": suite_lattice, "decimal": suite_decimal, "irregular": suite_irregular,
          "frames": suite_frames, "index_labels": suite_index_labels, "rgs": suite_rgs,
          "gen_segindex": suite_gen_segindex}
# stream F: the segment fixture files (real boundary grids and label vocabularies), lattice and 0.1 s frames
from suites import fixtures as _FX  # noqa: E402
if "segment_frames" in _FX.SUITES:
    SUITES["fixtures.segment_frames"] = _FX.SUITES["segment_frames"]
RULE += "; " + _FX.RULE_NOTE


# ----------------------------------------------------------------------------------------
# the property itself on the real code, one JSON input at a time

def _parse(inp):
    def segs(rows):
        return [(Fr(str(s)), Fr(str(e)), l) for s, e, l in rows]
    return segs(inp["ref"]), segs(inp["est"]), Fr(str(inp["frame_size"])), Fr(str(inp.get("beta", "1")))


def _flipcase(segs):
    return [(s, e, l.swapcase()) for s, e, l in segs]


class ImplRaised(Exception):
    pass


def _call(fn, ref, est, fs, **kw):
    ri, rl = to_arrays(ref)
    ei, el = to_arrays(est)
    try:
        return fn(ri, rl, ei, el, frame_size=float(fs), **kw)
    except Exception as e:  # noqa: BLE001 - the code under test raised on a valid input: a finding, not a tool error
        raise ImplRaised("%s raised %s: %s" % (fn.__name__, type(e).__name__, e))


def _guard(chk):
    def wrapped(inp):
        try:
            return chk(inp)
        except ImplRaised as e:
            return "%s on a valid input" % e
    wrapped.__name__ = chk.__name__
    return wrapped


def _fm(p, r, beta):
    if p == 0 and r == 0:
        return 0.0
    return (1 + beta ** 2) * p * r / (beta ** 2 * p + r)


def _empty_result(fn, ref, est, fs, scalar, **kw):
    """Documented result on an empty annotation: 0.0 for the scalar metrics, (0, 0, 0) for the others."""
    got = _call(fn, ref, est, fs, **kw)
    if scalar:
        if isinstance(got, (tuple, list, np.ndarray)) or float(got) != 0.0:
            return "%s on an empty annotation returned %r, documented: the scalar 0.0" % (fn.__name__, got)
    elif not (isinstance(got, tuple) and len(got) == 3 and all(float(x) == 0.0 for x in got)):
        return "%s on an empty annotation returned %r, expected (0., 0., 0.)" % (fn.__name__, got)
    return None


def check_pairwise(inp):
    ref, est, fs, beta = _parse(inp)
    if not ref or not est:
        return _empty_result(S.pairwise, ref, est, fs, False)
    yr, ye = sample_frames(ref, fs), sample_frames(est, fs)
    s, a, b, n2 = textbook_pairs(yr, ye)
    got = _call(S.pairwise, ref, est, fs, beta=float(beta))
    if a == 0 or b == 0:
        return None   # textbook precision / recall undefined (no co-labelled pair on one side): not a valid input
    p, r = Fr(s, b), Fr(s, a)
    want = (float(p), float(r), float(_fm(p, r, beta)))
    for name, g, w in zip(("precision", "recall", "f"), got, want):
        if not close(g, w):
            return "pairwise %s = %r, contingency-table definition gives %r" % (name, float(g), w)
    got2 = _call(S.pairwise, _flipcase(ref), est, fs, beta=float(beta))
    if tuple(map(float, got2)) != tuple(map(float, got)):
        return "pairwise changes when the reference labels change case: %r vs %r" % (got2, got)
    sw = _call(S.pairwise, est, ref, fs, beta=1.0)
    g1 = _call(S.pairwise, ref, est, fs, beta=1.0)
    if not (close(sw[0], g1[1]) and close(sw[1], g1[0]) and close(sw[2], g1[2])):
        return "pairwise swap does not exchange precision and recall: %r vs %r" % (sw, g1)
    return None


def check_rand(inp):
    ref, est, fs, _ = _parse(inp)
    if not ref or not est:
        return _empty_result(S.rand_index, ref, est, fs, True)
    yr, ye = sample_frames(ref, fs), sample_frames(est, fs)
    s, a, b, n2 = textbook_pairs(yr, ye)
    if n2 == 0:
        return None   # fewer than two frames: the index is undefined
    got = _call(S.rand_index, ref, est, fs)
    want = Fr(n2 + 2 * s - a - b, n2)
    if not np.isscalar(got) and not isinstance(got, float):
        return "rand_index returned a non-scalar %r" % (got,)
    if not close(got, want):
        return "rand_index = %r, definition (agreeing pairs / all pairs) gives %s" % (float(got), want)
    got2 = _call(S.rand_index, ref, _flipcase(est), fs)
    if float(got2) != float(got):
        return "rand_index changes when the estimated labels change case"
    if not close(_call(S.rand_index, est, ref, fs), got):
        return "rand_index is not symmetric"
    return None


def check_ari(inp):
    ref, est, fs, _ = _parse(inp)
    if not ref or not est:
        return _empty_result(S.ari, ref, est, fs, True)
    yr, ye = sample_frames(ref, fs), sample_frames(est, fs)
    s, a, b, n2 = textbook_pairs(yr, ye)
    if len(yr) == 0:
        return None
    got = _call(S.ari, ref, est, fs)
    if isinstance(got, tuple):
        return "ari returned a tuple %r" % (got,)
    same = (len(set(zip(yr, ye))) == len(set(yr)) == len(set(ye)))
    if n2 == 0 or Fr(a + b, 2) - Fr(a * b, n2) == 0:
        # Hubert-Arabie quotient is 0/0: both partitions trivial in the same way, hence identical
        want = Fr(1)
    else:
        prod = Fr(a * b, n2)
        want = (s - prod) / (Fr(a + b, 2) - prod)
    if not close(got, want):
        return "ari = %r, Hubert-Arabie formula on the contingency table gives %s" % (float(got), want)
    if same and not close(got, 1.0):
        return "ari = %r although the two partitions coincide" % float(got)
    if float(_call(S.ari, _flipcase(ref), _flipcase(est), fs)) != float(got):
        return "ari changes when labels change case"
    if not close(_call(S.ari, est, ref, fs), got):
        return "ari is not symmetric"
    return None


def check_mi(inp):
    ref, est, fs, _ = _parse(inp)
    if not ref or not est:
        return _empty_result(S.mutual_information, ref, est, fs, False)
    yr, ye = sample_frames(ref, fs), sample_frames(est, fs)
    n = len(yr)
    if n == 0:
        return None
    nij, a, b = table(yr, ye)
    got = tuple(map(float, _call(S.mutual_information, ref, est, fs)))
    mi = tb_mi(nij, a, b, n)
    if not close(got[0], mi):
        return "MI = %r, definition sum p_ij log(p_ij/(p_i p_j)) gives %r" % (got[0], mi)
    if got[0] < 0 or got[2] < 0:
        return ("MI = %r, NMI = %r: mutual information is non-negative by definition (Lean: mi_nonneg); the code "
                "clips rounding noise at 0" % (got[0], got[2]))
    hr, he = tb_entropy(a.values(), n), tb_entropy(b.values(), n)
    kr, ke = len(a), len(b)
    # entropy_textbook on the real helper: _entropy(labels) = -sum p log p  (Lean: entropy_textbook)
    for side, seq, h in (("reference", yr, hr), ("estimate", ye, he)):
        eh = float(S._entropy(np.array([str(x) for x in seq])))
        if not close(eh, h):
            return "_entropy(%s frame labels) = %r, definition -sum p log p gives %r" % (side, eh, h)
    if kr == 1 and ke == 1:
        if got[1] != 1.0 or got[2] != 1.0:
            return "AMI/NMI of two one-cluster partitions should be 1 by convention, got %r" % (got,)
    else:
        if kr > 1 and ke > 1:   # NMI defined (both entropies positive)
            nmi = mi / math.sqrt(hr * he)
            if not close(got[2], nmi):
                return "NMI = %r, definition MI/sqrt(H H') gives %r" % (got[2], nmi)
        emi = tb_emi(a, b, n)
        den = max(hr, he) - emi
        if abs(den) > 1e-6:
            ami = (mi - emi) / den
            if not close(got[1], ami, 1e-9 + 1e-15 / abs(den)):
                return "AMI = %r, definition (MI-EMI)/(max(H,H')-EMI) gives %r" % (got[1], ami)
    sw = tuple(map(float, _call(S.mutual_information, est, ref, fs)))
    if not close(sw[0], got[0]):
        return "MI(a,b) = %r but MI(b,a) = %r" % (got[0], sw[0])
    fl = tuple(map(float, _call(S.mutual_information, _flipcase(ref), est, fs)))
    if not all((x == y) or (math.isnan(x) and math.isnan(y)) for x, y in zip(fl, got)):
        return "mutual_information changes when labels change case: %r vs %r" % (fl, got)
    return None


def _tb_nce(yr, ye, marginal):
    n = len(yr)
    nij, a, b = table(yr, ye)
    h_ref_given_est = tb_cond_entropy_bits(nij, b, n)
    h_est_given_ref = tb_cond_entropy_bits({(j, i): v for (i, j), v in nij.items()}, a, n)
    if marginal:
        z_ref = tb_entropy(a.values(), n) / math.log(2)
        z_est = tb_entropy(b.values(), n) / math.log(2)
    else:
        z_ref, z_est = math.log2(len(a)), math.log2(len(b))
    under = 1.0 - h_ref_given_est / z_ref if len(a) > 1 else 0.0
    over = 1.0 - h_est_given_ref / z_est if len(b) > 1 else 0.0
    return over, under


def _check_nce_like(fn, kw, marginal, name, inp):
    ref, est, fs, beta = _parse(inp)
    if not ref or not est:
        return _empty_result(fn, ref, est, fs, False, **kw)
    yr, ye = sample_frames(ref, fs), sample_frames(est, fs)
    if len(yr) == 0:
        return None
    got = tuple(map(float, _call(fn, ref, est, fs, beta=float(beta), **kw)))
    over, under = _tb_nce(yr, ye, marginal)
    if not close(got[0], over):
        return "%s over-clustering score = %r, definition gives %r" % (name, got[0], over)
    if not close(got[1], under):
        return "%s under-clustering score = %r, definition gives %r" % (name, got[1], under)
    # F from the *returned* P and R (the quotient itself is ill-conditioned when P + R is at rounding level)
    p, r = got[0], got[1]
    if abs(p) > 1e-7 or abs(r) > 1e-7:
        b2 = float(beta) ** 2
        if not close(got[2], (1 + b2) * p * r / (b2 * p + r)):
            return "%s F = %r is not the F-measure of its own precision %r and recall %r" % (name, got[2], p, r)
        if beta == 1 and not close(got[2], 2 * p * r / (p + r)):
            return "%s F = %r is not the harmonic mean of %r and %r" % (name, got[2], p, r)
    fl = tuple(map(float, _call(fn, ref, _flipcase(est), fs, beta=float(beta), **kw)))
    if fl != got:
        return "%s changes when labels change case: %r vs %r" % (name, fl, got)
    return None


def check_nce(inp):
    r = _check_nce_like(S.nce, {"marginal": False}, False, "nce", inp)
    if r:
        return r
    return _check_nce_like(S.nce, {"marginal": True}, True, "nce(marginal=True)", inp)


def check_vmeasure(inp):
    r = _check_nce_like(S.vmeasure, {}, True, "vmeasure", inp)
    if r:
        return r
    ref, est, fs, beta = _parse(inp)
    if not ref or not est:
        return None
    v = tuple(map(float, _call(S.vmeasure, ref, est, fs, beta=float(beta))))
    m = tuple(map(float, _call(S.nce, ref, est, fs, beta=float(beta), marginal=True)))
    if v != m and not all(math.isnan(x) and math.isnan(y) or x == y for x, y in zip(v, m)):
        return "vmeasure %r differs from nce(marginal=True) %r" % (v, m)
    # chain rule form (Lean: v_is_mi_over_entropy): the two scores are MI/H(est) and MI/H(ref)
    yr, ye = sample_frames(ref, fs), sample_frames(est, fs)
    n = len(yr)
    if n:
        nij, a, b = table(yr, ye)
        mi = tb_mi(nij, a, b, n)
        want_over = mi / tb_entropy(b.values(), n) if len(b) > 1 else 0.0
        want_under = mi / tb_entropy(a.values(), n) if len(a) > 1 else 0.0
        if not close(v[0], want_over):
            return "vmeasure over-clustering score = %r, MI/H(est) gives %r" % (v[0], want_over)
        if not close(v[1], want_under):
            return "vmeasure under-clustering score = %r, MI/H(ref) gives %r" % (v[1], want_under)
    return None


CHECKERS = {"segment.pairwise": _guard(check_pairwise), "segment.rand_index": _guard(check_rand),
            "segment.ari": _guard(check_ari), "segment.mutual_information": _guard(check_mi),
            "segment.nce": _guard(check_nce), "segment.vmeasure": _guard(check_vmeasure)}


def _json_input(ref, est, fs, beta):
    return {"ref": [[str(s), str(e), l] for s, e, l in ref], "est": [[str(s), str(e), l] for s, e, l in est],
            "frame_size": str(fs), "beta": str(beta)}


def _oracle_gen(site):
    def gen(rng, tier, shard, nshards, boost):
        n = (40 if tier == "quick" else 500) * boost
        for k in range(n):
            r = rng.random()
            if r < 0.55:
                ref, est, fs = rand_pair_E(rng)
            elif r < 0.75:
                ref, est, fs = rand_pair_D(rng)
            else:
                m = rng.randint(2, 8)
                seqs_a = [rng.randint(0, 2) for _ in range(m)]
                seqs_b = [rng.randint(0, 2) for _ in range(m)] if rng.random() < 0.8 else \
                    [{0: 2, 1: 0, 2: 1}[v] for v in seqs_a]
                ref = unit_segments(seqs_a, rng.choice(NAMINGS), rng)
                est = unit_segments(seqs_b, rng.choice(NAMINGS), rng)
                fs = Fr(1)
            beta = rng.choice([Fr(1), Fr(1), Fr(1, 2), Fr(2)])
            if rng.random() < 0.03:
                # an empty side: every metric has a documented early return
                if rng.random() < 0.5:
                    ref = []
                else:
                    est = []
            yield _json_input(ref, est, fs, beta)
    return gen


ORACLES = {site: _oracle_gen(site) for site in CHECKERS}

_GEN_SITES = {"pairwise": ["segment.pairwise"], "rand_index": ["segment.rand_index"], "ari": ["segment.ari"],
              "_adjusted_rand_index": ["segment.ari"], "nce": ["segment.nce"], "vmeasure": ["segment.vmeasure"],
              "_entropy": ["segment.mutual_information"], "_mutual_info_score": ["segment.mutual_information"],
              "_normalized_mutual_info_score": ["segment.mutual_information"],
              "_contingency_matrix": ["segment.ari", "segment.mutual_information", "segment.nce"]}


def _classify_gen(i):
    """a disagreeing gen.segindex case: the same label sequences (as unit-frame segments) / the same annotations are
    tried against the definition of the metric(s) the function feeds, on the real code"""
    sites = _GEN_SITES.get(i.get("fn"), [])
    if "seq_ref" in i:
        a, b = i["seq_ref"], i["seq_est"]
        if len(a) != len(b) or not a:
            return None     # not a pair of frame sequences of one recording: no valid input of the property
        inp = {"ref": [[str(k), str(k + 1), "r%d" % v] for k, v in enumerate(a)],
               "est": [[str(k), str(k + 1), "e%d" % v] for k, v in enumerate(b)],
               "frame_size": "1", "beta": i.get("beta", "1")}
    elif i.get("ref") and i.get("est"):
        inp = {"ref": i["ref"], "est": i["est"], "frame_size": i["frame_size"], "beta": i.get("beta", "1")}
    else:
        return None
    import warnings
    for site in sites:
        with warnings.catch_warnings():
            warnings.simplefilter("ignore")
            if CHECKERS[site](inp) is not None:
                return site, inp
    return (sites[0], inp) if sites else None


def classify(suite, d):
    """Map a disagreeing case on *valid* input to (site, oracle input); other suites have no oracle."""
    if suite == "gen_segindex":
        return _classify_gen(d.get("info") or {})
    if suite not in ("lattice", "decimal", "rgs", "fixtures.segment_frames"):
        return None
    i = d.get("info") or {}
    op = i.get("op")
    if op == "segment.all":
        import re
        m = re.match(r"\[(\d)\]", d.get("diff", ""))
        op = OPS[int(m.group(1))] if m else "segment.pairwise"
    if op not in CHECKERS:
        return None
    if "unit_ref" in i:
        ref = [[str(k), str(k + 1), l] for k, l in enumerate(i["unit_ref"])]
        est = [[str(k), str(k + 1), l] for k, l in enumerate(i["unit_est"])]
        return op, {"ref": ref, "est": est, "frame_size": "1", "beta": "1"}
    ref, est = i.get("ref"), i.get("est")
    if not ref or not est:
        return None
    return op, {"ref": ref, "est": est, "frame_size": i["frame_size"], "beta": i.get("beta", "1")}


# ----------------------------------------------------------------------------------------
# more oracle streams (harness/props/c16_seq.py): every labelling entry of evaluate(); SEQUENCES of calls in one process
# on annotations whose marginals collide under lossy summaries; a large-scale stream (50k-200k frames)
from props import c16_seq as _SEQ  # noqa: E402
CHECKERS.update(_SEQ.CHECKERS)
ORACLES.update(_SEQ.ORACLES)
RULE += ("; oracle streams added: every labelling entry of evaluate(); sequences of 2-4 plain calls in one process "
         "(module state reset first) on annotations with equal frame counts whose marginals collide under lossy "
         "summaries (same set of cluster sizes / same multiset / same number of clusters / same n / same intervals / "
         "same labels / other frame grid), each call against its textbook value; three large-scale inputs per quick "
         "run (50k-200k frames: ari, nce, vmeasure, mutual_information through the public functions, "
         "_contingency_matrix / _adjusted_rand_index on index vectors) against exact integer arithmetic on run lengths")
