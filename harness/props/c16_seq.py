"""C16 — three more streams for the definitional oracle (registered at the end of props/c16.py).

  segment.evaluate   every labelling entry of ONE segment.evaluate() call against the textbook value of the
                     contingency table of the two frame-label sequences
  segment.sequence   short SEQUENCES of calls in one process (module state reset first, so the input alone replays it):
                     consecutive annotations have equal frame counts and marginals that coincide under a lossy summary
                     (same SET of cluster sizes with other multiplicities, same multiset of sizes with another joint
                     table, same number of clusters, same n; same intervals with other labels, same labels with other
                     boundaries, same annotation at another frame size).  Every call is one plain call of one public
                     function (no call of the harness in between) compared with its textbook value, so a result carried
                     over from an earlier call - a memo keyed by a summary of its arguments - shows as a wrong value.
                     40 % of the sequences also contain one plain call of a public helper the metrics are built on
                     (util.intervals_to_samples with a non-zero offset, index_labels, intervals_to_boundaries,
                     adjust_intervals) on one of the annotations.
  segment.scale      50 000 - 200 000 frames (long shared sections on a fine dyadic grid): ari / mutual_information /
                     nce / vmeasure through the public functions, _contingency_matrix / _adjusted_rand_index on index
                     vectors; expected values from exact integer arithmetic on run lengths (no per-frame loop), the
                     expected MI from exact hypergeometric weight ratios.  NOT pairwise / rand_index (n x n matrices).

All expected values are computed here from counts with fractions / math.log only; nothing of mir_eval is used for them.
"""
import importlib
import math
from collections import Counter
from fractions import Fraction as Fr

import numpy as np

P = importlib.import_module("props.c16")     # (this module is imported from the end of props/c16.py)
S = P.S

PAIRWISE = ["Pairwise Precision", "Pairwise Recall", "Pairwise F-measure"]
MI3 = ["Mutual Information", "Adjusted Mutual Information", "Normalized Mutual Information"]
NCE3 = ["NCE Over", "NCE Under", "NCE F-measure"]
V3 = ["V Precision", "V Recall", "V-measure"]
FN_KEYS = {"pairwise": PAIRWISE, "rand_index": ["Rand Index"], "ari": ["Adjusted Rand Index"],
           "mutual_information": MI3, "nce": NCE3, "nce_marginal": V3, "vmeasure": V3,
           "evaluate": PAIRWISE + ["Rand Index", "Adjusted Rand Index"] + MI3 + NCE3 + V3}
INT32 = 2 ** 31


# ----------------------------------------------------------------------------------------
# the contingency table of two annotations from run lengths (exact; no per-frame work)

def ceil_div(x, fs):
    return -((-x) // fs)


def runs_of(segs, fs):
    """[(label modulo case, first frame, end frame)] of a contiguous segmentation [(s, e, label)]: frame i (time i*fs,
    i < floor(T/fs)) carries the label of the segment with s <= i*fs < e"""
    T = max(e for _, e, _ in segs)
    n = int(T // fs)
    out = []
    for s, e, l in segs:
        lo, hi = max(0, int(ceil_div(s, fs))), min(n, int(ceil_div(e, fs)))
        if hi > lo:
            out.append((l.lower(), lo, hi))
    return out, n


def table_of_runs(rr, re_):
    """joint and marginal counts of two run lists covering the same frames"""
    nij, a, b = Counter(), Counter(), Counter()
    for l, lo, hi in rr:
        a[l] += hi - lo
    for l, lo, hi in re_:
        b[l] += hi - lo
    i = j = 0
    while i < len(rr) and j < len(re_):
        lo, hi = max(rr[i][1], re_[j][1]), min(rr[i][2], re_[j][2])
        if hi > lo:
            nij[(rr[i][0], re_[j][0])] += hi - lo
        if rr[i][2] <= re_[j][2]:
            i += 1
        else:
            j += 1
    return nij, a, b


def table_of(ref, est, fs):
    rr, n = runs_of(ref, fs)
    re_, m = runs_of(est, fs)
    if n != m or sum(hi - lo for _, lo, hi in rr) != n or sum(hi - lo for _, lo, hi in re_) != n:
        return None      # not two partitions of the same frames: outside this oracle
    nij, a, b = table_of_runs(rr, re_)
    return nij, a, b, n


def emi_by_ratios(a, b, n):
    """E[MI] under the permutation model: for every pair of cluster sizes the hypergeometric weights are built from
    their exact successive RATIOS around the mode and normalised by their own sum (the weight at k = 0 included), so
    neither factorials nor log-gamma are needed and 200 000 frames cost a few thousand steps"""
    tot = []
    for ai in a.values():
        for bj in b.values():
            lo, hi = max(0, ai + bj - n), min(ai, bj)
            mode = min(hi, max(lo, ((ai + 1) * (bj + 1)) // (n + 2)))
            ws = [(mode, 1.0)]
            w, k = 1.0, mode
            while k < hi and w > 1e-45:
                w *= (ai - k) * (bj - k) / ((k + 1) * (n - ai - bj + k + 1))
                k += 1
                ws.append((k, w))
            w, k = 1.0, mode
            while k > lo and w > 1e-45:
                w *= k * (n - ai - bj + k) / ((ai - k + 1) * (bj - k + 1))
                k -= 1
                ws.append((k, w))
            z = math.fsum(w for _, w in ws)
            tot.append(math.fsum((k / n) * math.log((n * k) / (ai * bj)) * w for k, w in ws if k >= 1) / z)
    return math.fsum(tot)


def nce_of(nij, a, b, n, marginal):
    """(over, under) as in props/c16._tb_nce, from the counts"""
    h_ref_given_est = P.tb_cond_entropy_bits(nij, b, n)
    h_est_given_ref = P.tb_cond_entropy_bits({(j, i): v for (i, j), v in nij.items()}, a, n)
    if marginal:
        z_ref = P.tb_entropy(a.values(), n) / math.log(2)
        z_est = P.tb_entropy(b.values(), n) / math.log(2)
    else:
        z_ref, z_est = math.log2(len(a)), math.log2(len(b))
    under = 1.0 - h_ref_given_est / z_ref if len(a) > 1 else 0.0
    over = 1.0 - h_est_given_ref / z_est if len(b) > 1 else 0.0
    return over, under


def expected_entries(nij, a, b, n, beta, keys, large=False):
    """{entry name: (textbook value, tolerance)} for those of `keys` that are well defined on this table"""
    out = {}
    c2 = P.c2
    if any(k in keys for k in PAIRWISE + ["Rand Index", "Adjusted Rand Index"]):
        s, sa, sb, n2 = (sum(c2(v) for v in nij.values()), sum(c2(v) for v in a.values()),
                         sum(c2(v) for v in b.values()), c2(n))
        if sa and sb:
            p, r = Fr(s, sb), Fr(s, sa)
            out["Pairwise Precision"], out["Pairwise Recall"] = (float(p), 1e-9), (float(r), 1e-9)
            out["Pairwise F-measure"] = (float(P._fm(p, r, beta)), 1e-9)
        if n2:
            out["Rand Index"] = (float(Fr(n2 + 2 * s - sa - sb, n2)), 1e-9)
        if n2 == 0 or Fr(sa + sb, 2) - Fr(sa * sb, n2) == 0:
            out["Adjusted Rand Index"] = (1.0, 1e-9)
        else:
            prod = Fr(sa * sb, n2)
            out["Adjusted Rand Index"] = (float((s - prod) / (Fr(sa + sb, 2) - prod)), 1e-9)
    if any(k in keys for k in MI3):
        mi = P.tb_mi(nij, a, b, n)
        hr, he = P.tb_entropy(a.values(), n), P.tb_entropy(b.values(), n)
        out["Mutual Information"] = (mi, 1e-9)
        if len(a) == 1 and len(b) == 1:
            out["Adjusted Mutual Information"] = out["Normalized Mutual Information"] = (1.0, 0.0)
        else:
            if len(a) > 1 and len(b) > 1:
                out["Normalized Mutual Information"] = (mi / math.sqrt(hr * he), 1e-9)
            emi = emi_by_ratios(a, b, n) if large else P.tb_emi(a, b, n)
            den = max(hr, he) - emi
            if abs(den) > 1e-6:
                out["Adjusted Mutual Information"] = ((mi - emi) / den, 1e-9 + 1e-15 / abs(den))
    for names, marginal in ((NCE3, False), (V3, True)):
        if any(k in keys for k in names):
            over, under = nce_of(nij, a, b, n, marginal)
            out[names[0]], out[names[1]] = (over, 1e-9), (under, 1e-9)
            if abs(over) > 1e-7 or abs(under) > 1e-7:
                b2 = float(beta) ** 2
                out[names[2]] = ((1 + b2) * over * under / (b2 * over + under), 5e-9)
    return {k: v for k, v in out.items() if k in keys}


# ----------------------------------------------------------------------------------------
# one plain call of one public function -> its entries by name

def call_entries(fn, ref, est, fs, beta):
    ri, rl = P.to_arrays(ref)
    ei, el = P.to_arrays(est)
    f, b = float(fs), float(beta)
    if fn not in FN_KEYS:
        raise ValueError(fn)
    try:
        if fn == "evaluate":
            got = S.evaluate(ri, rl, ei, el, frame_size=f, beta=b)
            return {k: got[k] for k in FN_KEYS[fn] if k in got}, [k for k in FN_KEYS[fn] if k not in got]
        if fn == "pairwise":
            got = S.pairwise(ri, rl, ei, el, frame_size=f, beta=b)
        elif fn == "rand_index":
            got = (S.rand_index(ri, rl, ei, el, frame_size=f),)
        elif fn == "ari":
            got = (S.ari(ri, rl, ei, el, frame_size=f),)
        elif fn == "mutual_information":
            got = S.mutual_information(ri, rl, ei, el, frame_size=f)
        elif fn == "nce":
            got = S.nce(ri, rl, ei, el, frame_size=f, beta=b)
        elif fn == "nce_marginal":
            got = S.nce(ri, rl, ei, el, frame_size=f, beta=b, marginal=True)
        else:
            got = S.vmeasure(ri, rl, ei, el, frame_size=f, beta=b)
    except Exception as e:  # noqa: BLE001 - the code under test raised on a valid input
        raise P.ImplRaised("%s raised %s: %s" % (fn, type(e).__name__, e))
    keys = FN_KEYS[fn]
    if not isinstance(got, tuple) or len(got) != len(keys):
        raise P.ImplRaised("%s returned %r, expected %d value(s)" % (fn, got, len(keys)))
    return dict(zip(keys, got)), []


def compare(fn, got, missing, want):
    if missing:
        return "%s: entries %r are missing" % (fn, missing)
    # (the adjusted MI last: its failure at scale is a known finding and must not hide the entries after it)
    for k, (w, tol) in sorted(want.items(), key=lambda kv: kv[0] == "Adjusted Mutual Information"):
        try:
            g = float(got[k])
        except (TypeError, ValueError):
            return "%s[%r] = %r is not a number" % (fn, k, got[k])
        if math.isnan(g) or abs(g - w) > tol * max(1.0, abs(w)):
            return "%s[%r] = %r, the textbook value on the contingency table of the frame labels is %r" % (fn, k, g, w)
    return None


def call_helper(step):
    """a plain call of a public helper the metrics are built on, between two metric calls (frame-centre or phase-shifted
    sampling, label indexing, boundaries).  Its own result is checked by C13; here it only has to have happened: whatever
    it leaves behind in the library must not reach the next metric call"""
    U = S.util
    ref, _, fs, _ = P._parse(dict(step, est=step["ref"], beta="1"))
    iv, labs = P.to_arrays(ref)
    fn = step["fn"]
    try:
        if fn == "util:intervals_to_samples":
            U.intervals_to_samples(iv, labs, offset=float(Fr(step["offset"])), sample_size=float(fs))
        elif fn == "util:index_labels":
            U.index_labels(labs)
        elif fn == "util:intervals_to_boundaries":
            U.intervals_to_boundaries(iv)
        elif fn == "util:adjust_intervals":
            U.adjust_intervals(iv, labs, t_min=float(Fr(step["offset"])), t_max=float(iv.max()) + float(fs))
        else:
            raise ValueError(fn)
    except Exception as e:  # noqa: BLE001
        raise P.ImplRaised("%s raised %s: %s" % (fn, type(e).__name__, e))
    return None


def check_call(step, large=False):
    if step.get("fn", "").startswith("util:"):
        return call_helper(step)
    ref, est, fs, beta = P._parse(step)
    fn = step.get("fn", "evaluate")
    if not ref or not est:
        return None
    t = table_of(ref, est, fs)
    if t is None or t[3] == 0:
        return None
    nij, a, b, n = t
    want = expected_entries(nij, a, b, n, beta, FN_KEYS[fn], large)
    got, missing = call_entries(fn, ref, est, fs, beta)
    return compare(fn, got, missing, want)


def reset_library():
    """module-level state of the code under test as after a fresh import (the sequence replays from the input alone)"""
    import sys
    for name in ("mir_eval.util", "mir_eval.segment"):
        if name in sys.modules:
            importlib.reload(sys.modules[name])


def check_sequence(inp):
    reset_library()
    calls = inp["calls"]
    for k, step in enumerate(calls):
        what = check_call(step)
        if what:
            return "call %d of %d in one process (module state reset before call 1; %s): %s" % (
                k + 1, len(calls), inp.get("kind", ""), what)
    return None


def check_evaluate(inp):
    return check_call(dict(inp, fn="evaluate"))


# ----------------------------------------------------------------------------------------
# generators: sequences

NAMES = ["verse", "Chorus", "bridge", "Intro", "outro", "solo", "a", "B", "c", "D", "e", "Z", "none", "x1", "X2", "w"]


def compositions(rng, n, k):
    """k positive cluster sizes summing to n"""
    cuts = sorted(rng.sample(range(1, n), k - 1)) if k > 1 else []
    return [b - a for a, b in zip([0] + cuts, cuts + [n])]


def colliding_sizes(rng, kind):
    """two lists of cluster sizes with the same total that coincide under the summary named by `kind`"""
    if kind == "size-set":
        # sizes {p, q} (+ the same extra sizes on both): multiplicities (m1 + q, m2) and (m1, m2 + p)
        p, q = rng.choice([(1, 2), (1, 3), (2, 3), (1, 4), (3, 4), (2, 5), (3, 5)])
        m1, m2 = rng.randint(1, 2), rng.randint(1, 2)
        extra = [rng.choice([p, q]) for _ in range(rng.choice([0, 0, 1]))]
        return [p] * (m1 + q) + [q] * m2 + extra, [p] * m1 + [q] * (m2 + p) + extra
    n = rng.randint(6, 30)
    if kind == "multiset":
        a = compositions(rng, n, rng.randint(2, min(5, n)))
        return a, list(a)
    if kind == "count":
        k = rng.randint(2, min(5, n // 2))
        return compositions(rng, n, k), compositions(rng, n, k)
    return compositions(rng, n, rng.randint(1, min(6, n))), compositions(rng, n, rng.randint(1, min(6, n)))


def frames_with_sizes(rng, sizes):
    """a frame-label sequence (cluster numbers) with the given cluster sizes, clusters split into several runs"""
    order = list(range(len(sizes)))
    rng.shuffle(order)
    seq = [c for c in order for _ in range(sizes[c])]
    u = rng.random()
    if u < 0.35:
        return seq
    if u < 0.8:
        cuts = sorted(rng.sample(range(1, len(seq)), min(len(seq) - 1, rng.randint(1, 5)))) if len(seq) > 1 else []
        blocks = [seq[a:b] for a, b in zip([0] + cuts, cuts + [len(seq)])]
        rng.shuffle(blocks)
        return [c for blk in blocks for c in blk]
    rng.shuffle(seq)
    return seq


def segs_of_frames(rng, seq, names, fs):
    """run-length encoding as labelled segments on the frame grid (a label's case varies between its segments)"""
    out, i = [], 0
    while i < len(seq):
        j = i
        while j < len(seq) and seq[j] == seq[i]:
            j += 1
        if j - i > 1 and rng.random() < 0.2:
            j = rng.randint(i + 1, j - 1)          # the same label continued by a second segment
        nm = names[seq[i]]
        out.append((i * fs, j * fs, nm.swapcase() if rng.random() < 0.25 else nm))
        i = j
    return out


def jsegs(segs):
    return [[str(s), str(e), l] for s, e, l in segs]


def gen_sequence_input(rng):
    fs = rng.choice([Fr(1, 4), Fr(1, 2), Fr(1), Fr(1), Fr(2)])
    beta = rng.choice([Fr(1), Fr(1), Fr(1, 2), Fr(2)])
    kind = rng.choice(["size-set", "size-set", "size-set", "multiset", "multiset", "count", "n",
                       "same-intervals", "same-labels", "frame-size"])
    u = rng.random()
    fns = ["mutual_information" if u < 0.45 else "evaluate" if u < 0.75 else
           rng.choice(["ari", "nce", "nce_marginal", "vmeasure", "pairwise", "rand_index"])] * 4
    if rng.random() < 0.25:
        fns = [rng.choice(list(FN_KEYS)) for _ in range(4)]
    rnames, enames = rng.sample(NAMES, len(NAMES)), rng.sample(NAMES, len(NAMES))
    anns = []      # (ref, est, fs) per call
    if kind in ("size-set", "multiset", "count", "n"):
        x1, x2 = colliding_sizes(rng, kind)
        n = sum(x1)
        other = compositions(rng, n, rng.randint(1, min(4, n)))
        if rng.random() < 0.3:
            other = rng.choice([x1, x2])
        fixed = segs_of_frames(rng, frames_with_sizes(rng, other), enames, fs)
        v1 = segs_of_frames(rng, frames_with_sizes(rng, x1), rnames, fs)
        v2 = segs_of_frames(rng, frames_with_sizes(rng, x2), rnames, fs)
        side = rng.choice(["ref", "est", "both"])
        if side == "both":
            y1, y2 = colliding_sizes(rng, kind)
            if sum(y1) != n:
                y1, y2 = x2, x1
            w1 = segs_of_frames(rng, frames_with_sizes(rng, y1), enames, fs)
            w2 = segs_of_frames(rng, frames_with_sizes(rng, y2), enames, fs)
            pairs = [(v1, w1), (v2, w2), (v1, w2), (v2, w1)]
        elif side == "ref":
            pairs = [(v1, fixed), (v2, fixed), (v1, fixed), (v2, fixed)]
        else:
            pairs = [(fixed, v1), (fixed, v2), (fixed, v1), (fixed, v2)]
        anns = [(r, e, fs) for r, e in pairs]
        kind += "/" + side
    else:
        n = rng.randint(6, 24)
        ref = segs_of_frames(rng, frames_with_sizes(rng, compositions(rng, n, rng.randint(2, min(5, n)))), rnames, fs)
        est = segs_of_frames(rng, frames_with_sizes(rng, compositions(rng, n, rng.randint(1, min(4, n)))), enames, fs)
        if kind == "same-intervals":
            # the same rows with other labels (another partition of the same segments)
            ref2 = [(s, e, rng.choice(rnames[:3])) for s, e, _ in ref]
            est2 = [(s, e, rng.choice(enames[:2])) for s, e, _ in est]
            anns = [(ref, est, fs), (ref2, est, fs), (ref2, est2, fs), (ref, est2, fs)]
        elif kind == "same-labels":
            # the same label lists on other boundaries (same number of rows, same end)
            def moved(segs):
                k = len(segs)
                cuts = sorted(rng.sample(range(1, n), k - 1)) if k > 1 else []
                bs = [0] + cuts + [n]
                return [(bs[i] * fs, bs[i + 1] * fs, segs[i][2]) for i in range(k)]
            ref2, est2 = moved(ref), moved(est)
            anns = [(ref, est, fs), (ref2, est, fs), (ref2, est2, fs), (ref, est, fs)]
        else:
            # the same annotation objects' values on another frame grid
            f2 = fs / 2 if rng.random() < 0.5 else fs * 2
            anns = [(ref, est, fs), (ref, est, f2), (ref, est, fs), (est, ref, f2)]
    k = rng.choice([2, 2, 3, 3, 4])
    calls = [{"fn": fns[i], "ref": jsegs(r), "est": jsegs(e), "frame_size": str(f), "beta": str(beta)}
             for i, (r, e, f) in enumerate(anns[:k])]
    if rng.random() < 0.4:
        # a public helper called on one of the annotations between (or before) the metric calls
        at = rng.randrange(0, len(calls))
        r, e, f = anns[at]
        h = rng.choice(["util:intervals_to_samples"] * 3 + ["util:index_labels", "util:intervals_to_boundaries",
                                                           "util:adjust_intervals"])
        calls.insert(at, {"fn": h, "ref": jsegs(rng.choice([r, e])), "frame_size": str(f),
                          "offset": str(f * rng.choice([Fr(1, 2), Fr(1), Fr(1), Fr(2), Fr(5, 4)]))})
        kind += "+helper"
    return {"kind": kind, "calls": calls}


def gen_sequences(rng, tier, shard, nshards, boost):
    n = (30 if tier == "quick" else 400) * boost
    for _ in range(n):
        yield gen_sequence_input(rng)


def gen_evaluate(rng, tier, shard, nshards, boost):
    for inp in P._oracle_gen("segment.evaluate")(rng, tier, shard, nshards, boost):
        yield inp


# ----------------------------------------------------------------------------------------
# large scale

SCALE_FNS = ["ari", "nce", "nce_marginal", "vmeasure", "mutual_information"]


def runs_of_index_runs(runs):
    out, pos = [], 0
    for v, c in runs:
        out.append((int(v), pos, pos + int(c)))
        pos += int(c)
    return out, pos


def check_scale(inp):
    if "ref_runs" in inp:
        return check_scale_direct(inp)
    for fn in inp.get("fns", SCALE_FNS):
        if fn not in SCALE_FNS:
            continue
        what = check_call(dict(inp, fn=fn), large=True)
        if what:
            return "%d frames: %s" % (int(max(Fr(e) for _, e, _ in inp["ref"]) // Fr(inp["frame_size"])), what)
    return None


def check_scale_direct(inp):
    """_contingency_matrix / _adjusted_rand_index on two index vectors given by their runs [(value, count)]"""
    rr, n = runs_of_index_runs(inp["ref_runs"])
    re_, m = runs_of_index_runs(inp["est_runs"])
    if n != m or n == 0:
        return None
    dt = np.dtype(inp.get("dtype", "int64"))
    yr = np.repeat(np.array([v for v, _ in inp["ref_runs"]], dtype=dt), [c for _, c in inp["ref_runs"]])
    ye = np.repeat(np.array([v for v, _ in inp["est_runs"]], dtype=dt), [c for _, c in inp["est_runs"]])
    nij, a, b = table_of_runs(rr, re_)
    try:
        c = S._contingency_matrix(yr, ye)
        ari = S._adjusted_rand_index(yr, ye)
    except Exception as e:  # noqa: BLE001
        return "%d frames: the index-vector helpers raised %s: %s" % (n, type(e).__name__, e)
    rows, cols = sorted(a), sorted(b)
    want = [[nij.get((i, j), 0) for j in cols] for i in rows]
    c = np.asarray(c)
    if c.shape != (len(rows), len(cols)) or [[int(x) for x in row] for row in c.tolist()] != want:
        return "%d frames: _contingency_matrix returned %r, the joint counts are %r" % (n, c.tolist(), want)
    w = expected_entries(nij, a, b, n, Fr(1), ["Adjusted Rand Index"])["Adjusted Rand Index"][0]
    if math.isnan(float(ari)) or abs(float(ari) - w) > 1e-9:
        return "%d frames: _adjusted_rand_index = %r, Hubert-Arabie on the exact pair counts gives %r" % (n, float(ari), w)
    return None


def big_annotation(rng, nframes, fs, names, dominant):
    """a contiguous segmentation of nframes frames whose label names[0] covers about `dominant` of the time (one long
    section or two), the rest in a few short sections; boundaries on the frame grid"""
    k = rng.randint(1, 4)
    rest = max(k, int(nframes * (1 - dominant)))
    small = compositions(rng, rest, k)
    big = nframes - rest
    parts = [(names[0], big)] if rng.random() < 0.6 else [(names[0], big - big // 3), (names[0], big // 3)]
    smalls = [(names[1 + rng.randrange(len(names) - 1)], c) for c in small]
    seq = parts + smalls
    rng.shuffle(seq)
    out, pos = [], 0
    for nm, c in seq:
        out.append((pos * fs, (pos + c) * fs, nm))
        pos += c
    return out


def scale_n(rng, dr, de, sure):
    """50 000 .. 200 000 frames; with `sure`, enough of them for the cell shared by the two dominant labels (at least
    n * (dr + de - 1) frames) to exceed 47 000 (n * (n - 1) no longer fits 32 bits)"""
    n = rng.randint(50000, 200000)
    if sure and n * (dr + de - 1) < 47000:
        n = int(47000 / (dr + de - 1)) + rng.randint(1, 2000)
    return n


def gen_scale_input(rng, tier, sure=True):
    fs = rng.choice([Fr(1, 64), Fr(1, 128), Fr(1, 256)])
    if sure or rng.random() < 0.6:
        # one label dominates both sides (the expected-MI loop of the code stays short)
        dr, de = rng.uniform(0.8, 0.97), rng.uniform(0.8, 0.97)
    else:
        dr, de = rng.uniform(0.4, 0.7), rng.uniform(0.4, 0.7)     # balanced: every function does real work
    nframes = scale_n(rng, dr, de, sure) // 8 * 8 + 8             # T = nframes * fs on the 1/32 s lattice
    ref = big_annotation(rng, nframes, fs, ["Verse", "chorus", "bridge", "OUTRO"], dr)
    est = big_annotation(rng, nframes, fs, ["a", "B", "c"], de)
    if rng.random() < 0.25:
        est = [(s, e, "q" + l.lower()) for s, e, l in ref]          # the same partition under other names: ARI = 1
    return {"ref": jsegs(ref), "est": jsegs(est), "frame_size": str(fs),
            "beta": str(rng.choice([Fr(1), Fr(1, 2), Fr(2)])), "fns": list(SCALE_FNS)}


def gen_scale_moderate(rng):
    """50 000 .. 90 000 frames in 3-4 sections per side, every section shorter than 46 000 frames: large, but no product
    of two cluster sizes reaches 2^31 (outside the known finding segment_ami_cluster_size_product_int32, so the adjusted
    MI is compared at scale as well)"""
    fs = rng.choice([Fr(1, 64), Fr(1, 128), Fr(1, 256)])
    n = rng.randint(50000, 90000) // 8 * 8

    def side(names):
        while True:
            sizes = compositions(rng, n // 8, rng.randint(3, 4))
            if max(sizes) * 8 < 46000:
                break
        out, pos = [], 0
        for k, c in enumerate(sizes):
            out.append((pos * fs, (pos + 8 * c) * fs, names[k]))
            pos += 8 * c
        return out
    return {"ref": jsegs(side(["Verse", "chorus", "bridge", "OUTRO"])), "est": jsegs(side(["a", "B", "c", "d"])),
            "frame_size": str(fs), "beta": "1", "fns": list(SCALE_FNS)}


def gen_scale_direct(rng, sure=True):
    vals = rng.sample(range(0, 40), 6)
    dr, de = (rng.uniform(0.8, 0.97), rng.uniform(0.8, 0.97)) if sure else (rng.uniform(0.4, 0.97), rng.uniform(0.4, 0.97))
    n = scale_n(rng, dr, de, sure)

    def side(dominant):
        k = rng.randint(1, 4)
        rest = max(k, int(n * (1 - dominant)))
        runs = [(vals[0], n - rest)] + [(rng.choice(vals[1:]), c) for c in compositions(rng, rest, k)]
        rng.shuffle(runs)
        return [[v, c] for v, c in runs]
    ref = side(dr)
    est = [[v + 3, c] for v, c in ref] if rng.random() < 0.3 else side(de)
    return {"ref_runs": ref, "est_runs": est, "dtype": rng.choice(["int64", "int64", "int32"])}


def gen_scale(rng, tier, shard, nshards, boost):
    if tier == "quick":
        # three inputs per run in all (shard 0: through the public functions, shard 1: the index helpers, shard 2: large
        # without a huge section); every shard contributes when the search is boosted
        if shard == 0 or boost > 1:
            yield gen_scale_input(rng, tier)
        if shard == 1 or boost > 1:
            yield gen_scale_direct(rng)
        if shard == 2:
            yield gen_scale_moderate(rng)
        return
    for k in range(2 * boost):
        yield gen_scale_input(rng, tier, sure=(k == 0))
        yield gen_scale_direct(rng, sure=(k == 0))
    yield gen_scale_moderate(rng)


CHECKERS = {"segment.evaluate": P._guard(check_evaluate), "segment.sequence": P._guard(check_sequence),
            "segment.scale": P._guard(check_scale)}
ORACLES = {"segment.evaluate": gen_evaluate, "segment.sequence": gen_sequences, "segment.scale": gen_scale}
