"""C17 - hierarchy T-/L-measures equal the triplet-ranking definition.

Correspondence (model `MirModel/Hierarchy.lean` vs the real `mir_eval.hierarchy`) on the exact lattice:
times are multiples of 1/32 s, frame sizes 1/4, 1/2, 1, windows {None, fs, 2 fs, 15}, 1-4 levels,
nested and not, spans 1-8 s, beta in {1/2, 1, 2}.  The oracle recomputes T-/L- precision and recall by
brute-force triple enumeration from the definition (exact `Fraction`s, no LCA matrix, no sorting) and
compares them with what the real functions return.
"""
import itertools
import math
from fractions import Fraction as Fr

import numpy as np
import scipy.sparse

import mir_eval
import mir_eval.hierarchy as H

from core import Case

PID = "C17"
LEAN_MODULES = ["MirProofs.Props.C17", "MirProofs.Props.C02_Hierarchy", "MirProofs.Props.C08_Hierarchy",
                "MirProofs.Props.C12_Hierarchy", "MirProofs.Props.C17_Gen"]
# the T-/L-measure kernels are REGENERATED from mir_eval/hierarchy.py on every run (translator part `hierarchy` ->
# lean/MirGen/Hierarchy.lean) and proved equal to the hand model (Props/C17_Gen.lean); suite `gen_hierarchy` runs the
# GENERATED definitions (driver op `gen.hierarchy`) against the real functions
TRANSLATOR_PARTS = ["hierarchy"]
RULE = ("stream E: boundaries on the 1/32 s lattice (half of the cases snapped to the frame grid), 1-4 levels, "
        "nested or independent, common span 1-8 s, frame_size in {1/4,1/2,1}, window in {None,fs,2fs,15}, both "
        "transitive settings, beta in {1/2,1,2}; non-trivial = at least one query frame has a reference triple "
        "(score path) or the input is a designated fault; thorough tier enumerates _count_inversions over all "
        "lists of length <= 3 on {0,1,2} and _compare_frame_rankings over all aligned lists of length <= 4 on "
        "{0,1,2}")
ASSUMPTIONS = [
    "binary64 arithmetic agrees with the rational model to 1e-9 (sums of <= 32 quotients, one division)",
    "the result window of query q is the half-open frame range [q-w, q+w) minus q, w = floor(window/frame_size), "
    "as the code slices it",
    "a frame belongs to the segment that contains its right end point (s < (f+1)*fs <= e), which is what "
    "int(_round(t,fs)/fs) slicing implements for partitions",
    "labels are compared case-insensitively (util.index_labels default); ASCII labels only",
    "argsort's order inside one reference level is immaterial (proved: _count_inversions depends on multisets)",
]
UNPROVED = [
    "hierarchy.evaluate is modelled (alignment via util.adjust_intervals, 9 keys in order) and compared value for "
    "value; the only theorem about it is C08_Hierarchy.evaluate_T_ignores_labels (its six T entries do not depend "
    "on label contents); that it is the documented bundle is C03's subject",
    "relational theorems (C02_Hierarchy: self-score (1,1,1)/(0,0,0) by the decidable predicate hasRefTriple, which "
    "tmeasure_self_iff / lmeasure_self_iff restate on the input: (1,1,1) iff some query frame has two other frames in "
    "its window whose LCA / meet depths with it (lcaSpec / meetSpec: deepest level sharing a segment / a label) are "
    "related, with segment- and label-level sufficient conditions tmeasure_self_of_split / lmeasure_self_of_split; "
    "C08_Hierarchy: label renaming; C12_Hierarchy: segment splitting) are proved; the depths are over the exact "
    "rational frame indices floor(t / frame_size), binary64 frame rounding is compared, not proved",
    "util.adjust_intervals / validate_hier_intervals on malformed input: modelled and compared, no theorem "
    "(C13 / C14's subjects); validation of VALID annotations is proved (tmeasure_total_partial)",
]
EXHAUSTIVE = {"quick": False, "thorough": True}

FRAME_SIZES = [Fr(1, 4), Fr(1, 2), Fr(1)]
BETAS = [Fr(1, 2), Fr(1), Fr(2)]
LABELS = ["a", "b", "c", "A", "B", "verse", "Verse", "x"]


# ------------------------------------------------------------------------------------------------
# generators

def _window_choices(fs):
    return [None, fs, 2 * fs, Fr(15)]


def _cuts(rng, span, k, grid):
    """k distinct interior cut points of (0, span) on the lattice `grid`."""
    m = int(span / grid)
    if m <= 1:
        return []
    k = min(k, m - 1)
    return sorted(grid * i for i in rng.sample(range(1, m), k))


def _to_intervals(span, cuts):
    pts = [Fr(0)] + list(cuts) + [span]
    return [[a, b] for a, b in zip(pts[:-1], pts[1:])]


def gen_hier(rng, span, fs, nlevels=None, nested=None, aligned=None):
    """A valid hierarchy: every level partitions [0, span]."""
    if nlevels is None:
        nlevels = rng.randint(1, 4)
    if nested is None:
        nested = rng.random() < 0.5
    if aligned is None:
        aligned = rng.random() < 0.5
    grid = fs if aligned else Fr(1, 32)
    levels, cuts = [], []
    for lv in range(nlevels):
        extra = _cuts(rng, span, rng.randint(0 if lv == 0 else 1, 2 + lv), grid)
        if nested:
            cuts = sorted(set(cuts) | set(extra))
        else:
            cuts = extra
        levels.append(_to_intervals(span, cuts))
    return levels


def gen_labels(rng, hier, small=None):
    pool = LABELS[:rng.randint(1, len(LABELS))] if small is None else LABELS[:small]
    return [[rng.choice(pool) for _ in lv] for lv in hier]


def gen_span(rng):
    r = rng.random()
    if r < 0.7:
        return Fr(rng.randint(1, 8))
    return Fr(rng.randint(32, 256), 32)


def gen_params(rng):
    fs = rng.choice(FRAME_SIZES)
    return fs, rng.choice(_window_choices(fs)), rng.random() < 0.5, rng.choice(BETAS)


def arr(level):
    if len(level) == 0:
        return np.zeros((0, 2))
    return np.array([[float(a), float(b)] for a, b in level])


def arrs(hier):
    return [arr(lv) for lv in hier]


def fl(x):
    return None if x is None else float(x)


def nframes(hier, fs):
    bs = [x for lv in hier for iv in lv for x in iv]
    if not bs:
        return None
    return math.floor(Fr(max(bs)) / Fr(fs)) - math.floor(Fr(min(bs)) / Fr(fs))


# ------------------------------------------------------------------------------------------------
# correspondence suites

def _small_list(rng, maxlen=8, maxval=4):
    return [rng.randint(0, maxval) for _ in range(rng.randint(0, maxlen))]


def suite_count_inversions(rng, tier, shard, nshards):
    n = 200 if tier == "quick" else 2000
    for _ in range(n):
        a, b = _small_list(rng, 9, 5), _small_list(rng, 9, 5)
        yield Case("hierarchy._count_inversions", [a, b],
                   lambda a=a, b=b: H._count_inversions(np.array(a, dtype=int), np.array(b, dtype=int)),
                   tag="len=%d,%d" % (min(len(a), 4), min(len(b), 4)), info={"a": a, "b": b},
                   nontrivial=bool(a and b))
    if tier == "thorough":
        lists = [list(t) for k in range(4) for t in itertools.product(range(3), repeat=k)]
        for idx, (a, b) in enumerate(itertools.product(lists, lists)):
            if idx % nshards != shard:
                continue
            yield Case("hierarchy._count_inversions", [a, b],
                       lambda a=a, b=b: H._count_inversions(np.array(a, dtype=int), np.array(b, dtype=int)),
                       tag="exhaustive", info={"a": a, "b": b}, nontrivial=bool(a and b))


def _cfr_case(ref, est, tr, dtype, tag):
    return Case("hierarchy._compare_frame_rankings", [ref, est, tr],
                lambda: H._compare_frame_rankings(np.array(ref, dtype=dtype), np.array(est, dtype=dtype),
                                                  transitive=tr),
                tag=tag, info={"ref": ref, "est": est, "transitive": tr},
                nontrivial=len(set(ref)) > 1)


def suite_compare_frame_rankings(rng, tier, shard, nshards):
    n = 300 if tier == "quick" else 2500
    for _ in range(n):
        ref = _small_list(rng, 9, 4)
        r = rng.random()
        if r < 0.8:
            est = [rng.randint(0, 4) for _ in ref]
            tag = "aligned"
        elif r < 0.9:
            est = [rng.randint(0, 4) for _ in ref] + _small_list(rng, 3, 4)
            tag = "est-longer"
        else:
            est = [rng.randint(0, 4) for _ in ref][:max(0, len(ref) - rng.randint(1, 2))]
            tag = "est-shorter"
        if rng.random() < 0.3:   # gaps between levels exercise the defaultdict path of the reduced mode
            ref = [2 * x for x in ref]
        tr = rng.random() < 0.5
        yield _cfr_case(ref, est, tr, rng.choice([int, np.uint8]), "%s,tr=%s" % (tag, tr))
    if tier == "thorough":
        idx = 0
        for k in range(5):
            for ref in itertools.product(range(3), repeat=k):
                for est in itertools.product(range(3), repeat=k):
                    for tr in (False, True):
                        idx += 1
                        if idx % nshards != shard:
                            continue
                        yield _cfr_case(list(ref), list(est), tr, np.uint8, "exhaustive")


def _rand_matrix(rng, n, sym, maxval):
    m = [[rng.randint(0, maxval) for _ in range(n)] for _ in range(n)]
    if sym:
        for i in range(n):
            for j in range(i):
                m[i][j] = m[j][i]
    return m


def _csr(m):
    n = len(m)
    return scipy.sparse.csr_matrix(np.array(m, dtype=np.uint8).reshape(n, n))


def suite_gauc(rng, tier, shard, nshards):
    n_cases = 120 if tier == "quick" else 1200
    for k in range(n_cases):
        n = rng.choice([0, 1, 2, 2, 3, 3, 4, 5, 6, 8, 10])
        sym = rng.random() < 0.5
        maxval = rng.randint(1, 4)
        r, e = _rand_matrix(rng, n, sym, maxval), _rand_matrix(rng, n, sym, maxval)
        if rng.random() < 0.05:
            e = _rand_matrix(rng, n + 1, sym, maxval)  # shape mismatch -> ValueError
        w = rng.choice([None, 1, 2, 3, n, n + 3])
        tr = rng.random() < 0.5
        spec = (k % 2 == 1) and len(e) == n
        # odd cases tie the Layer-S definition (Lean `gaucSpec`) to the real `_gauc` directly
        yield Case("hierarchy.gauc_spec" if spec else "hierarchy._gauc", [r, e, tr, w],
                   lambda r=r, e=e, tr=tr, w=w: H._gauc(_csr(r), _csr(e), tr, w),
                   tag="%s,n=%d,w=%s" % ("spec" if spec else "model", min(n, 4), w if w is None else min(w, 4)),
                   info={"ref": r, "est": e, "transitive": tr, "window": w}, nontrivial=n >= 3)


def suite_lca(rng, tier, shard, nshards):
    n = 60 if tier == "quick" else 800
    for _ in range(n):
        fs = rng.choice(FRAME_SIZES)
        hier = gen_hier(rng, gen_span(rng), fs)
        if rng.random() < 0.1:      # one-level hierarchies are never validated: offset start is reachable
            off = Fr(rng.randint(1, 64), 32)
            hier = [[[a + off, b + off] for a, b in hier[0]]]
        yield Case("hierarchy._lca", [hier, fs],
                   lambda hier=hier, fs=fs: H._lca(arrs(hier), float(fs)).toarray(),
                   tag="levels=%d,fs=%s" % (len(hier), fs), info={"hier": hier, "fs": fs})


def suite_meet(rng, tier, shard, nshards):
    n = 60 if tier == "quick" else 800
    for _ in range(n):
        fs = rng.choice(FRAME_SIZES)
        hier = gen_hier(rng, gen_span(rng), fs)
        labels = gen_labels(rng, hier)
        r = rng.random()
        tag = "ok"
        if r < 0.06:
            labels = labels[:-1]
            tag = "fewer-label-levels"
        elif r < 0.12:
            k = rng.randrange(len(labels))
            labels[k] = labels[k][:-1]
            tag = "short-labels"
        elif r < 0.18:
            k = rng.randrange(len(labels))
            labels[k] = labels[k] + ["a"]
            tag = "long-labels"
        yield Case("hierarchy._meet", [hier, labels, fs],
                   lambda hier=hier, labels=labels, fs=fs: H._meet(arrs(hier), labels, float(fs)).toarray(),
                   tag="%s,levels=%d" % (tag, len(hier)), info={"hier": hier, "labels": labels, "fs": fs})


def _break_hier(rng, hier):
    """One structural fault (or none): returns (hier, tag)."""
    hier = [[list(iv) for iv in lv] for lv in hier]
    r = rng.random()
    k = rng.randrange(len(hier))
    if r < 0.35:
        return hier, "valid"
    if r < 0.5:
        hier[k][-1][1] += Fr(rng.randint(1, 64), 32)
        return hier, "end-mismatch"
    if r < 0.6:
        hier[k][0][0] += Fr(1, 32)
        return hier, "start-not-0"
    if r < 0.7:
        hier[k][0] = [hier[k][0][1], hier[k][0][0]]
        return hier, "negative-duration"
    if r < 0.8:
        hier[k][0][0] = Fr(-1, 32)
        return hier, "negative-time"
    if r < 0.9:
        hier[k] = []
        return hier, "empty-level"
    return [], "no-levels"


def suite_validate(rng, tier, shard, nshards):
    n = 60 if tier == "quick" else 800
    for _ in range(n):
        fs = rng.choice(FRAME_SIZES)
        hier, tag = _break_hier(rng, gen_hier(rng, gen_span(rng), fs))
        yield Case("hierarchy.validate_hier_intervals", [hier],
                   lambda hier=hier: H.validate_hier_intervals(arrs(hier)),
                   tag="%s,levels=%d" % (tag, len(hier)), info={"hier": hier})


def t_input(ref, est, tr, window, fs, beta):
    return {"ref": [[[float(a), float(b)] for a, b in lv] for lv in ref],
            "est": [[[float(a), float(b)] for a, b in lv] for lv in est],
            "transitive": bool(tr), "window": fl(window), "frame_size": float(fs), "beta": float(beta)}


def l_input(ref, rl, est, el, fs, beta):
    return {"ref": [[[float(a), float(b)] for a, b in lv] for lv in ref], "ref_labels": rl,
            "est": [[[float(a), float(b)] for a, b in lv] for lv in est], "est_labels": el,
            "frame_size": float(fs), "beta": float(beta)}


def call_t(inp):
    return H.tmeasure(arrs(inp["ref"]), arrs(inp["est"]), transitive=inp["transitive"], window=inp["window"],
                      frame_size=inp["frame_size"], beta=inp["beta"])


def call_l(inp):
    return H.lmeasure(arrs(inp["ref"]), [list(x) for x in inp["ref_labels"]],
                      arrs(inp["est"]), [list(x) for x in inp["est_labels"]],
                      frame_size=inp["frame_size"], beta=inp["beta"])


def _pair(rng, fs):
    span = gen_span(rng)
    ref = gen_hier(rng, span, fs)
    r = rng.random()
    if r < 0.1:
        est = [[list(iv) for iv in lv] for lv in ref]          # perfect estimate
    elif r < 0.2:
        est = gen_hier(rng, span, fs, nlevels=len(ref), nested=True)
    else:
        est = gen_hier(rng, span, fs)
    return span, ref, est


def suite_tmeasure(rng, tier, shard, nshards):
    n = 200 if tier == "quick" else 1500
    for _ in range(n):
        fs, window, tr, beta = gen_params(rng)
        span, ref, est = _pair(rng, fs)
        tag = "valid"
        if rng.random() < 0.08:
            est, tag = _break_hier(rng, est)
        inp = t_input(ref, est, tr, window, fs, beta)
        nf = nframes(ref, fs)
        yield Case("hierarchy.tmeasure", [ref, est, tr, window, fs, beta], lambda inp=inp: call_t(inp),
                   tag="%s,fs=%s,w=%s,tr=%s,L=%d/%d" % (tag, fs, window, tr, len(ref), len(est)), info=inp,
                   nontrivial=(nf is not None and nf >= 3 and len(ref) >= 1))


def suite_lmeasure(rng, tier, shard, nshards):
    n = 130 if tier == "quick" else 1200
    for _ in range(n):
        fs, _, _, beta = gen_params(rng)
        span, ref, est = _pair(rng, fs)
        rl, el = gen_labels(rng, ref), gen_labels(rng, est)
        tag = "valid"
        r = rng.random()
        if r < 0.05:
            est, tag = _break_hier(rng, est)
            el = gen_labels(rng, est)
        elif r < 0.09 and el:
            k = rng.randrange(len(el))
            el[k] = el[k][:-1]
            tag = "short-labels"
        elif r < 0.12 and el:
            k = rng.randrange(len(el))
            el[k] = el[k] + ["b"]
            tag = "long-labels"
        inp = l_input(ref, rl, est, el, fs, beta)
        nf = nframes(ref, fs)
        yield Case("hierarchy.lmeasure", [ref, rl, est, el, fs, beta], lambda inp=inp: call_l(inp),
                   tag="%s,fs=%s,L=%d/%d" % (tag, fs, len(ref), len(est)), info=inp,
                   nontrivial=(nf is not None and nf >= 3))


def suite_evaluate(rng, tier, shard, nshards):
    n = 50 if tier == "quick" else 500
    for _ in range(n):
        fs, window, _, beta = gen_params(rng)
        span, ref, est = _pair(rng, fs)
        tag = "same-span"
        r = rng.random()
        if r < 0.25:      # estimate ends early: padded with __T_MAX
            cut = Fr(rng.randint(1, int(span * 32) - 1), 32) if span * 32 > 1 else span
            est = [[[a, min(b, cut)] for a, b in lv if a < cut] for lv in est]
            tag = "est-short"
        elif r < 0.5:     # estimate runs past the reference end: cropped
            ext = Fr(rng.randint(1, 64), 32)
            est = [lv[:-1] + [[lv[-1][0], lv[-1][1] + ext]] for lv in est]
            tag = "est-long"
        elif r < 0.62:    # an extra estimate segment that only touches the crop range (starts exactly at the
            # reference end, or further out): dropped by util.adjust_intervals, never kept with zero length
            gap = rng.choice([Fr(0), Fr(0), Fr(rng.randint(1, 32), 32)])
            ext = Fr(rng.randint(1, 64), 32)
            est = [lv[:-1] + [[lv[-1][0], lv[-1][1] + gap]] + [[lv[-1][1] + gap, lv[-1][1] + gap + ext]] for lv in est]
            tag = "est-touch"
        elif r < 0.72:    # reference / estimate do not start at 0: padded with __T_MIN
            off = Fr(rng.randint(1, 16), 32)
            est = [[[a + off, b + off] for a, b in lv] for lv in est]
            tag = "est-offset"
        rl, el = gen_labels(rng, ref), gen_labels(rng, est)

        def call(ref=ref, rl=rl, est=est, el=el, window=window, fs=fs, beta=beta):
            return H.evaluate(arrs(ref), [list(x) for x in rl], arrs(est), [list(x) for x in el],
                              window=fl(window), frame_size=float(fs), beta=float(beta))
        yield Case("hierarchy.evaluate", [ref, rl, est, el, window, fs, beta], call,
                   tag="%s,fs=%s,w=%s" % (tag, fs, window),
                   info={"ref": ref, "ref_labels": rl, "est": est, "est_labels": el, "window": window,
                         "frame_size": fs, "beta": beta})


def _fault_params(rng):
    """(frame_size, window, tag): rejected parameter combinations and their accepted neighbours."""
    r = rng.random()
    if r < 0.2:
        return Fr(0), rng.choice([None, Fr(15)]), "fs=0"
    if r < 0.4:
        return -rng.choice(FRAME_SIZES), rng.choice([None, Fr(15)]), "fs<0"
    if r < 0.6:
        fs = rng.choice(FRAME_SIZES)
        return fs, fs - Fr(1, 32), "fs>window"
    if r < 0.7:
        fs = rng.choice(FRAME_SIZES)
        return fs, Fr(0), "window=0"
    if r < 0.8:
        fs = rng.choice(FRAME_SIZES)
        return fs, -fs, "window<0"
    if r < 0.9:
        fs = rng.choice(FRAME_SIZES)
        return fs, fs, "fs=window"           # accepted: the boundary of the rejection
    fs = rng.choice(FRAME_SIZES)
    return fs, fs + Fr(1, 32), "fs<window"  # accepted, window_frames = 1


def suite_faults(rng, tier, shard, nshards):
    n = 60 if tier == "quick" else 600
    for _ in range(n):
        fs, window, tag = _fault_params(rng)
        span, ref, est = _pair(rng, rng.choice(FRAME_SIZES))
        tr, beta = rng.random() < 0.5, rng.choice(BETAS)
        if rng.random() < 0.6:
            inp = t_input(ref, est, tr, window, fs, beta)
            yield Case("hierarchy.tmeasure", [ref, est, tr, window, fs, beta], lambda inp=inp: call_t(inp),
                       tag="t," + tag, info=inp)
        elif fs <= 0:
            rl, el = gen_labels(rng, ref), gen_labels(rng, est)
            inp = l_input(ref, rl, est, el, fs, beta)
            yield Case("hierarchy.lmeasure", [ref, rl, est, el, fs, beta], lambda inp=inp: call_l(inp),
                       tag="l," + tag, info=inp)


SUITES = {
    "count_inversions": suite_count_inversions,
    "compare_frame_rankings": suite_compare_frame_rankings,
    "gauc": suite_gauc,
    "lca": suite_lca,
    "meet": suite_meet,
    "validate": suite_validate,
    "tmeasure": suite_tmeasure,
    "lmeasure": suite_lmeasure,
    "evaluate": suite_evaluate,
    "faults": suite_faults,
}


# ------------------------------------------------------------------------------------------------
# the functions as REGENERATED from the source (driver op `gen.hierarchy`, lean/MirGen/Hierarchy.lean) vs the real
# functions: exercises the translator's own semantic assumptions (lean/MirModel/PyHier.lean: np.unique with counts /
# first indices, argsort + fancy indexing, defaultdicts of slices, itertools.combinations / tee, row slices of sparse
# matrices, the fuel of the while loop, ...)

def _retarget(case, fn, extra=()):
    """a case of a hand-model suite asked of the generated definition instead"""
    info = dict(case.info or {}, op="gen.hierarchy", fn=fn)
    return Case("gen.hierarchy", [fn] + list(case.args) + list(extra), case.call, tol=case.tol, tag="gen " + case.tag,
                info=info, nontrivial=case.nontrivial, post=case.post)


def suite_gen_hierarchy(rng, tier, shard, nshards):
    """exhaustive small rank vectors (all pairs of lists of length <= 2 (quick) / 3 (thorough) on {0,1,2} through
    _count_inversions, all aligned pairs + both transitive values through _compare_frame_rankings), random longer ones
    (gaps between levels, estimate longer / shorter), random matrices through _gauc (every window kind, shape
    mismatch), _round / _hierarchy_bounds / _lca / _meet on lattice time stamps and the hierarchy / label streams, tmeasure / lmeasure on the hierarchy streams incl. structural and parameter faults"""
    kmax = 2 if tier == "quick" else 3
    lists = [list(t) for k in range(kmax + 1) for t in itertools.product(range(3), repeat=k)]
    cases = []
    for a, b in itertools.product(lists, lists):
        cases.append(Case("gen.hierarchy", ["_count_inversions", a, b],
                          lambda a=a, b=b: H._count_inversions(np.array(a, dtype=int), np.array(b, dtype=int)),
                          tag="gen exhaustive _count_inversions", info={"fn": "_count_inversions", "a": a, "b": b},
                          nontrivial=bool(a and b)))
    for k in range(kmax + 2):
        for ref in itertools.product(range(3), repeat=k):
            for est in itertools.product(range(3), repeat=k):
                for tr in (False, True):
                    cases.append(_retarget(_cfr_case(list(ref), list(est), tr, np.uint8, "exhaustive"),
                                           "_compare_frame_rankings"))
    for k, c in enumerate(cases):
        if k % nshards == shard:
            yield c
    for k, c in enumerate(suite_count_inversions(rng, "quick", shard, nshards)):
        if tier != "quick" or k < 40:
            yield _retarget(c, "_count_inversions")
    for k, c in enumerate(suite_compare_frame_rankings(rng, "quick", shard, nshards)):
        if tier != "quick" or k < 60:
            yield _retarget(c, "_compare_frame_rankings")
    for k, c in enumerate(suite_gauc(rng, "quick", shard, nshards)):
        if c.op == "hierarchy._gauc" and (tier != "quick" or k < 60):
            yield _retarget(c, "_gauc")
    # stage 2: _round (numbers on the 1/32 s lattice incl. exact multiples of the frame size), _hierarchy_bounds (also no
    # levels / only empty levels -> ValueError), _lca on the hierarchy stream of suite `lca` (one-level offsets included)
    for _ in range(40 if tier == "quick" else 400):
        fs = rng.choice(FRAME_SIZES)
        t = Fr(rng.randint(0, 512), 32) if rng.random() < 0.7 else fs * rng.randint(0, 40)
        yield Case("gen.hierarchy", ["_round", t, fs], lambda t=t, fs=fs: H._round(float(t), float(fs)),
                   tag="gen _round fs=%s" % fs, info={"fn": "_round", "t": t, "fs": fs})
    for k in range(40 if tier == "quick" else 400):
        hier = gen_hier(rng, gen_span(rng), rng.choice(FRAME_SIZES))
        if k % 10 == 0:
            hier = [[] for _ in hier][:k % 3]        # no boundaries at all: min([]) raises
        elif k % 10 == 1:
            off = Fr(rng.randint(1, 64), 32)
            hier = [[[a + off, b + off] for a, b in lv] for lv in hier]
        yield Case("gen.hierarchy", ["_hierarchy_bounds", hier],
                   lambda hier=hier: tuple(float(x) for x in H._hierarchy_bounds(arrs(hier))),
                   tag="gen _hierarchy_bounds levels=%d" % len(hier), info={"fn": "_hierarchy_bounds", "hier": hier})
    for c in suite_lca(rng, tier, shard, nshards):
        yield _retarget(c, "_lca")
    for c in suite_meet(rng, tier, shard, nshards):      # incl. fewer label levels, shorter / longer label lists
        yield _retarget(c, "_meet")
    # stage 3: the public functions on the existing hierarchy streams (valid pairs, structural faults, parameter faults)
    for k, c in enumerate(suite_tmeasure(rng, "quick", shard, nshards)):
        if tier != "quick" or k < 80:
            yield _retarget(c, "tmeasure")
    for k, c in enumerate(suite_lmeasure(rng, "quick", shard, nshards)):
        if tier != "quick" or k < 50:
            yield _retarget(c, "lmeasure")
    for k, c in enumerate(suite_faults(rng, "quick", shard, nshards)):
        if tier != "quick" or k < 30:
            yield _retarget(c, "tmeasure" if c.op == "hierarchy.tmeasure" else "lmeasure")


SUITES["gen_hierarchy"] = suite_gen_hierarchy

# stream F: excerpts of the two-level hierarchy fixture files (and flat segment files as one-level hierarchies)
from suites import fixtures as _FX  # noqa: E402
if "hierarchy" in _FX.SUITES:
    SUITES["fixtures.hierarchy"] = _FX.SUITES["hierarchy"]
RULE += "; " + _FX.RULE_NOTE


# ------------------------------------------------------------------------------------------------
# the property itself, from the definition, on the real functions

def _frac_hier(h):
    return [[(Fr(a), Fr(b)) for a, b in lv] for lv in h]


def _segment_of(level, t):
    """index of the segment (s, e] containing the instant t, else None"""
    for k, (s, e) in enumerate(level):
        if s < t <= e:
            return k
    return None


def depth_matrix(hier, fs, labels=None):
    """D[q][i] = deepest level (1-based) at which frames q and i lie in one segment (labels None) or in
    segments carrying the same label; 0 when there is none.  Straight from the definition."""
    bs = [x for lv in hier for iv in lv for x in iv]
    n = math.floor(max(bs) / fs) - math.floor(min(bs) / fs)
    seg = [[_segment_of(lv, (f + 1) * fs) for f in range(n)] for lv in hier]
    D = [[0] * n for _ in range(n)]
    nlev = len(hier) if labels is None else min(len(hier), len(labels))
    for q in range(n):
        for i in range(n):
            for lv in range(nlev):
                a, b = seg[lv][q], seg[lv][i]
                if a is None or b is None:
                    continue
                if labels is None:
                    same = (a == b)
                else:
                    la = labels[lv]
                    same = a < len(la) and b < len(la) and str(la[a]).lower() == str(la[b]).lower()
                if same:
                    D[q][i] = lv + 1
    return D


def triplet_score(R, E, transitive, w):
    """mean over query frames q (having >= 1 reference triple) of
       #{(i,j) in W(q)^2 : R ranks i closer than j and E ranks i strictly closer than j} / #{(i,j) : R ranks ...}"""
    n = len(R)
    total, counted = Fr(0), 0
    for q in range(n):
        W = [i for i in range(n) if i != q and (w is None or (q - w <= i < q + w))]
        trip = corr = 0
        for i in W:
            for j in W:
                closer = (R[q][i] > R[q][j]) if transitive else (R[q][i] == R[q][j] + 1)
                if closer:
                    trip += 1
                    if E[q][i] > E[q][j]:
                        corr += 1
        if trip:
            total += Fr(corr, trip)
            counted += 1
    return total / counted if counted else Fr(0)


def _f_beta(p, r, beta):
    if p == 0 and r == 0:
        return Fr(0)
    return (1 + beta * beta) * p * r / (beta * beta * p + r)


def _close(x, q):
    return abs(float(x) - float(q)) <= 1e-9


def _check_scores(name, got, want_p, want_r, beta):
    if not (isinstance(got, tuple) and len(got) == 3):
        return "%s returned %r, not a 3-tuple" % (name, got)
    p, r, f = (float(x) for x in got)
    for nm, v in (("precision", p), ("recall", r), ("f", f)):
        if not (0.0 <= v <= 1.0 + 1e-9) or math.isnan(v):
            return "%s %s = %r outside [0,1]" % (name, nm, v)
    if not _close(r, want_r):
        return "%s recall = %r but the triplet definition gives %s (%r)" % (name, r, want_r, float(want_r))
    if not _close(p, want_p):
        return "%s precision = %r but the triplet definition (roles exchanged) gives %s (%r)" % (
            name, p, want_p, float(want_p))
    want_f = _f_beta(want_p, want_r, beta)
    if not _close(f, want_f):
        return "%s F = %r but F_beta(precision, recall) = %r" % (name, f, float(want_f))
    return None


def _valid_pair(ref, est):
    """the property's quantifier: both hierarchies have >= 1 level, every level is a partition of [0, T] into
    segments of positive duration, with one common T"""
    ends = set()
    for h in (ref, est):
        if not h:
            return False
        for lv in h:
            lv = sorted(tuple(r) for r in lv)       # the rows of a level need not be listed in time order
            if not lv or lv[0][0] != 0:
                return False
            for (a, b), (c, d) in zip(lv[:-1], lv[1:]):
                if b != c:
                    return False
            if any(not (a < b) for a, b in lv):
                return False
            ends.add(lv[-1][1])
    return len(ends) == 1


def check_tmeasure(inp):
    if not _valid_pair(inp["ref"], inp["est"]):
        return None     # outside the quantifier of C17 (malformed annotations are C14's subject)
    fs, window = Fr(inp["frame_size"]), (None if inp["window"] is None else Fr(inp["window"]))
    must_reject = fs <= 0 or (window is not None and fs > window)
    try:
        got = call_t(inp)
    except ValueError as e:
        if must_reject:
            return None
        return "tmeasure raised ValueError(%s) on a valid input" % e
    except Exception as e:  # noqa: BLE001
        return "tmeasure raised %s(%s)" % (type(e).__name__, e)
    if must_reject:
        return "tmeasure accepted frame_size=%r window=%r and returned %r" % (inp["frame_size"], inp["window"], got)
    ref, est = _frac_hier(inp["ref"]), _frac_hier(inp["est"])
    R, E = depth_matrix(ref, fs), depth_matrix(est, fs)
    w = None if window is None else math.floor(window / fs)
    want_r = triplet_score(R, E, inp["transitive"], w)
    want_p = triplet_score(E, R, inp["transitive"], w)
    what = _check_scores("tmeasure", got, want_p, want_r, Fr(inp["beta"]))
    if what:
        return what
    # precision = recall with the roles exchanged, on the real function
    swapped = dict(inp, ref=inp["est"], est=inp["ref"])
    try:
        got2 = call_t(swapped)
    except Exception as e:  # noqa: BLE001
        return "tmeasure(est, ref) raised %s while tmeasure(ref, est) returned" % type(e).__name__
    if not (_close(got2[0], float(got[1])) and _close(got2[1], float(got[0]))):
        return "tmeasure(est, ref) = %r is not tmeasure(ref, est) = %r with precision/recall exchanged" % (got2, got)
    return None


def check_lmeasure(inp):
    if not _valid_pair(inp["ref"], inp["est"]):
        return None
    if len(inp["ref_labels"]) != len(inp["ref"]) or len(inp["est_labels"]) != len(inp["est"]) or \
            any(len(a) != len(b) for a, b in zip(inp["ref_labels"], inp["ref"])) or \
            any(len(a) != len(b) for a, b in zip(inp["est_labels"], inp["est"])):
        return None     # label lists that do not match their intervals: not a valid annotation
    fs = Fr(inp["frame_size"])
    must_reject = fs <= 0
    try:
        got = call_l(inp)
    except ValueError as e:
        if must_reject:
            return None
        return "lmeasure raised ValueError(%s) on a valid input" % e
    except Exception as e:  # noqa: BLE001
        return "lmeasure raised %s(%s)" % (type(e).__name__, e)
    if must_reject:
        return "lmeasure accepted frame_size=%r and returned %r" % (inp["frame_size"], got)
    ref, est = _frac_hier(inp["ref"]), _frac_hier(inp["est"])
    R, E = depth_matrix(ref, fs, inp["ref_labels"]), depth_matrix(est, fs, inp["est_labels"])
    want_r = triplet_score(R, E, True, None)
    want_p = triplet_score(E, R, True, None)
    what = _check_scores("lmeasure", got, want_p, want_r, Fr(inp["beta"]))
    if what:
        return what
    swapped = dict(inp, ref=inp["est"], est=inp["ref"], ref_labels=inp["est_labels"], est_labels=inp["ref_labels"])
    try:
        got2 = call_l(swapped)
    except Exception as e:  # noqa: BLE001
        return "lmeasure(est, ref) raised %s while lmeasure(ref, est) returned" % type(e).__name__
    if not (_close(got2[0], float(got[1])) and _close(got2[1], float(got[0]))):
        return "lmeasure(est, ref) = %r is not lmeasure(ref, est) = %r with precision/recall exchanged" % (got2, got)
    return None


def check_t_params(inp):
    """the rejection contract alone: ValueError exactly when frame_size <= 0 or frame_size > window"""
    if not _valid_pair(inp["ref"], inp["est"]):
        return None
    fs, window = Fr(inp["frame_size"]), (None if inp["window"] is None else Fr(inp["window"]))
    must_reject = fs <= 0 or (window is not None and fs > window)
    try:
        got = call_t(inp)
    except ValueError as e:
        return None if must_reject else "tmeasure rejected frame_size=%r window=%r with ValueError(%s)" % (
            inp["frame_size"], inp["window"], e)
    except Exception as e:  # noqa: BLE001
        return "tmeasure raised %s instead of ValueError for frame_size=%r window=%r" % (
            type(e).__name__, inp["frame_size"], inp["window"]) if must_reject else None
    return "tmeasure accepted frame_size=%r window=%r and returned %r" % (
        inp["frame_size"], inp["window"], got) if must_reject else None


def check_l_params(inp):
    if not _valid_pair(inp["ref"], inp["est"]):
        return None
    must_reject = Fr(inp["frame_size"]) <= 0
    try:
        got = call_l(inp)
    except ValueError as e:
        return None if must_reject else "lmeasure rejected frame_size=%r with ValueError(%s)" % (inp["frame_size"], e)
    except Exception as e:  # noqa: BLE001
        return "lmeasure raised %s instead of ValueError for frame_size=%r" % (
            type(e).__name__, inp["frame_size"]) if must_reject else None
    return "lmeasure accepted frame_size=%r and returned %r" % (inp["frame_size"], got) if must_reject else None


def gen_t_params(rng, tier, shard, nshards, boost):
    n = (40 if tier == "quick" else 400) * boost
    for _ in range(n):
        fs, window, _ = _fault_params(rng)
        span, ref, est = _pair(rng, rng.choice(FRAME_SIZES))
        yield t_input(ref, est, rng.random() < 0.5, window, fs, rng.choice(BETAS))


def gen_l_params(rng, tier, shard, nshards, boost):
    n = (20 if tier == "quick" else 200) * boost
    for _ in range(n):
        fs = rng.choice([Fr(0), -rng.choice(FRAME_SIZES), Fr(1, 32), rng.choice(FRAME_SIZES)])
        span, ref, est = _pair(rng, rng.choice(FRAME_SIZES))
        yield l_input(ref, gen_labels(rng, ref), est, gen_labels(rng, est), fs, rng.choice(BETAS))


def _oracle_hier_pair(rng):
    fs, window, tr, beta = gen_params(rng)
    span, ref, est = _pair(rng, fs)
    return fs, window, tr, beta, ref, est


def _shuffle_rows(rng, hier, labels=None):
    """the same hierarchy with the rows (and labels) of some levels listed out of time order: no validator asks for
    time order within a level, and the triplet definition does not know about row order"""
    hier = [list(lv) for lv in hier]
    labels = None if labels is None else [list(l) for l in labels]
    for k in range(len(hier)):
        if rng.random() < 0.6 and len(hier[k]) > 1:
            idx = list(range(len(hier[k])))
            rng.shuffle(idx)
            hier[k] = [hier[k][j] for j in idx]
            if labels is not None and k < len(labels) and len(labels[k]) == len(idx):
                labels[k] = [labels[k][j] for j in idx]
    return hier, labels


def gen_tmeasure(rng, tier, shard, nshards, boost):
    n = (80 if tier == "quick" else 500) * boost
    for k in range(n):
        fs, window, tr, beta, ref, est = _oracle_hier_pair(rng)
        if k % 10 == 9:
            fs, window, _ = _fault_params(rng)
        if k % 5 == 3:
            ref, est = _shuffle_rows(rng, ref)[0], _shuffle_rows(rng, est)[0]
        yield t_input(ref, est, tr, window, fs, beta)


def gen_lmeasure(rng, tier, shard, nshards, boost):
    n = (50 if tier == "quick" else 350) * boost
    for k in range(n):
        fs, window, tr, beta, ref, est = _oracle_hier_pair(rng)
        if k % 10 == 9:
            fs = rng.choice([Fr(0), -fs])
        small = rng.choice([None, 2, 3])
        rl, el = gen_labels(rng, ref, small), gen_labels(rng, est, small)
        if k % 4 == 2:
            (ref, rl), (est, el) = _shuffle_rows(rng, ref, rl), _shuffle_rows(rng, est, el)
        yield l_input(ref, rl, est, el, fs, beta)


def check_evaluate(inp):
    """the bundle: every entry of hierarchy.evaluate(window, frame_size, beta) equals the triplet definition with THOSE
    parameters (same-span annotations starting at 0, so that alignment changes nothing)"""
    if not _valid_pair(inp["ref"], inp["est"]):
        return None
    fs, window = Fr(inp["frame_size"]), (None if inp["window"] is None else Fr(inp["window"]))
    if fs <= 0 or (window is not None and fs > window):
        return None
    try:
        got = H.evaluate(arrs(inp["ref"]), [list(x) for x in inp["ref_labels"]],
                         arrs(inp["est"]), [list(x) for x in inp["est_labels"]],
                         window=inp["window"], frame_size=inp["frame_size"], beta=inp["beta"])
    except Exception as e:  # noqa: BLE001
        return "evaluate raised %s(%s) on a valid input" % (type(e).__name__, e)
    ref, est = _frac_hier(inp["ref"]), _frac_hier(inp["est"])
    R, E = depth_matrix(ref, fs), depth_matrix(est, fs)
    w = None if window is None else math.floor(window / fs)
    beta = Fr(inp["beta"])
    for mode, tr in (("reduced", False), ("full", True)):
        t = tuple(got[k % mode] for k in ("T-Precision %s", "T-Recall %s", "T-Measure %s"))
        what = _check_scores("evaluate[T-* %s]" % mode, t, triplet_score(E, R, tr, w), triplet_score(R, E, tr, w), beta)
        if what:
            return what
    RL, EL = depth_matrix(ref, fs, inp["ref_labels"]), depth_matrix(est, fs, inp["est_labels"])
    l = (got["L-Precision"], got["L-Recall"], got["L-Measure"])
    return _check_scores("evaluate[L-*]", l, triplet_score(EL, RL, True, None), triplet_score(RL, EL, True, None), beta)


def gen_evaluate(rng, tier, shard, nshards, boost):
    n = (40 if tier == "quick" else 300) * boost
    for _ in range(n):
        fs, window, tr, beta, ref, est = _oracle_hier_pair(rng)
        small = rng.choice([None, 2, 3])
        d = l_input(ref, gen_labels(rng, ref, small), est, gen_labels(rng, est, small), fs, beta)
        d["window"] = fl(window)
        yield d


CHECKERS = {"hierarchy.evaluate": check_evaluate,
            "hierarchy.tmeasure": check_tmeasure, "hierarchy.lmeasure": check_lmeasure,
            "hierarchy.tmeasure/params": check_t_params, "hierarchy.lmeasure/params": check_l_params}
ORACLES = {"hierarchy.evaluate": gen_evaluate,
           "hierarchy.tmeasure": gen_tmeasure, "hierarchy.lmeasure": gen_lmeasure,
           "hierarchy.tmeasure/params": gen_t_params, "hierarchy.lmeasure/params": gen_l_params}


def _rel_checker(site):
    def chk(inp):
        from props import t_hierrel      # late: t_hierrel imports this module
        return t_hierrel.CHECKERS[site](inp)
    return chk


def _rel_oracle(site):
    def gen(rng, tier, shard, nshards, boost):
        from props import t_hierrel
        yield from t_hierrel.ORACLES[site](rng, tier, shard, nshards, boost)
    return gen


# the relational oracles on the real tmeasure / lmeasure / evaluate that go with C02_ / C08_Hierarchy
for _site in ("hierarchy:self", "hierarchy:relabel"):
    CHECKERS[_site] = _rel_checker(_site)
    ORACLES[_site] = _rel_oracle(_site)


def classify(suite, d):
    """Map a disagreeing correspondence case to (site, oracle input) so the property is tried on it."""
    op, i = d["op"], d["info"]
    if suite == "gen_hierarchy":
        fn = (i or {}).get("fn")
        if fn == "tmeasure":
            return "hierarchy.tmeasure", {k: v for k, v in i.items() if k not in ("op", "fn")}
        if fn == "lmeasure":
            return "hierarchy.lmeasure", {k: v for k, v in i.items() if k not in ("op", "fn")}
        return None
    if suite == "faults":
        return ("hierarchy.tmeasure/params" if op == "hierarchy.tmeasure" else "hierarchy.lmeasure/params"), i
    if op == "hierarchy.tmeasure":
        return "hierarchy.tmeasure", i
    if op == "hierarchy.lmeasure":
        return "hierarchy.lmeasure", i
    if op == "hierarchy.evaluate":
        # the bundle is tmeasure/lmeasure on aligned inputs: try the property on the aligned annotations
        try:
            ref = [[[float(Fr(a)), float(Fr(b))] for a, b in lv] for lv in i["ref"]]
            est = [[[float(Fr(a)), float(Fr(b))] for a, b in lv] for lv in i["est"]]
            t_end = max(x for lv in ref for iv in lv for x in iv)
            ri, rl = H._align_intervals(arrs(ref), [list(x) for x in i["ref_labels"]], t_min=0.0, t_max=None)
            ei, el = H._align_intervals(arrs(est), [list(x) for x in i["est_labels"]], t_min=0.0, t_max=t_end)
            w = i["window"]
            return "hierarchy.tmeasure", {
                "ref": [np.asarray(x).tolist() for x in ri], "est": [np.asarray(x).tolist() for x in ei],
                "transitive": True, "window": None if w is None else float(Fr(w)),
                "frame_size": float(Fr(i["frame_size"])), "beta": float(Fr(i["beta"]))}
        except Exception:  # noqa: BLE001
            return None
    return None


# ------------------------------------------------------------------------------------------------
# call SEQUENCES in one process (harness/props/c17_seq.py): consecutive tmeasure / lmeasure / evaluate calls on
# hierarchies that differ by less than 1e-5 s in a boundary on a frame edge (or only in labels / frame grid / window)
from props import c17_seq as _SEQ  # noqa: E402
CHECKERS.update(_SEQ.CHECKERS)
ORACLES.update(_SEQ.ORACLES)
RULE += ("; oracle stream added: sequences of 2-4 plain tmeasure / lmeasure / evaluate calls in one process (module "
         "state reset first) on hierarchies that differ by less than 1e-5 s in one boundary on a frame edge, or only in "
         "labels / frame grid / window / level order, each call against the brute-force triplet definition on its own frames")
