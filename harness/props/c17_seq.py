"""C17 — call SEQUENCES for the triplet-definition oracle (registered at the end of props/c17.py).

  hierarchy.sequence   2-4 consecutive calls of tmeasure / lmeasure / evaluate in one process (the library's module
                       state is reset before the first, so the input alone replays it).  Consecutive hierarchies are
                       related the way a memo keyed by a lossy summary of its arguments would confuse them:
                         nudge      one boundary that sits on a frame edge is moved by less than 1e-5 s (k*fs - 1e-6 s
                                    falls into the frame before, k*fs + 1e-6 s stays; both round to the same 5 decimals)
                         labels     the same intervals under other labels (another label-agreement structure)
                         frame      the same hierarchies on another frame grid
                         window     the same hierarchies and frame grid, another window / transitivity
                         level      one level dropped / the level order changed, all boundaries kept
                       Every call is ONE plain call of the real function compared with the brute-force triplet
                       definition on ITS OWN frames (exact rationals of the binary64 boundaries).
"""
import importlib
import math
from fractions import Fraction as Fr

P = importlib.import_module("props.c17")     # (this module is imported from the end of props/c17.py)
H = P.H

NUDGES = [-1e-6, -1e-6, -2e-6, -5e-7, -4e-6, 1e-6, 3e-6]


def reset_library():
    import sys
    for name in ("mir_eval.util", "mir_eval.segment", "mir_eval.hierarchy"):
        if name in sys.modules:
            importlib.reload(sys.modules[name])


def _step_t(inp):
    """one call of tmeasure against the definition (no second call)"""
    fs, window = Fr(inp["frame_size"]), (None if inp["window"] is None else Fr(inp["window"]))
    try:
        got = P.call_t(inp)
    except Exception as e:  # noqa: BLE001
        return "tmeasure raised %s(%s) on a valid input" % (type(e).__name__, e)
    ref, est = P._frac_hier(inp["ref"]), P._frac_hier(inp["est"])
    R, E = P.depth_matrix(ref, fs), P.depth_matrix(est, fs)
    w = None if window is None else math.floor(window / fs)
    return P._check_scores("tmeasure", got, P.triplet_score(E, R, inp["transitive"], w),
                           P.triplet_score(R, E, inp["transitive"], w), Fr(inp["beta"]))


def _step_l(inp):
    fs = Fr(inp["frame_size"])
    try:
        got = P.call_l(inp)
    except Exception as e:  # noqa: BLE001
        return "lmeasure raised %s(%s) on a valid input" % (type(e).__name__, e)
    ref, est = P._frac_hier(inp["ref"]), P._frac_hier(inp["est"])
    R, E = P.depth_matrix(ref, fs, inp["ref_labels"]), P.depth_matrix(est, fs, inp["est_labels"])
    return P._check_scores("lmeasure", got, P.triplet_score(E, R, True, None), P.triplet_score(R, E, True, None),
                           Fr(inp["beta"]))


STEPS = {"tmeasure": _step_t, "lmeasure": _step_l, "evaluate": P.check_evaluate}


def check_sequence(inp):
    reset_library()
    calls = inp["calls"]
    for k, step in enumerate(calls):
        if not P._valid_pair(step["ref"], step["est"]):
            return None
        fs, window = Fr(step["frame_size"]), (None if step.get("window") is None else Fr(step["window"]))
        if fs <= 0 or (window is not None and fs > window):
            return None
        what = STEPS[step["fn"]](step)
        if what:
            return "call %d of %d in one process (module state reset before call 1; %s): %s" % (
                k + 1, len(calls), inp.get("kind", ""), what)
    return None


# ------------------------------------------------------------------------------------------------
# generator

def _floats(h):
    return [[[float(a), float(b)] for a, b in lv] for lv in h]


def _nudged(rng, hf, fs):
    """a copy of the float hierarchy `hf` with one interior boundary (at one level, or at every level that has it) moved
    by less than 1e-5 s; None when there is no interior boundary"""
    inner = sorted({iv[1] for lv in hf for iv in lv[:-1]})
    if not inner:
        return None
    on_edge = [b for b in inner if Fr(b) % fs == 0]
    b = rng.choice(on_edge or inner)
    d = rng.choice(NUDGES)
    levels = [k for k, lv in enumerate(hf) if any(iv[1] == b for iv in lv[:-1])]
    if rng.random() < 0.5:
        levels = [rng.choice(levels)]
    out = [[list(iv) for iv in lv] for lv in hf]
    for k in levels:
        for iv in out[k]:
            if iv[0] == b:
                iv[0] = b + d
            if iv[1] == b:
                iv[1] = b + d
    return out


def gen_sequence_input(rng):
    fs, window, tr, beta = P.gen_params(rng)
    span = Fr(rng.randint(2, 8))
    ref = P.gen_hier(rng, span, fs, aligned=(rng.random() < 0.8))
    est = P.gen_hier(rng, span, fs, aligned=(rng.random() < 0.8))
    small = rng.choice([None, 2, 3])
    rl, el = P.gen_labels(rng, ref, small), P.gen_labels(rng, est, small)
    rf, ef = _floats(ref), _floats(est)
    kind = rng.choice(["nudge", "nudge", "nudge", "nudge", "labels", "frame", "window", "level"])
    u = rng.random()
    fns = [("tmeasure" if u < 0.5 else "evaluate" if u < 0.8 else "lmeasure")] * 4
    if rng.random() < 0.2:
        fns = [rng.choice(["tmeasure", "lmeasure", "evaluate"]) for _ in range(4)]
    base = {"ref": rf, "ref_labels": rl, "est": ef, "est_labels": el, "transitive": bool(tr), "window": P.fl(window),
            "frame_size": float(fs), "beta": float(beta)}
    variants = [base]
    if kind == "nudge":
        side = rng.choice(["ref", "est", "est"])
        cur = base
        for _ in range(3):
            nh = _nudged(rng, base[side], fs)          # always a nudge of the ORIGINAL: at most one boundary differs
            cur = dict(base, **{side: nh}) if nh is not None else base
            variants.append(cur)
        if rng.random() < 0.5:
            variants[2] = base                            # ... and back to the first hierarchy
        kind += "/" + side
    elif kind == "labels":
        for _ in range(3):
            variants.append(dict(base, ref_labels=P.gen_labels(rng, ref, small), est_labels=P.gen_labels(rng, est, small)))
        fns = [f if f != "tmeasure" else "lmeasure" for f in fns]
    elif kind == "frame":
        others = [f for f in P.FRAME_SIZES if f != fs]
        for k in range(3):
            f2 = others[k % len(others)] if k != 1 else fs
            variants.append(dict(base, frame_size=float(f2), window=None if window is None else float(max(window, f2))))
    elif kind == "window":
        for _ in range(3):
            variants.append(dict(base, window=P.fl(rng.choice(P._window_choices(fs))), transitive=rng.random() < 0.5))
        fns = [f if f != "lmeasure" else "tmeasure" for f in fns]
    else:
        def relevel(h, labs):
            idx = list(range(len(h)))
            if len(idx) > 1 and rng.random() < 0.5:
                idx.pop(rng.randrange(len(idx)))
            else:
                rng.shuffle(idx)
            return [h[i] for i in idx], [labs[i] for i in idx]
        for _ in range(3):
            r2, rl2 = relevel(rf, rl)
            e2, el2 = relevel(ef, el)
            variants.append(dict(base, ref=r2, ref_labels=rl2, est=e2, est_labels=el2))
    k = rng.choice([2, 2, 3, 3, 4])
    calls = [dict(v, fn=fns[i]) for i, v in enumerate(variants[:k])]
    for c in calls:
        if c["fn"] == "tmeasure":       # (labels play no part there: keep the recorded input small)
            del c["ref_labels"], c["est_labels"]
    return {"kind": kind, "calls": calls}


def gen_sequences(rng, tier, shard, nshards, boost):
    n = (25 if tier == "quick" else 300) * boost
    for _ in range(n):
        yield gen_sequence_input(rng)


CHECKERS = {"hierarchy.sequence": check_sequence}
ORACLES = {"hierarchy.sequence": gen_sequences}
