"""C18 — multipitch error accounting is exhaustive and consistent."""
from fractions import Fraction as Fr

import numpy as np
from mir_eval import multipitch as mp

from suites import multipitch as S

PID = "C18"
LEAN_MODULES = ["MirProofs.Props.C18", "MirProofs.Props.C18_Gen"]
# the count-level functions, the resampling and `metrics` are REGENERATED from mir_eval/multipitch.py on every run
# (translator part `multipitch` -> lean/MirGen/Multipitch.lean) and proved equal to the hand model (Props/C18_Gen.lean);
# suite `gen_multipitch` runs the GENERATED definitions (driver op `gen.multipitch`) against the real functions
TRANSLATOR_PARTS = ["multipitch"]
RULE = ("multipitch inputs with reference/estimate time bases on the 1/32 s lattice (equal, shifted by half a hop "
        "so that targets sit exactly between two estimate frames, sparser, denser, starting later, ending earlier, "
        "random, empty, single frame, duplicated stamps), 0-4 pitches per frame incl. empty frames and all-empty "
        "sides, pitches on a 1/8- or 1/3-semitone MIDI lattice converted to Hz with windows >= 1/16 semitone away "
        "from every reachable (plain or circular) difference; per-frame counts additionally in the MIDI domain on "
        "exact dyadic values with pairs exactly at the window; a case is non-trivial when both sides have a pitch")
ASSUMPTIONS = [
    "pitch is modelled in the log domain: np.log2 / 2**x (Hz <-> MIDI) are trusted, exercised with >= 1/16 "
    "semitone margins between pitch differences and the window",
    "the per-frame raw count is modelled as a maximum matching of |m_r - m_e| <= window; that "
    "util._fast_hit_windows enumerates exactly these pairs is proved in MirProofs.Props.C18 "
    "(raw_count_is_match_events), that util._bipartite_match returns a maximum matching is C05's tie",
]
UNPROVED = []

SUITES = {k: S.SUITES[k] for k in ("mp_metrics", "mp_num_true_positives", "mp_resample", "mp_accuracy",
                                    "mp_err_score", "mp_evaluate", "mp_small", "mp_validate")}
# stream F: excerpts of the multi-f0 fixture files on their own 10 ms frame grid
from suites import fixtures as _FX  # noqa: E402
if "multipitch" in _FX.SUITES:
    SUITES["fixtures.multipitch"] = _FX.SUITES["multipitch"]
RULE += "; " + _FX.RULE_NOTE


def classify(suite, d):
    if suite == "gen_multipitch":
        return classify_gen(d)
    if suite == "fixtures.multipitch":
        i = d.get("info") or {}
        op = d.get("op")
        if op in ("multipitch.metrics", "multipitch.evaluate") and "ref_time" in i:
            return S.classify("mp_metrics", d)
        if op == "multipitch.compute_num_true_positives":
            return "multipitch.compute_num_true_positives", {k: i[k] for k in ("ref_midi", "est_midi", "window", "chroma")}
        if op == "multipitch.resample_multipitch":
            return "multipitch.resample_multipitch", {k: i[k] for k in ("times", "freqs", "target")}
        return None
    return S.classify(suite, d)

EPS = 1e-9
NAMES = ["precision", "recall", "accuracy", "e_sub", "e_miss", "e_fa", "e_tot"]


# ----------------------------------------------------------------------------------------
# the functions as REGENERATED from the source (driver op `gen.multipitch`, lean/MirGen/Multipitch.lean) vs the real
# functions: exercises the translator's own semantic assumptions (NumPy broadcasting of 1-D count arrays, ragged
# np.min / np.max, masked assignment, NumPy-scalar division incl. nan / inf, interp1d(kind='nearest') with its fill
# value, list indexing, util.filter_kwargs) — lean/MirModel/PyMultipitch.lean
from core import Case  # noqa: E402
import itertools  # noqa: E402


def _count_cases(tp, nr, ne, tag):
    info = {"op": "gen.multipitch", "tp": list(tp), "n_ref": list(nr), "n_est": list(ne)}
    a = (np.array(tp, dtype=float), np.array(nr, dtype=int), np.array(ne, dtype=int))
    yield Case("gen.multipitch", ["compute_accuracy", list(tp), list(nr), list(ne)],
               lambda a=a: [float(x) for x in mp.compute_accuracy(*a)],
               tag=tag + " accuracy", info=dict(info, fn="compute_accuracy"), nontrivial=bool(sum(tp)))
    yield Case("gen.multipitch", ["compute_err_score", list(tp), list(nr), list(ne)],
               lambda a=a: [float(x) for x in mp.compute_err_score(*a)],
               tag=tag + " err_score", info=dict(info, fn="compute_err_score"), nontrivial=bool(sum(nr)))


def _retarget(case, fn, extra=()):
    """a case of a hand-model suite asked of the generated definition instead"""
    info = dict(case.info or {}, op="gen.multipitch", fn=fn)
    return Case("gen.multipitch", [fn] + list(case.args) + list(extra), case.call, tol=case.tol, tag="gen " + case.tag,
                info=info, nontrivial=case.nontrivial, post=case.post)


def suite_gen_multipitch(rng, tier, shard, nshards):
    """count arrays: ALL triples of equally long vectors over {0,1,2,3} up to length 2 (quick) / 3 (thorough), every
    combination of lengths 0..3 (broadcasting of a length-1 operand, ragged stacks, empties), random longer ones incl.
    all-zero sides, inconsistent and negative counts; frames: compute_num_freqs, midi_to_chroma,
    compute_num_true_positives (pairs exactly at the window, unequal frame counts), resample_multipitch (ties, out of
    range, unequal lengths) and the public metrics on the multipitch streams (all time-base kinds, faults)."""
    cases = []
    vals = (0, 1, 2, 3)
    nmax = 2 if tier == "quick" else 3
    for n in range(0, nmax + 1):
        for tp in itertools.product(vals, repeat=n):
            for nr in itertools.product(vals, repeat=n):
                for ne in itertools.product(vals, repeat=n):
                    cases += list(_count_cases(tp, nr, ne, "all n=%d" % n))
    for k, c in enumerate(cases):
        if k % nshards == shard:
            yield c
    # every combination of lengths (each shard draws its own values)
    for la, lb, lc in itertools.product(range(4), repeat=3):
        for _ in range(2 if tier == "quick" else 12):
            tp = [rng.choice(vals) for _ in range(la)]
            nr = [rng.choice(vals) for _ in range(lb)]
            ne = [rng.choice(vals) for _ in range(lc)]
            if rng.random() < 0.25:
                nr = [0] * lb
            for c in _count_cases(tp, nr, ne, "lengths %s" % ("equal" if la == lb == lc else "unequal")):
                yield c
    for _ in range(60 if tier == "quick" else 1500):
        kind, tp, nr, ne = S.count_arrays(rng)
        n = len(nr)
        r = rng.random()
        if r < 0.15:
            n = rng.choice([13, 21, 40])
            nr = [rng.choice([0, 0, 1, 2, 3, 4, 7]) for _ in range(n)]
            ne = [rng.choice([0, 0, 1, 2, 3, 4, 7]) for _ in range(n)]
            tp = [rng.randint(0, min(a, b)) for a, b in zip(nr, ne)]
            kind = "long"
        elif r < 0.25 and kind == "arbitrary":
            tp = [rng.randint(-3, 5) for _ in tp]
            nr = [rng.randint(-2, 4) for _ in nr]
            ne = [rng.randint(-2, 4) for _ in ne]
            kind = "negative"
        for c in _count_cases(tp, nr, ne, kind):
            yield c
    # frames
    for c in S.SUITES["mp_small"](rng, tier, shard, nshards):
        if c.op == "multipitch.compute_num_freqs":
            yield _retarget(c, "compute_num_freqs")
        elif c.op == "multipitch.midi_to_chroma":
            yield _retarget(c, "midi_to_chroma")
    for k, c in enumerate(S.SUITES["mp_num_true_positives"](rng, tier, shard, nshards)):
        if tier != "quick" or k < 150:
            yield _retarget(c, "compute_num_true_positives")
    for k, c in enumerate(S.SUITES["mp_resample"](rng, tier, shard, nshards)):
        if tier != "quick" or k < 150:
            yield _retarget(c, "resample_multipitch")
    for k, c in enumerate(S.SUITES["mp_metrics"](rng, tier, shard, nshards)):
        if tier != "quick" or k < 120:
            yield _retarget(c, "metrics")
    for k, c in enumerate(S.SUITES["mp_validate"](rng, tier, shard, nshards)):
        if c.op == "multipitch.metrics" and (tier != "quick" or k < 60):
            yield _retarget(c, "metrics")


SUITES["gen_multipitch"] = suite_gen_multipitch


def classify_gen(d):
    """a disagreeing gen.multipitch case -> an input of the oracle of the property (where the property is claimed)"""
    i = d.get("info") or {}
    fn = i.get("fn")
    if fn in ("compute_accuracy", "compute_err_score"):
        tp, nr, ne = i["tp"], i["n_ref"], i["n_est"]
        if len(tp) == len(nr) == len(ne) and all(0 <= t <= min(a, b) for t, a, b in zip(tp, nr, ne)):
            return "multipitch.compute_scores", {"tp": tp, "n_ref": nr, "n_est": ne}
        return None
    if fn == "metrics" and "ref_time" in i:
        return "multipitch.metrics", {k: i[k] for k in ("ref_time", "ref_midi", "est_time", "est_midi", "window")}
    if fn == "compute_num_true_positives" and "ref_midi" in i:
        return "multipitch.compute_num_true_positives", {k: i[k] for k in ("ref_midi", "est_midi", "window", "chroma")}
    if fn == "resample_multipitch" and "times" in i:
        if len(i["times"]) != len(i["freqs"]):
            return None
        return "multipitch.resample_multipitch", {k: i[k] for k in ("times", "freqs", "target")}
    return None


# --------------------------------------------------------------------------------------------- helpers
def spec_nearest(et, t):
    """index of the estimate frame nearest to t (exact arithmetic); ties between two different time stamps go
    to the earlier one; None when t is outside [et[0], et[-1]].  Returns (index, ambiguous) where ambiguous
    means the minimum is attained by several frames carrying the same time stamp."""
    if not et or t < et[0] or t > et[-1]:
        return None, False
    best = min(abs(x - t) for x in et)
    cands = [j for j, x in enumerate(et) if abs(x - t) == best]
    first_time = et[cands[0]]
    same = [j for j in cands if et[j] == first_time]
    return same[0], len(same) > 1


def seven_identities(s, label):
    p, r, a, esub, emiss, efa, etot = s
    for nm, v in zip(NAMES, s):
        if not np.isfinite(v):
            return "%s %s = %r is not finite" % (label, nm, v)
        if v < -1e-12:
            return "%s %s = %r < 0" % (label, nm, v)
    if abs(etot - (esub + emiss + efa)) > EPS * max(1.0, abs(etot)):
        return "%s e_tot = %r but e_sub + e_miss + e_fa = %r" % (label, etot, esub + emiss + efa)
    if a > min(p, r) + EPS:
        return "%s accuracy %r > min(precision %r, recall %r)" % (label, a, p, r)
    for nm, v in (("precision", p), ("recall", r), ("accuracy", a)):
        if v > 1 + EPS:
            return "%s %s = %r > 1" % (label, nm, v)
    return None


def parse_input(inp):
    rt = S.unS(inp["ref_time"])
    et = S.unS(inp["est_time"])
    rf = S.unS(inp["ref_midi"])
    ef = S.unS(inp["est_midi"])
    w = None if inp.get("window") is None else Fr(inp["window"])
    return rt, rf, et, ef, w


# --------------------------------------------------------------------------------------------- checkers
def check_metrics(inp):
    rt, rf, et, ef, w = parse_input(inp)
    s = [float(x) for x in S.call_metrics(rt, rf, et, ef, w)]
    if len(s) != 14:
        return "metrics returned %d values" % len(s)
    what = seven_identities(s[:7], "raw") or seven_identities(s[7:], "chroma")
    if what:
        return what
    for k in range(3):
        if s[7 + k] < s[k] - EPS:
            return "chroma %s %r < raw %s %r" % (NAMES[k], s[7 + k], NAMES[k], s[k])
    for k in (3, 6):
        if s[7 + k] > s[k] + EPS:
            return "chroma %s %r > raw %s %r" % (NAMES[k], s[7 + k], NAMES[k], s[k])
    for k in (4, 5):
        if abs(s[7 + k] - s[k]) > EPS:
            return "chroma %s %r != raw %s %r" % (NAMES[k], s[7 + k], NAMES[k], s[k])
    if not any(rf):
        if any(v != 0.0 for v in s):
            return "reference without any pitch but scores %r are not all 0" % (s,)
    # resampling: a differing time base means nearest estimate frame / empty frame outside the range
    if et != rt:
        frames, ambiguous = [], False
        for t in rt:
            j, amb = spec_nearest(et, t)
            ambiguous = ambiguous or (amb and len({tuple(ef[i]) for i in range(len(et)) if et[i] == et[j]}) > 1)
            frames.append([] if j is None else list(ef[j]))
        if not ambiguous:
            s2 = [float(x) for x in S.call_metrics(rt, rf, rt, frames, w)]
            for k in range(14):
                if abs(s2[k] - s[k]) > EPS:
                    return ("estimate time base differs from the reference's, but %s%s = %r whereas scoring the "
                            "nearest-frame resampled estimate gives %r" %
                            ("chroma " if k >= 7 else "", NAMES[k % 7], s[k], s2[k]))
    return None


def kuhn_size(n_left, adj):
    match_r = {}

    def try_u(u, seen):
        for v in adj.get(u, ()):
            if v in seen:
                continue
            seen.add(v)
            if v not in match_r or try_u(match_r[v], seen):
                match_r[v] = u
                return True
        return False
    return sum(1 for u in range(n_left) if try_u(u, set()))


def circ(a, b):
    d = abs((a % 12) - (b % 12))
    return min(d, 12 - d)


def check_num_true_positives(inp):
    rf = S.unS(inp["ref_midi"])
    ef = S.unS(inp["est_midi"])
    w = Fr(inp["window"])
    n = min(len(rf), len(ef))
    rf, ef = rf[:n], ef[:n]
    raw = mp.compute_num_true_positives(S.frames_midi(rf), S.frames_midi(ef), window=float(w))
    chroma_in_r = [[m % 12 for m in f] for f in rf]
    chroma_in_e = [[m % 12 for m in f] for f in ef]
    chr_ = mp.compute_num_true_positives(S.frames_midi(chroma_in_r), S.frames_midi(chroma_in_e), window=float(w),
                                         chroma=True)
    if len(raw) != n or len(chr_) != n:
        return "length of the count arrays %d / %d, frames %d" % (len(raw), len(chr_), n)
    for i in range(n):
        r, e = rf[i], ef[i]
        if raw[i] != int(raw[i]) or chr_[i] != int(chr_[i]):
            return "non-integral count in frame %d" % i
        if raw[i] > min(len(r), len(e)) or chr_[i] > min(len(r), len(e)):
            return "frame %d: %d raw / %d chroma true positives but %d reference and %d estimated pitches" % (
                i, raw[i], chr_[i], len(r), len(e))
        if raw[i] < 0:
            return "frame %d: negative count" % i
        if chr_[i] < raw[i]:
            return "frame %d: chroma count %d below raw count %d" % (i, chr_[i], raw[i])
        adj = {a: [b for b in range(len(e)) if abs(r[a] - e[b]) <= w] for a in range(len(r))}
        k = kuhn_size(len(r), adj)
        if raw[i] != k:
            return "frame %d: raw count %d, a maximum one-to-one pairing within the window has %d" % (i, raw[i], k)
        adj = {a: [b for b in range(len(e)) if circ(r[a], e[b]) <= w] for a in range(len(r))}
        k = kuhn_size(len(r), adj)
        if chr_[i] != k:
            return "frame %d: chroma count %d, a maximum one-to-one pairing within the window has %d" % (i, chr_[i], k)
    return None


def check_scores(inp):
    tp, nr, ne = inp["tp"], inp["n_ref"], inp["n_est"]
    a = [float(x) for x in mp.compute_accuracy(np.array(tp, dtype=float), np.array(nr, dtype=int), np.array(ne, dtype=int))]
    e = [float(x) for x in mp.compute_err_score(np.array(tp, dtype=float), np.array(nr, dtype=int), np.array(ne, dtype=int))]
    what = seven_identities(a + e, "scores")
    if what:
        return what
    T, R, E = sum(tp), sum(nr), sum(ne)
    exp = [Fr(T, E) if E > 0 else Fr(0), Fr(T, R) if R > 0 else Fr(0), Fr(T, E + R - T) if E + R - T > 0 else Fr(0)]
    if R == 0:
        exp += [Fr(0)] * 4
    else:
        exp += [Fr(sum(min(x, y) - t for t, x, y in zip(tp, nr, ne)), R),
                Fr(sum(max(x - y, 0) for x, y in zip(nr, ne)), R),
                Fr(sum(max(y - x, 0) for x, y in zip(nr, ne)), R),
                Fr(sum(max(x, y) - t for t, x, y in zip(tp, nr, ne)), R)]
    for nm, got, want in zip(NAMES, a + e, exp):
        if abs(got - float(want)) > EPS:
            return "%s = %r, definition gives %s" % (nm, got, want)
    return None


def check_resample(inp):
    et = S.unS(inp["times"])
    fs = S.unS(inp["freqs"])
    tg = S.unS(inp["target"])
    out = mp.resample_multipitch(S.tarr(et), [np.array([float(x) for x in f]) for f in fs], S.tarr(tg))
    if len(out) != len(tg):
        return "%d target times, %d resampled frames" % (len(tg), len(out))
    for k, t in enumerate(tg):
        got = [float(x) for x in out[k]]
        j, amb = spec_nearest(et, t)
        if j is None:
            if got:
                return "target %s outside the estimate's range [%s] got frame %r" % (t, ", ".join(map(str, et[:1] + et[-1:])), got)
            continue
        ok = [[float(x) for x in fs[i]] for i in range(len(et)) if et[i] == et[j]] if amb else [[float(x) for x in fs[j]]]
        if got not in ok:
            return "target %s: got frame %r, the nearest estimate frame (index %d, time %s) is %r" % (t, got, j, et[j], ok[0])
    return None


guarded = S.guarded


def in_sequence(check):
    """an input {"history": [inp1, inp2, ...]} is a sequence of calls made in one process; every call must satisfy the
    property on its own input whatever was scored before it"""
    def run(inp):
        steps = inp["history"]
        for k, step in enumerate(steps):
            what = check(step)
            if what:
                return "call %d of %d consecutive calls in one process: %s" % (k + 1, len(steps), what)
        return None
    return run


def _irregular_grid(rng, n, t0, t1):
    """n strictly increasing lattice times from t0 to t1 (both included)"""
    inner = sorted(rng.sample(range(int(t0 * 64) + 1, int(t1 * 64)), n - 2))
    return [t0] + [Fr(x, 64) for x in inner] + [t1]


def gen_resample_sequences(rng, tier, shard, nshards, boost):
    """consecutive calls whose estimate time bases share length and end points (and therefore every cheap summary) but
    not the interior time stamps; the target grid stays the same"""
    n = (60 if tier == "quick" else 1000) * boost
    for _ in range(n):
        m = rng.randint(4, 8)
        t0, t1 = Fr(rng.randint(0, 32), 32), Fr(rng.randint(96, 160), 32)
        tg = sorted(t0 + Fr(rng.randint(0, int((t1 - t0) * 64)), 64) for _ in range(rng.randint(2, 8)))
        steps = []
        for _k in range(rng.choice([2, 2, 3])):
            et = _irregular_grid(rng, m, t0, t1)
            fs = [[Fr(100 + 10 * i + j) for j in range(rng.choice([0, 1, 1, 2]))] for i in range(m)]
            steps.append({"times": S.S(et), "freqs": S.S(fs), "target": S.S(tg)})
        yield {"history": steps}


def gen_metrics_sequences(rng, tier, shard, nshards, boost):
    n = (40 if tier == "quick" else 600) * boost
    for _ in range(n):
        den, w = S.pitch_setup(rng)
        m = rng.randint(4, 7)
        t0, t1 = Fr(rng.randint(0, 32), 32), Fr(rng.randint(96, 160), 32)
        rt = sorted({t0 + Fr(rng.randint(0, int((t1 - t0) * 64)), 64) for _ in range(rng.randint(2, 7))})
        rf = [S.ref_frame(rng, den) for _ in rt]
        steps = []
        for _k in range(2):
            et = _irregular_grid(rng, m, t0, t1)
            ef = [S.est_frame(rng, rng.choice(rf), den, w) for _ in et]
            steps.append({"ref_time": S.S(rt), "ref_midi": S.S(rf), "est_time": S.S(et), "est_midi": S.S(ef),
                          "window": None if w is None else str(w)})
        yield {"history": steps}


CHECKERS = {"multipitch.resample_multipitch(sequence)": guarded(in_sequence(check_resample)),
            "multipitch.metrics(sequence)": guarded(in_sequence(check_metrics)),
            "multipitch.metrics": guarded(check_metrics),
            "multipitch.compute_num_true_positives": guarded(check_num_true_positives),
            "multipitch.compute_scores": guarded(check_scores),
            "multipitch.resample_multipitch": guarded(check_resample)}


# --------------------------------------------------------------------------------------------- oracle inputs
def gen_metrics(rng, tier, shard, nshards, boost):
    n = (150 if tier == "quick" else 2500) * boost
    kinds = S.TB_KINDS
    for k in range(n):
        kind, rt, rf, et, ef, w = S.instance(rng, kinds[k % len(kinds)] if k < 3 * len(kinds) else None)
        yield {"ref_time": S.S(rt), "ref_midi": S.S(rf), "est_time": S.S(et), "est_midi": S.S(ef),
               "window": None if w is None else str(w)}
    # time bases that np.allclose accepts although they are not equal (known finding C18/allclose)
    for k in range((6 if tier == "quick" else 60) * boost):
        den, w = S.pitch_setup(rng)
        nfr = rng.randint(1, 6)
        if k % 2 == 0:
            t0, hop, delta = Fr(rng.randint(0, 64), 32), Fr(1, 8), Fr(1, 2 ** 34)     # float-noise sized offset
        else:
            t0, hop = Fr(rng.choice([8192, 16384, 29000])), Fr(rng.choice([1, 2]), 32)
            delta = hop * rng.choice([1, 2])                                           # whole frames off
        rt = [t0 + i * hop for i in range(nfr)]
        et = [t + delta for t in rt]
        rf = [S.ref_frame(rng, den) for _ in rt]
        ef = [S.est_frame(rng, f, den, w) for f in rf]
        yield {"ref_time": S.S(rt), "ref_midi": S.S(rf), "est_time": S.S(et), "est_midi": S.S(ef),
               "window": None if w is None else str(w)}


def gen_num_true_positives(rng, tier, shard, nshards, boost):
    n = (150 if tier == "quick" else 2500) * boost
    for _ in range(n):
        w = rng.choice([Fr(0), Fr(1, 8), Fr(1, 4), Fr(1, 2), Fr(1, 2), Fr(1), Fr(2), Fr(6)])
        rf = [S.ref_frame(rng, 8, kmax=5) for _ in range(rng.choice([1, 2, 4]))]
        ef = [S.est_frame(rng, f, 8, w, kmax=5, exact_edge=True) for f in rf]
        yield {"ref_midi": S.S(rf), "est_midi": S.S(ef), "window": str(w)}


def gen_scores(rng, tier, shard, nshards, boost):
    n = (150 if tier == "quick" else 2500) * boost
    for _ in range(n):
        k = rng.choice([0, 1, 2, 3, 5, 8])
        nr = [rng.choice([0, 0, 1, 2, 3, 4]) for _ in range(k)]
        ne = [rng.choice([0, 0, 1, 2, 3, 4]) for _ in range(k)]
        if rng.random() < 0.1:
            nr = [0] * k
        if rng.random() < 0.1:
            ne = [0] * k
        tp = [rng.randint(0, min(a, b)) for a, b in zip(nr, ne)]
        yield {"tp": tp, "n_ref": nr, "n_est": ne}


def gen_resample(rng, tier, shard, nshards, boost):
    n = (150 if tier == "quick" else 2500) * boost
    for _ in range(n):
        kind, rt, et = S.time_bases(rng)
        if rng.random() < 0.4:
            lo = min(et) if et else Fr(0)
            rt = sorted(lo + Fr(rng.randint(-8, 80), 64) for _ in range(rng.randint(1, 8)))
        fs = [[Fr(100 + 10 * i + j) for j in range(rng.choice([0, 1, 1, 2, 3]))] for i in range(len(et))]
        yield {"times": S.S(et), "freqs": S.S(fs), "target": S.S(rt)}


ORACLES = {"multipitch.resample_multipitch(sequence)": gen_resample_sequences,
           "multipitch.metrics(sequence)": gen_metrics_sequences,
           "multipitch.metrics": gen_metrics,
           "multipitch.compute_num_true_positives": gen_num_true_positives,
           "multipitch.compute_scores": gen_scores,
           "multipitch.resample_multipitch": gen_resample}
