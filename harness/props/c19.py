"""C19 — BSS-eval decomposition, invariances and framewise consistency (DESIGN §5 C19).

Tie (correspondence).  Around an abstract projection (C19.lean) the model is run against the real code on the real
code's own intermediates; the projection itself has an exact rational model for small filter lengths
(MirModel/SeparationLS.lean, theorems in C19_LS.lean) that is compared with the real `_project`,
`_project_images`, `_bss_decomp_mtifilt(_images)`, `_bss_source_crit/_bss_image_crit` and the public
`bss_eval_sources/images` (suites ls_project, ls_decomp, ls_eval, ls_images, ls_singular; oracle site
`separation._project`: normal equations, span, homogeneity, reference rescaling, idempotence on the real code):
  * decomp_real / crit_real : `_bss_decomp_mtifilt(_images)` with the two `_project(_images)` results captured,
    `_bss_source_crit/_bss_image_crit` on the components the code produced (exact rationals of the doubles);
  * perm_real : the full criterion table assembled from the private functions -> model selection vs. the
    public function's result;
  * select_stub : `bss_eval_sources/images` with the numerical kernel replaced by a table on an exact lattice
    (ties on purpose: first argmax in itertools order), plus validation faults and empty inputs (arity);
  * framewise_stub / windows : `bss_eval_*_framewise` with the non-framewise function replaced by a
    deterministic stand-in and `np.empty` poisoned, so that window slices, the nwin<2 fall-back, NaN columns and
    never-written cells are all observable exactly;
  * safe_db, silent, validate, permutations : the small pieces directly.
Oracle (the property itself on the real code, real FFT/solve numerics): decomposition residual, scale
invariance to 1e-6 dB, permutation validity/optimality/equivariance, perfect estimate, framewise
window-by-window consistency, NaN in every metric of a silent window, arity incl. empty input.
`flen` (512 in the code) is forced to a smaller value for most generated inputs by wrapping the private
decomposition function, which makes thousands of real runs affordable; a fixed share runs with flen = 512.
"""
import contextlib
import itertools
import math
from fractions import Fraction as Fr

import numpy as np

import mir_eval.separation as sep

from core import Case

PID = "C19"
LEAN_MODULES = ["MirProofs.Props.C19", "MirProofs.Props.C19_LS"]
# the criteria, the decomposition arithmetic (and, where translated, the selection / framewise glue) of separation.py are
# REGENERATED from the source (translate/sepcrit.py -> lean/MirGen/SepCrit.lean); Props/C19_Gen.lean proves the generated
# definitions equal to the hand model for all inputs; suite `gen_sepcrit` runs them (driver op `gen.sepcrit`) against the
# real functions
LEAN_MODULES += ["MirProofs.Props.C19_Gen"]
TRANSLATOR_PARTS = ["sepcrit"]
RULE = ("stub suites: exact small-integer lattice, ties and silent stretches generated on purpose; real suites: "
        "gaussian references, mixed/filtered/noise estimates, nsrc 1-3, nchan 1-2; non-trivial = the public "
        "function returns values (no exception, non-empty input)")
ASSUMPTIONS = [
    "C19.lean: the least-squares projection (_project/_project_images) is an abstract parameter of those theorems. "
    "C19_LS.lean instantiates them at an EXACT rational model of _project (MirModel/SeparationLS.lean: Gram matrix "
    "of the delayed references, Gaussian elimination, projected signal) with no hypothesis on the projection left; "
    "that the FFT / Toeplitz / np.linalg.solve / fftconvolve pipeline of the code computes this projection is "
    "checked by correspondence (suites ls_*: tiny integer signals, nsrc 1-2, 8-24 samples, flen forced to 1..3, "
    "Gram matrices non-singular with exact cond_1 <= 1e6; 1e-9), not proved; for flen = 512 and long signals the "
    "numerics are covered by the oracle only",
    "binary64 satisfies the exact model's identities up to rounding (oracle tolerance 1e-6 dB for scale "
    "invariance); the exact theorems need a non-singular Gram matrix (solve? succeeded) wherever a value is asserted",
    "a singular Gram matrix (np.linalg.solve raises LinAlgError or meets a tiny pivot; lstsq fallback) is outside "
    "the domain of project_exact; suite ls_singular compares that branch with an exact any-solution projection "
    "(solveAny?, sound, extends solve?) on duplicated / doubled references and duplicated channels",
    "exact bss_eval_sources/images order permutations by the PRODUCT of the SIR energy ratios; that this is the "
    "order of the mean of 10*log10 (monotonicity of log) is not proved; cases with a top gap < 1e-6 dB, with a "
    "ratio outside [1e-5, 1e5] or with an exactly zero denominator the code cannot reproduce are skipped",
    "model criteria are finite rationals; +/-inf criterion tables are outside the model domain (nsrc = 1 SIR)",
    "most oracle inputs run the real code with flen forced to 4..32 instead of 512 (same code path)",
]
# thorough tier: every (nsampl<=24, window<=10, hop<=8) window layout, every 2x2 SIR table over {0,1,2} and
# every 3x3 table over {0,1} (all tie patterns), every (n<=12, window<=6, hop<=5) framewise stub layout
EXHAUSTIVE = {"quick": False, "thorough": True}
UNPROVED = [
    "perfect estimate => identity permutation and SDR > 100 dB in binary64 (oracle only; in exact arithmetic: "
    "perfect_estimate_sources/images, sourceCritExact_perfect, decompExact_perfect, bestPerm_identity_of_dominant)",
    "the FFT-based computation of G and D, np.linalg.solve and fftconvolve equal the exact Gram matrix / solution / "
    "combination (correspondence ls_project incl. the G, D handed to np.linalg.solve; not proved: no binary64 model)",
    "exact model of _project_images: per-channel theorems (projectImages_channelwise, _normal_equations, "
    "_least_squares, _homogeneous); the IMAGE criteria on it (imageCritExact, decompImagesExact) are executable and "
    "tied by correspondence (ls_images), no separate theorems",
    "the lstsq fall-back model is total and a least-squares minimiser for ALL inputs (solveAny_isSome_iff, "
    "normal_equations_consistent, solveAny_normal_equations, projectAny_total, projectAny_least_squares) and returns "
    "the signal of ANY exact solution of the normal equations, np.linalg.lstsq's minimum-norm one included "
    "(projectAny_eq_of_solution); that lstsq's binary64 output is such a solution to 1e-9 is compared "
    "(project_lstsq_exact), not proved; the criteria theorems (sourceCritExact_*) are stated for the non-singular "
    "path only, where a singular Gram matrix is outside the model's domain",
    "argmax of mean SIR in dB = argmax of the product of SIR ratios: proved over the reals for positive ratios "
    "(bestPermMul_is_first_argmax_db, mean_db_le_iff_prod_le); binary64 near-ties between permutations are outside "
    "any proof (the stub suites generate exact ties on purpose and compare)",
]

SENT = 424242.0  # what a poisoned np.empty is filled with (Mir.Separation.uninitSentinel)


# ----------------------------------------------------------------------------------------
# patching helpers

class _PoisonNP:
    """Stands in for the `np` global of mir_eval.separation: np.empty returns sentinel-filled arrays."""

    def __getattr__(self, k):
        return getattr(np, k)

    @staticmethod
    def empty(shape, *a, **k):
        return np.full(shape, SENT)


@contextlib.contextmanager
def patched(**attrs):
    old = {k: getattr(sep, k) for k in attrs}
    try:
        for k, v in attrs.items():
            setattr(sep, k, v)
        yield
    finally:
        for k, v in old.items():
            setattr(sep, k, v)


@contextlib.contextmanager
def forced_flen(flen):
    """Run the public functions with the filter length `flen` instead of the hard-coded 512."""
    if flen == 512:
        yield
        return
    o1, o2 = sep._bss_decomp_mtifilt, sep._bss_decomp_mtifilt_images

    def d1(r, e, j, _flen):
        return o1(r, e, j, flen)

    def d2(r, e, j, _flen, Gj=None, G=None):
        return o2(r, e, j, flen, Gj, G)

    with patched(_bss_decomp_mtifilt=d1, _bss_decomp_mtifilt_images=d2):
        yield


def fr(x):
    return Fr(float(x))


def rows_fr(a):
    a = np.atleast_2d(np.asarray(a, dtype=float))
    return [[Fr(x) for x in row] for row in a.tolist()]


def arr_args(a):
    """ndarray -> (shape, data[source][sample][channel]) as the model's `Arr`."""
    a = np.asarray(a, dtype=float)
    shape = list(a.shape)
    if a.size == 0 or a.ndim > 3:
        nsrc = 1 if a.ndim <= 1 else a.shape[0]
        return shape, [[] for _ in range(nsrc)] if a.ndim <= 3 else []
    if a.ndim == 0:
        d = [[[Fr(float(a))]]]
    elif a.ndim == 1:
        d = [[[Fr(x)] for x in a.tolist()]]
    elif a.ndim == 2:
        d = [[[Fr(x)] for x in row] for row in a.tolist()]
    else:
        d = [[[Fr(x) for x in samp] for samp in src] for src in a.tolist()]
    return shape, d


# ----------------------------------------------------------------------------------------
# signal recipes (json-able; everything is regenerated from the recipe)

def make_signals(r):
    rs = np.random.RandomState(r["seed"])
    nsrc, n = r["nsrc"], r["n"]
    nchan = r.get("nchan", 0)
    shape = (nsrc, n) if not nchan else (nsrc, n, nchan)
    ref = rs.randn(*shape)
    pcm = r.get("pcm")
    ref_out = None
    if pcm:
        # the references as integer PCM samples (what an audio reader hands over): the estimates are built from the same
        # signals at unit scale, the references handed to the library are their quantised integer versions
        if pcm == "uint8":
            ref_out = np.clip(np.round(ref * 40.0) + 128.0, 0, 255)
            ref = (ref_out - 128.0) / 40.0
        elif pcm == "uint16":
            ref_out = np.clip(np.round(ref * 8000.0) + 32768.0, 0, 65535)
            ref = (ref_out - 32768.0) / 8000.0
        else:
            ref_out = np.clip(np.round(ref * 8000.0), -32768, 32767)
            if pcm == "int16":
                ref_out.reshape(-1)[rs.randint(ref_out.size)] = -32768.0      # a clipped sample
            ref = ref_out / 8000.0
    kind = r.get("kind", "mix")
    if kind == "noise":
        est = rs.randn(*shape)
    elif kind == "mix":
        A = np.eye(nsrc) + 0.35 * rs.randn(nsrc, nsrc)
        est = np.tensordot(A, ref, axes=(1, 0)) + 0.1 * rs.randn(*shape)
    elif kind == "filtered":
        est = np.zeros(shape)
        for j in range(nsrc):
            h = rs.randn(3) * np.array([1.0, 0.5, 0.25])
            x = ref[j].reshape(n, -1)
            y = np.zeros_like(x)
            for d, c in enumerate(h):
                y[d:] += c * x[:n - d]
            est[j] = y.reshape(ref[j].shape)
        est = est + 0.2 * np.roll(ref, 1, axis=0) * (nsrc > 1) + 0.05 * rs.randn(*shape)
    elif kind == "perfect":
        est = ref.copy()
    else:
        raise ValueError(kind)
    tau = r.get("tau")
    if tau is not None:
        est = est[list(tau)].copy()
    for (which, src, a, b, g) in r.get("gains", []):
        (ref if which == "ref" else est)[src, a:b] *= g        # a passage far quieter (or louder) than the rest
    for (which, src, a, b) in r.get("silent", []):
        (ref if which == "ref" else est)[src, a:b] = 0.0
    if pcm and not r.get("gains") and not r.get("silent"):
        ref = ref_out.astype(pcm)
        if kind == "perfect":
            est = ref[list(tau)].copy() if tau is not None else ref.copy()
    return ref, est


def _fn(name):
    return {"sources": sep.bss_eval_sources, "images": sep.bss_eval_images,
            "sources_framewise": sep.bss_eval_sources_framewise,
            "images_framewise": sep.bss_eval_images_framewise}[name]


def crit_table(ref, est, images, flen):
    """criterion table [jest][jtrue] -> tuple, assembled from the private functions."""
    nsrc = est.shape[0]
    T = [[None] * nsrc for _ in range(nsrc)]
    for je in range(nsrc):
        for jt in range(nsrc):
            if images:
                n, nchan = est.shape[1], est.shape[2]
                comps = sep._bss_decomp_mtifilt_images(ref, np.reshape(est[je], (n, nchan), order="F"), jt, flen)
                T[je][jt] = tuple(float(x) for x in sep._bss_image_crit(*comps))
            else:
                comps = sep._bss_decomp_mtifilt(ref, est[je], jt, flen)
                T[je][jt] = tuple(float(x) for x in sep._bss_source_crit(*comps))
    return T


# ----------------------------------------------------------------------------------------
# correspondence suites

def suite_safe_db(rng, tier, shard, nshards):
    vals = [Fr(0), Fr(1, 4), Fr(3, 8), Fr(1), Fr(2), Fr(10), Fr(100), Fr(1, 1024), Fr(12345, 16), Fr(10 ** 12)]
    pairs = [(a, b) for a in vals for b in vals]
    for i, (a, b) in enumerate(pairs):
        if i % nshards != shard:
            continue
        yield Case("separation.safe_db", [a, b], lambda a=a, b=b: sep._safe_db(float(a), float(b)),
                   tag="den0" if b == 0 else ("num0" if a == 0 else "ratio"),
                   info={"num": str(a), "den": str(b)}, nontrivial=True)


def suite_permutations(rng, tier, shard, nshards):
    if shard != 0:
        return
    for n in range(0, 7):
        yield Case("separation.permutations", [n],
                   lambda n=n: [list(p) for p in itertools.permutations(list(range(n)))],
                   tag="n=%d" % n, info={"n": n})


def _small_arr(rng, shape, pzero=0.3, lo=-2, hi=3):
    a = np.zeros(shape)
    it = np.nditer(a, flags=["multi_index"], op_flags=["readwrite"])
    for x in it:
        x[...] = 0.0 if rng.random() < pzero else float(rng.randint(lo, hi))
    return a


def suite_silent(rng, tier, shard, nshards):
    n = 60 if tier == "quick" else 600
    for _ in range(n):
        nsrc, ns = rng.randint(1, 3), rng.randint(1, 4)
        if rng.random() < 0.5:
            a = _small_arr(rng, (nsrc, ns), pzero=0.6)
        else:
            a = _small_arr(rng, (nsrc, ns, 2), pzero=0.5, lo=-1, hi=1)
        sh, d = arr_args(a)
        yield Case("separation.any_source_silent", [sh, d], lambda a=a: bool(sep._any_source_silent(a)),
                   tag="%dd" % a.ndim, info={"a": a.tolist()})


def _select_case(rng, images, exhaustive_table=None):
    """bss_eval_sources / bss_eval_images with the kernel replaced by a table."""
    nm = 4 if images else 3
    nsrc = rng.choice([1, 2, 2, 3, 3, 3, 4]) if exhaustive_table is None else len(exhaustive_table)
    ns = rng.randint(2, 4)
    nchan = rng.choice([1, 2]) if images else 0
    shape = (nsrc, ns, nchan) if images and rng.random() < 0.7 else (nsrc, ns)
    fault = rng.choice(["none"] * 6 + ["shape", "silent_ref", "silent_est", "ndim4", "empty", "many", "1d",
                                       "chansum"]) if exhaustive_table is None else "none"
    ref = _small_arr(rng, shape, pzero=0.2, lo=1, hi=3)
    est = _small_arr(rng, shape, pzero=0.2, lo=1, hi=3)
    ref[:, 0] = 1.0
    for j in range(nsrc):
        est[j, 0] = 0.0
        est[j].flat[0] = j + 1.0          # the stub reads the estimate's index from here
    if fault == "shape":
        est = np.concatenate([est, est[:, :1]], axis=1)
    elif fault == "silent_ref":
        ref[rng.randrange(nsrc)] = 0.0
    elif fault == "silent_est":
        est[rng.randrange(nsrc)] = 0.0
    elif fault == "ndim4":
        ref = ref.reshape(ref.shape + (1,) * (4 - ref.ndim))
        est = est.reshape(est.shape + (1,) * (4 - est.ndim))
    elif fault == "empty":
        sh = rng.choice([(0,), (0, 0), (2, 0), (0, 3)] + ([(2, 0, 2), (0, 3, 1)] if images else []))
        ref, est = np.zeros(sh), np.zeros(sh)
    elif fault == "many":
        ref, est = np.ones((101, 2)), np.ones((101, 2))
    elif fault == "1d":
        ref, est = np.array([1.0, 2.0, 0.0]), np.array([1.0, 0.0, 3.0])
        nsrc = 1
    elif fault == "chansum":
        if images and ref.ndim == 3 and ref.shape[2] == 2:
            est[0, :, 0] = 2.0
            est[0, :, 1] = -2.0           # channel sums are 0 at every sample: "silent" for the code
    cp = rng.random() < 0.7
    if exhaustive_table is not None:
        table = exhaustive_table
    else:
        hi = rng.choice([1, 2, 3, 8])
        table = [[[Fr(rng.randint(0, hi)) if o == (2 if images else 1) else Fr(rng.randint(-40, 160), 4)
                   for o in range(nm)] for _ in range(nsrc)] for _ in range(nsrc)]
    ftab = [[[float(x) for x in c] for c in row] for row in table]

    def call(ref=ref, est=est, cp=cp, ftab=ftab, images=images):
        def dec_s(r, e, j, flen):
            return (int(round(float(np.asarray(e).flat[0]))) - 1, j, None, None)

        def dec_i(r, e, j, flen, Gj=None, G=None):
            t = (int(round(float(np.asarray(e).flat[0]))) - 1, j, None, None)
            return t if (Gj is None or G is None) else t + (Gj, G)

        def crit(a, b, c, d):
            return tuple(ftab[a][b])

        with patched(_bss_decomp_mtifilt=dec_s, _bss_decomp_mtifilt_images=dec_i,
                     _bss_source_crit=crit, _bss_image_crit=crit):
            return (sep.bss_eval_images if images else sep.bss_eval_sources)(ref, est, cp)

    rs, rd = arr_args(ref)
    es, ed = arr_args(est)
    op = "separation.bss_eval_images" if images else "separation.bss_eval_sources"
    return Case(op, [rs, rd, es, ed, cp, table], call,
                tag="%s nsrc=%d cp=%s" % (fault, nsrc, cp),
                info={"fault": fault, "ref": ref.tolist(), "est": est.tolist(), "cp": cp,
                      "table": [[[str(x) for x in c] for c in row] for row in table]},
                nontrivial=(fault in ("none", "1d")))


def suite_select_stub(rng, tier, shard, nshards):
    n = 150 if tier == "quick" else 1500
    for _ in range(n):
        yield _select_case(rng, images=rng.random() < 0.5)
    if tier == "thorough":
        # all 2x2 SIR tables over {0,1,2} and all 3x3 over {0,1}: every tie pattern
        idx = 0
        for vals, nsrc in (((0, 1, 2), 2), ((0, 1), 3)):
            for t in itertools.product(vals, repeat=nsrc * nsrc):
                idx += 1
                if idx % nshards != shard:
                    continue
                for images in (False, True):
                    nm, si = (4, 2) if images else (3, 1)
                    table = [[[Fr(t[a * nsrc + b]) if o == si else Fr(10 * a + b + o, 2) for o in range(nm)]
                              for b in range(nsrc)] for a in range(nsrc)]
                    yield _select_case(rng, images, exhaustive_table=table)


def _stub_eval(nout):
    def f(ref, est, cp=True):
        ref, est = np.asarray(ref), np.asarray(est)
        nsrc, w = ref.shape[0], ref.shape[1]
        r2 = ref.reshape(nsrc, w, -1).sum(axis=2)
        e2 = est.reshape(nsrc, w, -1).sum(axis=2)
        idx = np.arange(1, w + 1)
        outs = [o * 4096.0 + (r2 * idx).sum(axis=1) + 64.0 * (e2 * idx).sum(axis=1) for o in range(nout - 1)]
        perm = np.arange(nsrc)[::-1] if cp else np.arange(nsrc)
        return tuple(outs) + (perm,)
    return f


def _framewise_case(rng, images, params=None):
    nsrc = rng.randint(1, 3)
    n = rng.randint(1, 14)
    nchan = rng.choice([1, 2])
    shape = (nsrc, n, nchan) if images and rng.random() < 0.7 else (nsrc, n)
    window, hop = rng.randint(1, 6), rng.choice([0, 1, 1, 2, 2, 3, 4, 5])
    if params:
        n, window, hop = params
        shape = (nsrc, n, nchan) if images and rng.random() < 0.5 else (nsrc, n)
    fault = rng.choice(["none"] * 8 + ["shape", "silent_all", "empty", "1d"]) if not params else "none"
    ref = _small_arr(rng, shape, pzero=0.15, lo=1, hi=3)
    est = _small_arr(rng, shape, pzero=0.15, lo=1, hi=3)
    # silent stretches
    for a in (ref, est):
        if rng.random() < 0.6 and n > 1:
            s = rng.randrange(n)
            e = min(n, s + rng.randint(1, max(1, window + 1)))
            a[rng.randrange(nsrc), s:e] = 0.0
    if fault != "silent_all":
        # keep every source non-silent over the whole signal
        for a in (ref, est):
            for j in range(nsrc):
                if not np.any(a[j].reshape(n, -1).sum(axis=1) != 0):
                    a[j, rng.randrange(n)] = 1.0
    if fault == "shape":
        est = np.concatenate([est, est[:, :1]], axis=1)
    elif fault == "silent_all":
        (ref if rng.random() < 0.5 else est)[rng.randrange(nsrc)] = 0.0
    elif fault == "empty":
        sh = rng.choice([(0,), (0, 0), (2, 0), (0, 3)] + ([(2, 0, 2)] if images else []))
        ref, est = np.zeros(sh), np.zeros(sh)
    elif fault == "1d":
        ref = np.array([1.0, 0.0, 0.0, 2.0, 1.0, 0.0][:max(2, min(n, 6))])
        est = np.array([1.0, 1.0, 0.0, 0.0, 1.0, 3.0][:max(2, min(n, 6))])
    cp = rng.random() < 0.5
    nout = 5 if images else 4

    def call(ref=ref, est=est, window=window, hop=hop, cp=cp, images=images, nout=nout):
        stub = _stub_eval(nout)
        with patched(np=_PoisonNP(), bss_eval_sources=stub, bss_eval_images=stub):
            return (sep.bss_eval_images_framewise if images else sep.bss_eval_sources_framewise)(
                ref, est, window, hop, cp)

    rs, rd = arr_args(ref)
    es, ed = arr_args(est)
    op = "separation.bss_eval_images_framewise" if images else "separation.bss_eval_sources_framewise"
    return Case(op, [rs, rd, es, ed, window, hop, cp], call,
                tag="%s %s" % (fault, "hop0" if hop == 0 else ("fallback" if (n - window + hop) // hop < 2 else "windows")),
                info={"fault": fault, "ref": ref.tolist(), "est": est.tolist(), "window": window, "hop": hop, "cp": cp},
                nontrivial=(fault in ("none", "1d") and hop != 0))


def suite_framewise_stub(rng, tier, shard, nshards):
    n = 300 if tier == "quick" else 3000
    for _ in range(n):
        yield _framewise_case(rng, images=rng.random() < 0.5)
    if tier == "thorough":
        idx = 0
        for nn in range(1, 13):
            for w in range(1, 7):
                for h in range(1, 6):
                    idx += 1
                    if idx % nshards == shard:
                        yield _framewise_case(rng, images=bool(idx & 1), params=(nn, w, h))


def suite_windows(rng, tier, shard, nshards):
    """`separation.framewise_windows`: the slices the real framewise function hands to bss_eval_sources."""
    if tier == "quick":
        triples = [(rng.randint(1, 40), rng.randint(1, 12), rng.randint(0, 8)) for _ in range(120)]
    else:
        triples = [(n, w, h) for n in range(1, 25) for w in range(1, 11) for h in range(0, 9)]
        triples = [t for i, t in enumerate(triples) if i % nshards == shard]
    for (n, w, h) in triples:
        def call(n=n, w=w, h=h):
            sig = np.arange(1.0, n + 1.0)[None, :]
            seen = []

            def rec(r, e, cp=True):
                seen.append([int(r[0, 0]) - 1, int(r[0, 0]) - 1 + r.shape[1]])
                z = np.zeros(r.shape[0])
                return z, z, z, z

            with patched(bss_eval_sources=rec):
                out = sep.bss_eval_sources_framewise(sig, sig.copy(), w, h, False)
            if len(seen) == 1 and np.asarray(out[0]).shape == (1, 1) and seen[0] == [0, n]:
                return [True, []]
            return [False, seen]
        yield Case("separation.framewise_windows", [n, w, h], call,
                   tag="hop0" if h == 0 else ("fallback" if (n - w + h) // h < 2 else "windows"),
                   info={"n": n, "window": w, "hop": h}, nontrivial=(h != 0))


def _real_recipe(rng, tier, images, real_flen_ok=True, kinds=("noise", "mix", "filtered")):
    nsrc = rng.choice([1, 2, 2, 3])
    nchan = rng.choice([1, 2]) if images else 0
    if real_flen_ok and rng.random() < 0.2 and nsrc * max(nchan, 1) <= (2 if tier == "quick" else 4):
        flen = 512
        n = 2 * nsrc * 512 + rng.randint(0, 300)
    else:
        flen = rng.choice([4, 8, 16, 32])
        n = 2 * nsrc * flen * max(nchan, 1) + rng.randint(8, 200)
    r = {"nsrc": nsrc, "n": n, "seed": rng.randrange(2 ** 31), "kind": rng.choice(list(kinds)), "flen": flen}
    if images:
        r["nchan"] = nchan
    return r


def suite_decomp_real(rng, tier, shard, nshards):
    """decomposition + criteria on the code's own projections / components."""
    ncase = 12 if tier == "quick" else 60
    for ci in range(ncase):
        images = rng.random() < 0.5
        r = _real_recipe(rng, tier, images, real_flen_ok=(tier != "quick" or rng.random() < 0.5))
        r["n"] = min(r["n"], 1400)
        if ci == 0 and shard < 4:
            r["flen"] = 512               # a fixed share with the code's own filter length
            images = bool(shard & 1)
            if images:
                r["nchan"] = 1
            else:
                r.pop("nchan", None)
        if r["flen"] == 512:
            r["nsrc"], r["n"] = 1, 1024 + rng.randint(0, 200)
            if images:
                r["nchan"] = 1
        ref, est = make_signals(r)
        nsrc, n, flen = r["nsrc"], r["n"], r["flen"]
        je, jt = rng.randrange(nsrc), rng.randrange(nsrc)
        rec = []
        if images:
            nchan = r["nchan"]
            e = np.reshape(est[je], (n, nchan), order="F")
            orig = sep._project_images

            def wrap(*a, **k):
                out = orig(*a, **k)
                rec.append(out)
                return out
            with patched(_project_images=wrap):
                comps = sep._bss_decomp_mtifilt_images(ref, e, jt, flen)
            s_true_rows = np.hstack((np.reshape(ref[jt], (n, nchan), order="F").T, np.zeros((nchan, flen - 1))))
            se_rows = e.T
        else:
            orig = sep._project

            def wrap(*a, **k):
                out = orig(*a, **k)
                rec.append(out)
                return out
            with patched(_project=wrap):
                comps = sep._bss_decomp_mtifilt(ref, est[je], jt, flen)
            s_true_rows = np.hstack((ref[jt], np.zeros(flen - 1)))[None, :]
            se_rows = est[je][None, :]
        comps = [np.atleast_2d(c) for c in comps]
        info = dict(r, jest=je, jtrue=jt, images=images)
        yield Case("separation.decomp",
                   [rows_fr(s_true_rows), rows_fr(rec[0]), rows_fr(rec[1]), rows_fr(se_rows)],
                   lambda comps=comps: [c for c in comps], tol=1e-9,
                   tag="%s flen=%d" % ("images" if images else "sources", flen), info=info)
        cargs = [rows_fr(c) for c in comps]
        if images:
            yield Case("separation.image_crit", cargs,
                       lambda comps=comps: [float(x) for x in sep._bss_image_crit(*comps)], tol=1e-9,
                       tag="images flen=%d" % flen, info=info)
        else:
            flat = [c[0] for c in comps]
            yield Case("separation.source_crit", cargs,
                       lambda flat=flat: [float(x) for x in sep._bss_source_crit(*flat)], tol=1e-9,
                       tag="sources flen=%d" % flen, info=info)


def _top_gap(table, si, nsrc):
    means = sorted((sum(Fr(table[p[j]][j][si]) for j in range(nsrc)) / nsrc
                    for p in itertools.permutations(range(nsrc))), reverse=True)
    return float(means[0] - means[1]) if len(means) > 1 else float("inf")


def suite_perm_real(rng, tier, shard, nshards):
    """Model selection on the real criterion table vs. the public function."""
    ncase = 12 if tier == "quick" else 60
    for _ in range(ncase):
        images = rng.random() < 0.5
        r = _real_recipe(rng, tier, images, real_flen_ok=False)
        r["nsrc"] = rng.choice([2, 3])
        r["n"] = 2 * r["nsrc"] * r["flen"] * max(r.get("nchan", 1), 1) + rng.randint(8, 60)
        if rng.random() < 0.5:
            tau = list(range(r["nsrc"]))
            rng.shuffle(tau)
            r["tau"] = tau
        ref, est = make_signals(r)
        cp = rng.random() < 0.8
        T = crit_table(ref, est, images, r["flen"])
        if not all(math.isfinite(x) for row in T for c in row for x in c):
            continue
        si = 2 if images else 1
        if cp and _top_gap(T, si, r["nsrc"]) < 1e-9:
            continue
        table = [[[Fr(x) for x in c] for c in row] for row in T]
        rs, rd = arr_args(ref)
        es, ed = arr_args(est)

        def call(ref=ref, est=est, cp=cp, images=images, flen=r["flen"]):
            with forced_flen(flen):
                return (sep.bss_eval_images if images else sep.bss_eval_sources)(ref, est, cp)
        yield Case("separation.bss_eval_images" if images else "separation.bss_eval_sources",
                   [rs, rd, es, ed, cp, table], call, tol=1e-9,
                   tag="%s nsrc=%d cp=%s" % ("images" if images else "sources", r["nsrc"], cp),
                   info=dict(r, cp=cp, images=images))


# ----------------------------------------------------------------------------------------
# exact least-squares model (MirModel/SeparationLS.lean) vs the real `_project` & co.
#
# Tiny integer-valued signals (nsrc 1-2, 8-24 samples), the code's filter length forced to 1..3.  A candidate is
# kept only when the exact model says that every Gram matrix involved is non-singular with a 1-norm condition
# number <= 1e6 (decided over Rat in the model, `separation.gram_info_exact`) and, for the criteria, that every
# finite energy ratio lies in [1e-5, 1e5] (so that 1e-9 on the dB value is a fair bound for binary64).

LS_COND_MAX = 10 ** 6
LS_RATIO_MAX = Fr(10 ** 5)


def _ls_signal(rng, n, kind):
    if kind == "sparse":
        x = [rng.choice([0, 0, 1, -1, 2]) for _ in range(n)]
    elif kind == "ramp":
        a, b = rng.randint(-2, 2), rng.randint(1, 3)
        x = [((a + b * t) % 7) - 3 for t in range(n)]
    else:
        x = [rng.randint(-4, 4) for _ in range(n)]
    if not any(x):
        x[rng.randrange(n)] = 1
    return x


def _ls_candidate(rng):
    nsrc = rng.choice([1, 2, 2])
    n = rng.randint(8, 24)
    flen = rng.choice([1, 2, 3])
    refs = [_ls_signal(rng, n, rng.choice(["dense", "dense", "sparse", "ramp"])) for _ in range(nsrc)]
    kind = rng.choice(["noise", "mix", "filtered", "scaled"])
    ests = []
    for j in range(nsrc):
        if kind == "noise":
            e = _ls_signal(rng, n, "dense")
        elif kind == "mix":
            a = [rng.randint(-2, 3) for _ in range(nsrc)]
            a[j] = a[j] or 2
            e = [sum(a[i] * refs[i][t] for i in range(nsrc)) + rng.choice([0, 0, 1, -1]) for t in range(n)]
        elif kind == "filtered":
            h = [rng.randint(1, 3), rng.randint(-2, 2), rng.randint(-1, 1)]
            e = [sum(h[d] * refs[j][t - d] for d in range(3) if t - d >= 0) + rng.choice([0, 0, 0, 1, -1])
                 for t in range(n)]
        else:
            c = rng.choice([-3, 2, 5])
            e = [c * refs[j][t] + rng.choice([0, 1, -1]) for t in range(n)]
        if not any(e):
            e[rng.randrange(n)] = 1
        ests.append(e)
    if nsrc == 2 and rng.random() < 0.4:
        ests.reverse()
    return {"refs": refs, "ests": ests, "flen": flen, "kind": kind}


def _frs(xs):
    return [Fr(x) for x in xs]


def _ask_model(reqs):
    """[(op, args)] -> decoded model answers (Err for bad-op)"""
    import core
    import proto
    lines = ["%d %s %s\n" % (i, op, " ".join(proto.enc(a) for a in args)) for i, (op, args) in enumerate(reqs)]
    outs = core.run_driver(lines) if lines else []
    return [proto.dec_line(outs[i])[1] for i in range(len(reqs))]


def _ls_well_conditioned(cands):
    """keep the candidates whose Gram matrices (all references; each reference alone) are non-singular with
    cond_1 <= 1e6 according to the exact model"""
    import proto
    infos = _ask_model([("separation.gram_info_exact", [[_frs(r) for r in c["refs"]], c["flen"]]) for c in cands])
    keep = []
    for c, info in zip(cands, infos):
        if isinstance(info, proto.Err) or not isinstance(info, list):
            raise AssertionError("separation.gram_info_exact answered %r" % (info,))
        if any(k is None for k in info) or max(info) > LS_COND_MAX:
            continue
        c["cond"] = float(max(info))
        keep.append(c)
    return keep


def _ratio_db(v):
    """model energy ratio (Fraction | inf) -> dB as the code's `_safe_db` reports it"""
    if isinstance(v, list):
        return [_ratio_db(x) for x in v]
    if isinstance(v, float):          # inf
        return v
    if v == 0:
        return float("-inf")
    return 10.0 * (math.log10(v.numerator) - math.log10(v.denominator))


def _ratios_fair(vals, inf_ok=()):
    """every finite ratio in [1e-5, 1e5]; an infinite one (denominator exactly 0 in the model) only at the
    positions `inf_ok` of a criterion tuple, where the code's denominator is an exact 0 as well (SIR when all
    references are the target: e_interf = (p - s) - (p - s) with the same p twice)"""
    for k, v in enumerate(vals):
        if isinstance(v, list):
            if not _ratios_fair(v, inf_ok):
                return False
        elif isinstance(v, Fr):
            if not (1 / LS_RATIO_MAX <= v <= LS_RATIO_MAX):
                return False
        elif k not in inf_ok:
            return False
    return True


class _SolveSpy:
    """Stands in for the `np` global of mir_eval.separation: records the arguments of np.linalg.solve."""

    def __init__(self, rec):
        spy = self

        class _LA:
            def __getattr__(self, k):
                return getattr(np.linalg, k)

            @staticmethod
            def solve(G, D):
                rec.append((np.array(G, dtype=float), np.array(D, dtype=float)))
                return np.linalg.solve(G, D)
        spy.linalg = _LA()

    def __getattr__(self, k):
        return getattr(np, k)


def _ncand(tier):
    return 40 if tier == "quick" else 400


def suite_ls_project(rng, tier, shard, nshards):
    """`_project` (value, and the G, D it hands to np.linalg.solve) vs the exact model"""
    cands = _ls_well_conditioned([_ls_candidate(rng) for _ in range(_ncand(tier))])
    for c in cands:
        refs, flen = c["refs"], c["flen"]
        nsrc = len(refs)
        je = rng.randrange(nsrc)
        est = c["ests"][je]
        info = {"refs": refs, "est": est, "flen": flen, "kind": c["kind"], "cond": c["cond"]}
        tag = "nsrc=%d flen=%d %s" % (nsrc, flen, c["kind"])
        for sub in [list(range(nsrc))] + ([[rng.randrange(nsrc)]] if nsrc > 1 else []):
            rr = [refs[i] for i in sub]
            R, E = np.array(rr, dtype=float), np.array(est, dtype=float)
            yield Case("separation.project_exact", [[_frs(r) for r in rr], _frs(est), flen],
                       lambda R=R, E=E, flen=flen: sep._project(R, E, flen), tol=1e-9, tag=tag,
                       info=dict(info, refs=rr))

            def gd(R=R, E=E, flen=flen):
                rec = []
                with patched(np=_SolveSpy(rec)):
                    sep._project(R, E, flen)
                return [rec[0][0], rec[0][1]]
            yield Case("separation.gram_exact", [[_frs(r) for r in rr], _frs(est), flen], gd, tol=1e-9,
                       tag="G,D " + tag, info=dict(info, refs=rr))


def _ls_singular(rng):
    """references whose delayed copies are exactly linearly dependent (a repeated or doubled reference): the
    code's `np.linalg.solve` raises LinAlgError (or meets a tiny pivot) and `lstsq` is used"""
    n, flen = rng.randint(8, 24), rng.choice([1, 2, 3])
    r0 = _ls_signal(rng, n, "dense")
    kind = rng.choice(["dup", "dup3", "doubled"])
    if kind == "dup":
        refs = [r0, list(r0)]
    elif kind == "dup3":
        refs = [r0, _ls_signal(rng, n, "dense"), list(r0)]
    else:
        refs = [r0, [2 * x for x in r0]]
    return {"refs": refs, "est": _ls_signal(rng, n, "dense"), "flen": flen, "kind": "singular-" + kind}


def _solve_raises(fn):
    """run `fn` (a call into mir_eval.separation) and tell whether its np.linalg.solve raised LinAlgError"""
    seen = []

    class _LA:
        def __getattr__(self, k):
            return getattr(np.linalg, k)

        @staticmethod
        def solve(G, D):
            try:
                return np.linalg.solve(G, D)
            except np.linalg.LinAlgError:
                seen.append(True)
                raise

    class _NP:
        linalg = _LA()

        def __getattr__(self, k):
            return getattr(np, k)
    import warnings
    with warnings.catch_warnings():
        warnings.simplefilter("ignore")
        with patched(np=_NP()):
            out = fn()
    return bool(seen), out


def _ls_singular_images(rng, est, flen):
    """one stereo source with identical channels (+ possibly a second, independent source)"""
    ch = _ls_signal(rng, len(est), "dense")
    refs3 = [[ch, list(ch)]] + ([[_ls_signal(rng, len(est), "dense") for _ in range(2)]] if rng.random() < 0.5 else [])
    estc = [est, _ls_signal(rng, len(est), "dense")]
    return {"refs3": refs3, "est": estc, "flen": min(flen, 2)}


def suite_ls_singular(rng, tier, shard, nshards):
    """`_project` / `_project_images` on rank-deficient references vs the exact projection with free unknowns set
    to 0 (same projected signal), on the inputs where the code's np.linalg.solve does raise LinAlgError, i.e. the
    `except LinAlgError: lstsq` branch is taken.  (Where solve returns without raising on an exactly singular
    Gram matrix the result is rounding noise: known finding c19_rank_deficient_references_solve_no_error, oracle
    check `ls_singular`.)"""
    for _ in range(12 if tier == "quick" else 120):
        c = _ls_singular(rng)
        refs, est, flen = c["refs"], c["est"], c["flen"]
        R, E = np.array(refs, dtype=float), np.array(est, dtype=float)
        if _solve_raises(lambda: sep._project(R, E, flen))[0]:
            yield Case("separation.project_lstsq_exact", [[_frs(r) for r in refs], _frs(est), flen],
                       lambda R=R, E=E, flen=flen: sep._project(R, E, flen), tol=1e-8,
                       tag="sources flen=%d %s" % (flen, c["kind"]), info=c)
        ci = _ls_singular_images(rng, est, flen)
        refs3, estc, fl = ci["refs3"], ci["est"], ci["flen"]
        R3 = np.array(refs3, dtype=float).transpose(0, 2, 1)
        E3 = np.array(estc, dtype=float).T
        if _solve_raises(lambda: sep._project_images(R3, E3, fl))[0]:
            yield Case("separation.project_images_exact",
                       [[[_frs(x) for x in src] for src in refs3], [_frs(x) for x in estc], fl, True],
                       lambda R3=R3, E3=E3, fl=fl: sep._project_images(R3, E3, fl), tol=1e-8,
                       tag="images flen=%d nsrc=%d singular-dupchan" % (fl, len(refs3)), info=ci)


def _ls_images_candidate(rng):
    nsrc, nchan = rng.choice([1, 2, 2]), rng.choice([1, 2])
    n, flen = rng.randint(8, 16), rng.choice([1, 2])
    refs = [[_ls_signal(rng, n, rng.choice(["dense", "dense", "sparse"])) for _ in range(nchan)] for _ in range(nsrc)]
    ests = []
    for j in range(nsrc):
        a = [rng.randint(-1, 2) for _ in range(nsrc)]
        a[j] = a[j] or 2
        e = [[sum(a[i] * refs[i][c][t] for i in range(nsrc)) + rng.choice([0, 1, -1, 2]) for t in range(n)]
             for c in range(nchan)]
        for ch in e:
            if not any(ch):
                ch[rng.randrange(n)] = 1
        ests.append(e)
    return {"refs": refs, "ests": ests, "flen": flen, "nchan": nchan}


def _fr3(a):
    return [[_frs(x) for x in src] for src in a]


def suite_ls_images(rng, tier, shard, nshards):
    """`_project_images` (also with G handed in as zeros and returned), `_bss_decomp_mtifilt_images`,
    `_bss_image_crit`, `bss_eval_images` with and without permutation (without: the Gram matrix cached by the
    first source is reused for the next) vs the exact model"""
    import proto
    cands = [_ls_images_candidate(rng) for _ in range(_ncand(tier) // 2)]
    infos = _ask_model([("separation.gram_info_images_exact", [_fr3(c["refs"]), c["flen"]]) for c in cands])
    keep = []
    for c, info in zip(cands, infos):
        if isinstance(info, proto.Err):
            raise AssertionError("separation.gram_info_images_exact answered %r" % (info,))
        if any(k is None for k in info) or max(info) > LS_COND_MAX:
            continue
        c["cond"] = float(max(info))
        keep.append(c)
    reqs = [("separation.bss_image_crit_exact", [_fr3(c["refs"]), [_frs(x) for x in c["ests"][je]], jt, c["flen"]])
            for c in keep for je in range(len(c["refs"])) for jt in range(len(c["refs"]))]
    answers = iter(_ask_model(reqs))
    for c in keep:
        refs, ests, flen, nchan = c["refs"], c["ests"], c["flen"], c["nchan"]
        nsrc = len(refs)
        table = [[next(answers) for _ in range(nsrc)] for _ in range(nsrc)]
        R = np.array(refs, dtype=float).transpose(0, 2, 1)                    # (nsrc, nsampl, nchan)
        Es = [np.array(e, dtype=float).T for e in ests]                        # (nsampl, nchan) each
        tag = "nsrc=%d nchan=%d flen=%d" % (nsrc, nchan, flen)
        je = rng.randrange(nsrc)
        info = {"refs3": refs, "ests3": ests, "flen": flen, "cond": c["cond"], "je": je}
        pargs = [_fr3(refs), [_frs(x) for x in ests[je]], flen]
        yield Case("separation.project_images_exact", pargs + [False],
                   lambda R=R, E=Es[je], flen=flen: sep._project_images(R, E, flen), tol=1e-9,
                   tag="project " + tag, info=info)

        def saveg(R=R, E=Es[je], flen=flen):
            rec = []
            with patched(np=_SolveSpy(rec)):
                sproj, G = sep._project_images(R, E, flen, np.zeros(1))
            return [G, rec[0][1]]
        yield Case("separation.gram_images_exact", pargs, saveg, tol=1e-9, tag="G(saved),D " + tag, info=info)
        for jt in range(nsrc):
            dargs = [_fr3(refs), [_frs(x) for x in ests[je]], jt, flen]
            yield Case("separation.bss_decomp_images_exact", dargs,
                       lambda R=R, E=Es[je], jt=jt, flen=flen: list(sep._bss_decomp_mtifilt_images(R, E, jt, flen)),
                       tol=1e-9, tag="decomp " + tag, info=info)
            crit = table[je][jt]
            if isinstance(crit, proto.Err):
                raise AssertionError("separation.bss_image_crit_exact refused a well-conditioned input")
            if _ratios_fair(crit, (2,) if nsrc == 1 else ()):
                yield Case("separation.bss_image_crit_exact", dargs,
                           lambda R=R, E=Es[je], jt=jt, flen=flen:
                           [float(x) for x in sep._bss_image_crit(*sep._bss_decomp_mtifilt_images(R, E, jt, flen))],
                           tol=1e-9, tag="crit " + tag, info=info, post=_ratio_db)
        if not _ratios_fair(table, (2,) if nsrc == 1 else ()):
            continue
        for cp in (False, True):
            if cp and nsrc > 1:
                sir = [[t[2] for t in row] for row in table]
                if any(not isinstance(x, Fr) or x <= 0 for row in sir for x in row) or _perm_gap_db(sir) < 1e-6:
                    continue
            Eall = np.array(Es)

            def call(R=R, Eall=Eall, cp=cp, flen=flen):
                with forced_flen(flen):
                    return sep.bss_eval_images(R, Eall, cp)
            yield Case("separation.bss_eval_images_exact", [_fr3(refs), _fr3(ests), flen, cp],
                       call, tol=1e-9, tag="eval cp=%s %s" % (cp, tag), info=dict(info, cp=cp),
                       post=lambda v: [_ratio_db(x) for x in v[:4]] + [v[4]])


def suite_ls_decomp(rng, tier, shard, nshards):
    """`_bss_decomp_mtifilt` and `_bss_source_crit` of it vs the exact model, every (estimate, reference) pair"""
    import proto
    cands = _ls_well_conditioned([_ls_candidate(rng) for _ in range(_ncand(tier))])
    pairs = [(c, je, jt) for c in cands for je in range(len(c["refs"])) for jt in range(len(c["refs"]))]
    crits = _ask_model([("separation.bss_source_crit_exact",
                         [[_frs(r) for r in c["refs"]], _frs(c["ests"][je]), jt, c["flen"]]) for c, je, jt in pairs])
    for (c, je, jt), crit in zip(pairs, crits):
        refs, est, flen = c["refs"], c["ests"][je], c["flen"]
        R, E = np.array(refs, dtype=float), np.array(est, dtype=float)
        args = [[_frs(r) for r in refs], _frs(est), jt, flen]
        info = {"refs": refs, "est": est, "flen": flen, "jtrue": jt, "kind": c["kind"], "cond": c["cond"]}
        tag = "nsrc=%d flen=%d %s" % (len(refs), flen, c["kind"])
        yield Case("separation.bss_decomp_exact", args,
                   lambda R=R, E=E, jt=jt, flen=flen: list(sep._bss_decomp_mtifilt(R, E, jt, flen)),
                   tol=1e-9, tag=tag, info=info)
        if isinstance(crit, proto.Err) or not _ratios_fair(crit, (1,) if len(refs) == 1 else ()):
            continue
        yield Case("separation.bss_source_crit_exact", args,
                   lambda R=R, E=E, jt=jt, flen=flen:
                   [float(x) for x in sep._bss_source_crit(*sep._bss_decomp_mtifilt(R, E, jt, flen))],
                   tol=1e-9, tag="crit " + tag, info=info, post=_ratio_db)


def _perm_gap_db(sir_ratios_table):
    """gap (dB) between the best and the second best mean SIR over all permutations of a ratio table"""
    n = len(sir_ratios_table)
    means = sorted((sum(_ratio_db(sir_ratios_table[p[j]][j]) for j in range(n)) / n
                    for p in itertools.permutations(range(n))), reverse=True)
    return means[0] - means[1] if len(means) > 1 else float("inf")


def suite_ls_eval(rng, tier, shard, nshards):
    """`bss_eval_sources` (filter length forced to 1..3) vs the exact model, with and without permutation"""
    import proto
    cands = _ls_well_conditioned([_ls_candidate(rng) for _ in range(_ncand(tier))])
    for c in cands:
        c["cp"] = rng.random() < 0.7
    reqs = []
    for c in cands:
        refs, ests, flen = c["refs"], c["ests"], c["flen"]
        for je in range(len(refs)):
            for jt in range(len(refs)):
                reqs.append(("separation.bss_source_crit_exact", [[_frs(r) for r in refs], _frs(ests[je]), jt, flen]))
    answers = iter(_ask_model(reqs))
    for c in cands:
        refs, ests, flen, cp = c["refs"], c["ests"], c["flen"], c["cp"]
        nsrc = len(refs)
        table = [[next(answers) for _ in range(nsrc)] for _ in range(nsrc)]
        if any(isinstance(x, proto.Err) for row in table for x in row):
            raise AssertionError("separation.bss_source_crit_exact refused a well-conditioned input")
        if not _ratios_fair(table, (1,) if nsrc == 1 else ()):
            continue
        if cp and nsrc > 1:
            sir = [[t[1] for t in row] for row in table]
            if any(not isinstance(x, Fr) or x <= 0 for row in sir for x in row) or _perm_gap_db(sir) < 1e-6:
                continue
        R, E = np.array(refs, dtype=float), np.array(ests, dtype=float)

        def call(R=R, E=E, cp=cp, flen=flen):
            with forced_flen(flen):
                return sep.bss_eval_sources(R, E, cp)
        yield Case("separation.bss_eval_sources_exact", [[_frs(r) for r in refs], [_frs(e) for e in ests], flen, cp],
                   call, tol=1e-9, tag="nsrc=%d flen=%d cp=%s %s" % (nsrc, flen, cp, c["kind"]),
                   info={"refs": refs, "ests": ests, "flen": flen, "cp": cp, "kind": c["kind"], "cond": c["cond"]},
                   post=lambda v: [_ratio_db(v[0]), _ratio_db(v[1]), _ratio_db(v[2]), v[3]])


# ----------------------------------------------------------------------------------------
# suite gen_sepcrit: the GENERATED definitions (lean/MirGen/SepCrit.lean, driver op `gen.sepcrit`) vs the real functions;
# lean/MirModel/PySep.lean is the translator's semantic assumption

def _gs_available():
    """the functions the translator emitted on THIS run (`gen.sepcrit "?"`): cases are generated for those only — a function
    that left the subset is reported as a translator problem / broken theorems, never as a disagreeing input"""
    import core
    import proto
    try:
        outs = core.run_driver(["0 gen.sepcrit %s\n" % proto.enc("?")])
        v = proto.dec_line(outs[0])[1]
    except Exception:  # noqa: BLE001
        return set()
    return set(v) if isinstance(v, list) else set()


def _gs_retarget(case, fn):
    """a case of a hand-model suite asked of the generated definition instead"""
    return Case("gen.sepcrit", [fn] + list(case.args), case.call, tol=case.tol, tag="gen %s %s" % (fn, case.tag),
                info=dict(case.info or {}, op="gen.sepcrit", fn=fn), nontrivial=case.nontrivial, post=case.post)


def _int_rows(rng, nrow, n, pzero=0.3, lo=-3, hi=3):
    return np.array([[0.0 if rng.random() < pzero else float(rng.randint(lo, hi)) for _ in range(n)]
                     for _ in range(nrow)]).reshape(nrow, n)


def _gs_crit_cases(rng, ncase):
    for _ in range(ncase):
        images = rng.random() < 0.5
        nrow, n = (rng.choice([1, 2]) if images else 1), rng.randint(1, 5)
        comps = [_int_rows(rng, nrow, n, pzero=rng.choice([0.2, 0.5])) for _ in range(4)]
        z = rng.random()
        if z < 0.15:
            comps[3][:] = 0.0          # no artifacts: SAR = +inf
        elif z < 0.3:
            comps[2][:] = 0.0          # no interference: SIR = +inf
        elif z < 0.4:
            comps[0][:] = 0.0
            comps[1][:] = 0.0          # zero numerators: -inf
        elif z < 0.45:
            comps[2][:] = -comps[3]    # e_interf + e_artif = 0: SDR (sources) = +inf
        cargs = [rows_fr(c) for c in comps]
        info = {"comps": [c.tolist() for c in comps], "images": images}
        if images:
            yield Case("gen.sepcrit", ["_bss_image_crit"] + cargs,
                       lambda comps=comps: [float(x) for x in sep._bss_image_crit(*comps)], tol=1e-9,
                       tag="gen image_crit", info=info, nontrivial=True)
        else:
            flat = [c[0] for c in comps]
            yield Case("gen.sepcrit", ["_bss_source_crit"] + cargs,
                       lambda flat=flat: [float(x) for x in sep._bss_source_crit(*flat)], tol=1e-9,
                       tag="gen source_crit", info=info, nontrivial=True)


def _gs_decomp_cases(rng, ncase):
    """`_bss_decomp_mtifilt` with `_project` replaced by a recorded pair of integer vectors (the generated definition takes
    `_project` as a parameter; the driver is sent the same pair)"""
    for _ in range(ncase):
        nsrc, n, flen = rng.randint(1, 3), rng.randint(1, 5), rng.randint(1, 3)
        j = rng.randrange(nsrc)
        N = n + flen - 1
        fault = rng.choice(["none"] * 6 + ["j_range", "flen0", "proj_short", "proj_one", "est_long", "est_short", "est_one"])
        ref = _int_rows(rng, nsrc, n)
        est = _int_rows(rng, 1, n)[0]
        lt = la = N
        if fault == "j_range":
            j = nsrc + rng.randint(0, 1)
        elif fault == "flen0":
            flen = 0
        elif fault == "proj_short":
            lt, la = rng.choice([(N - 1, N), (N, N + 1), (N + 2, N + 2)])
        elif fault == "proj_one":
            lt, la = rng.choice([(1, N), (N, 1), (1, 1)])
        elif fault == "est_long":
            est = _int_rows(rng, 1, N + rng.randint(1, 2))[0]
        elif fault == "est_short":
            est = _int_rows(rng, 1, max(1, n - 1))[0]
        elif fault == "est_one":
            est = _int_rows(rng, 1, 1)[0]
        pT = _int_rows(rng, 1, max(lt, 0))[0]
        pA = pT.copy() if nsrc == 1 else _int_rows(rng, 1, max(la, 0))[0]

        def call(ref=ref, est=est, j=j, flen=flen, pT=pT, pA=pA):
            seq = [pT.copy(), pA.copy()]

            def stub(M, e, f):
                return seq.pop(0)
            with patched(_project=stub):
                return [np.asarray(c, dtype=float) for c in sep._bss_decomp_mtifilt(ref, est, j, flen)]
        yield Case("gen.sepcrit", ["_bss_decomp_mtifilt", rows_fr(ref), [Fr(x) for x in est.tolist()], j, flen,
                                   [Fr(x) for x in pT.tolist()], [Fr(x) for x in pA.tolist()]], call, tol=1e-12,
                   tag="gen decomp %s" % fault,
                   info={"fault": fault, "ref": ref.tolist(), "est": est.tolist(), "j": j, "flen": flen,
                         "pT": pT.tolist(), "pA": pA.tolist()}, nontrivial=(fault == "none"))


def _suite_gen_sepcrit(rng, tier, shard, nshards):
    big = tier != "quick"
    vals = [Fr(0), Fr(1, 4), Fr(3, 8), Fr(1), Fr(2), Fr(10), Fr(100), Fr(1, 1024), Fr(12345, 16), Fr(10 ** 12)]
    for i, (a, b) in enumerate((a, b) for a in vals for b in vals):
        if i % nshards == shard:
            yield Case("gen.sepcrit", ["_safe_db", a, b], lambda a=a, b=b: sep._safe_db(np.float64(a), np.float64(b)),
                       tag="gen safe_db " + ("den0" if b == 0 else ("num0" if a == 0 else "ratio")),
                       info={"num": str(a), "den": str(b)}, nontrivial=True)
    yield from _gs_crit_cases(rng, 400 if big else 60)
    yield from _gs_decomp_cases(rng, 600 if big else 90)
    # the existing stub streams asked of the generated definitions (same stand-ins for the kernel / the non-framewise
    # function, np.empty poisoned)
    for c in suite_silent(rng, tier, shard, nshards):
        yield _gs_retarget(c, "_any_source_silent")
    for _ in range(600 if big else 80):
        yield _gs_retarget(_select_case(rng, images=False), "bss_eval_sources")
    for _ in range(1200 if big else 160):
        images = rng.random() < 0.5
        yield _gs_retarget(_framewise_case(rng, images=images),
                           "bss_eval_images_framewise" if images else "bss_eval_sources_framewise")


def suite_gen_sepcrit(rng, tier, shard, nshards):
    avail = _gs_available()
    for c in _suite_gen_sepcrit(rng, tier, shard, nshards):
        if c.op != "gen.sepcrit" or c.args[0] in avail:
            yield c


SUITES = {
    "safe_db": suite_safe_db,
    "permutations": suite_permutations,
    "silent": suite_silent,
    "select_stub": suite_select_stub,
    "framewise_stub": suite_framewise_stub,
    "windows": suite_windows,
    "decomp_real": suite_decomp_real,
    "perm_real": suite_perm_real,
    "ls_project": suite_ls_project,
    "ls_decomp": suite_ls_decomp,
    "ls_eval": suite_ls_eval,
    "ls_images": suite_ls_images,
    "ls_singular": suite_ls_singular,
    "gen_sepcrit": suite_gen_sepcrit,
}


# ----------------------------------------------------------------------------------------
# the property itself, on the real code

def _close(a, b, tol):
    a, b = float(a), float(b)
    if math.isnan(a) or math.isnan(b):
        return math.isnan(a) and math.isnan(b)
    if math.isinf(a) or math.isinf(b):
        return a == b
    return abs(a - b) <= tol


def _is_images(inp):
    return inp["fn"].startswith("images")


def check_decomp(inp):
    ref, est = make_signals(inp)
    flen, nsrc, n = inp["flen"], inp["nsrc"], inp["n"]
    for je in range(nsrc):
        for jt in range(nsrc):
            if _is_images(inp):
                nchan = inp["nchan"]
                e = np.reshape(est[je], (n, nchan), order="F")
                comps = sep._bss_decomp_mtifilt_images(ref, e, jt, flen)
                pad = np.hstack((e.T, np.zeros((nchan, flen - 1))))
            else:
                comps = sep._bss_decomp_mtifilt(ref, est[je], jt, flen)
                pad = np.hstack((est[je], np.zeros(flen - 1)))
            if len(comps) != 4 or any(np.shape(c) != pad.shape for c in comps):
                return "decomposition of estimate %d against reference %d: %d components of shapes %r" % (
                    je, jt, len(comps), [np.shape(c) for c in comps])
            resid = float(np.max(np.abs(comps[0] + comps[1] + comps[2] + comps[3] - pad)))
            if not resid <= 1e-9 * max(1.0, float(np.max(np.abs(pad)))):
                return "s_true+e_spat+e_interf+e_artif differs from the estimate %d (ref %d) by %.3g" % (je, jt, resid)
    return None


def _db(num, den):
    if den == 0:
        return float("inf")
    if num == 0:
        return float("-inf")
    return 10.0 * math.log10(num / den)


def check_crit(inp):
    """the criteria are the documented energy ratios of the components (independent re-computation)"""
    ref, est = make_signals(inp)
    flen, nsrc, n = inp["flen"], inp["nsrc"], inp["n"]
    E = lambda x: float(np.sum(np.asarray(x, dtype=float) ** 2))  # noqa: E731
    for je in range(nsrc):
        for jt in range(nsrc):
            if _is_images(inp):
                e = np.reshape(est[je], (n, inp["nchan"]), order="F")
                st, es, ei, ea = sep._bss_decomp_mtifilt_images(ref, e, jt, flen)
                got = [float(x) for x in sep._bss_image_crit(st, es, ei, ea)]
                want = [_db(E(st), E(es + ei + ea)), _db(E(st), E(es)), _db(E(st + es), E(ei)),
                        _db(E(st + es + ei), E(ea))]
                names = ["sdr", "isr", "sir", "sar"]
            else:
                st, es, ei, ea = sep._bss_decomp_mtifilt(ref, est[je], jt, flen)
                got = [float(x) for x in sep._bss_source_crit(st, es, ei, ea)]
                want = [_db(E(st + es), E(ei + ea)), _db(E(st + es), E(ei)), _db(E(st + es + ei), E(ea))]
                names = ["sdr", "sir", "sar"]
            for nm, g, w in zip(names, got, want):
                if not _close(g, w, 1e-9 * max(1.0, abs(w) if math.isfinite(w) else 1.0)):
                    return "%s of estimate %d vs reference %d is %r, the energy ratio of the components is %r" % (
                        nm, je, jt, g, w)
    return None


def check_scale(inp, which_outputs):
    ref, est = make_signals(inp)
    fn = _fn(inp["fn"])
    with forced_flen(inp["flen"]):
        base = fn(ref, est, inp["cp"])
        r2, e2 = ref.copy(), est.copy()
        (r2 if inp["scale_which"] == "ref" else e2)[inp["scale_index"]] *= inp["scale_factor"]
        again = None
        if inp.get("inplace"):
            # the SAME array objects that were just scored, rescaled in place, scored again (directly after the first
            # call, nothing in between): the criteria are a function of the signals' values, so this call must agree with
            # the one on fresh copies of the same values
            (ref if inp["scale_which"] == "ref" else est)[inp["scale_index"]] *= inp["scale_factor"]
            again = fn(ref, est, inp["cp"])
        new = fn(r2, e2, inp["cp"])
    names = ["sdr", "isr", "sir", "sar"] if _is_images(inp) else ["sdr", "sir", "sar"]
    if again is not None:
        for o in range(len(names) + 1):
            a, b = np.asarray(again[o], dtype=float), np.asarray(new[o], dtype=float)
            if a.shape != b.shape or not np.allclose(a, b, rtol=0, atol=1e-9, equal_nan=True):
                return ("%s = %r when the arrays scored a moment ago are rescaled in place (%s source %d times %r) and "
                        "scored again, but %r on fresh copies of the same values: the result depends on the objects' "
                        "history" % ((names + ["perm"])[o], a.tolist(), inp["scale_which"], inp["scale_index"],
                                     inp["scale_factor"], b.tolist()))
    if not np.array_equal(base[-1], new[-1]):
        return "perm changes from %r to %r when %s source %d is multiplied by %r" % (
            base[-1].tolist(), new[-1].tolist(), inp["scale_which"], inp["scale_index"], inp["scale_factor"])
    # moderate factors: 1e-6 dB; extreme factors (|log2 c| >= 20) put sources of very different magnitude into one
    # linear system, whose conditioning (and the code's eps regularisation) legitimately moves the result in the 5th
    # decimal of a dB: 1e-3 dB there (what such factors are for is the *qualitative* failure: an exception, a NaN,
    # a changed permutation)
    tol = 1e-6 if abs(math.log2(abs(inp["scale_factor"]))) < 20 else 1e-3
    for o in which_outputs:
        for j in range(inp["nsrc"]):
            if not _close(base[o][j], new[o][j], tol):
                return "%s[%d] changes from %.9f to %.9f dB when %s source %d is multiplied by %r" % (
                    names[o], j, base[o][j], new[o][j], inp["scale_which"], inp["scale_index"], inp["scale_factor"])
    return None


def check_perm(inp):
    ref, est = make_signals(inp)
    images = _is_images(inp)
    fn = _fn(inp["fn"])
    nsrc, nm, si = inp["nsrc"], (4 if images else 3), (2 if images else 1)
    with forced_flen(inp["flen"]):
        out = fn(ref, est, inp["cp"])
    if len(out) != nm + 1:
        return "%d outputs instead of %d" % (len(out), nm + 1)
    if any(np.shape(x) != (nsrc,) for x in out):
        return "output shapes %r, expected (%d,)" % ([np.shape(x) for x in out], nsrc)
    perm = [int(x) for x in out[-1]]
    if sorted(perm) != list(range(nsrc)):
        return "perm %r is not a permutation of range(%d)" % (perm, nsrc)
    if not inp["cp"] and perm != list(range(nsrc)):
        return "compute_permutation=False returned perm %r" % (perm,)
    T = crit_table(ref, est, images, inp["flen"])
    for o in range(nm):
        for j in range(nsrc):
            if not _close(out[o][j], T[perm[j]][j][o], 1e-9):
                return "output %d[%d] = %r is not the criterion of estimate %d vs reference %d (%r)" % (
                    o, j, float(out[o][j]), perm[j], j, T[perm[j]][j][o])
    if inp["cp"]:
        best = float(np.mean([T[perm[j]][j][si] for j in range(nsrc)]))
        for p in itertools.permutations(range(nsrc)):
            m = float(np.mean([T[p[j]][j][si] for j in range(nsrc)]))
            if m > best + 1e-9:
                return "perm %r has mean SIR %.9f but %r has %.9f" % (perm, best, list(p), m)
    return None


def check_equivariance(inp):
    ref, est = make_signals(inp)
    images = _is_images(inp)
    fn = _fn(inp["fn"])
    tau = list(inp["reorder"])
    nsrc = inp["nsrc"]
    with forced_flen(inp["flen"]):
        a = fn(ref, est, True)
        b = fn(ref, est[tau].copy(), True)
    pa, pb = [int(x) for x in a[-1]], [int(x) for x in b[-1]]
    mapped = [tau[e] if 0 <= e < nsrc else None for e in pb]
    bad = None
    if mapped != pa:
        bad = "reordering the estimates by %r turns perm %r into %r (expected %r)" % (
            tau, pa, pb, [tau.index(e) for e in pa])
    else:
        for o in range(len(a) - 1):
            for j in range(nsrc):
                if not _close(a[o][j], b[o][j], 1e-9):
                    bad = "output %d[%d] changes from %r to %r when the estimates are reordered by %r" % (
                        o, j, float(a[o][j]), float(b[o][j]), tau)
                    break
            if bad:
                break
    if bad:
        T = crit_table(ref, est, images, inp["flen"])
        if all(math.isfinite(x) for row in T for c in row for x in c) and \
                _top_gap(T, 2 if images else 1, nsrc) < 1e-9:
            return None   # a genuine tie of the mean SIR: the property is stated for tie-free inputs
    return bad


def check_perfect(inp):
    ref, est = make_signals(inp)   # kind == "perfect", optional tau
    fn = _fn(inp["fn"])
    nsrc = inp["nsrc"]
    tau = list(inp.get("tau") or range(nsrc))
    with forced_flen(inp["flen"]):
        out = fn(ref, est, inp["cp"])
    perm = [int(x) for x in out[-1]]
    want = [tau.index(j) for j in range(nsrc)] if inp["cp"] else list(range(nsrc))
    if perm != want:
        return "perfect estimate (estimates = references reordered by %r): perm %r, expected %r" % (tau, perm, want)
    if inp["cp"] or tau == list(range(nsrc)):
        for j in range(nsrc):
            if not float(out[0][j]) > 100.0:
                return "perfect estimate: SDR[%d] = %r dB" % (j, float(out[0][j]))
    return None


def _window_silent(ref, est, s, e):
    for a in (ref, est):
        for j in range(a.shape[0]):
            if not np.any(a[j, s:e] != 0):
                return True
    return False


def check_framewise(inp, mode):
    """mode: 'values' (arity, shapes, fall-back, non-silent windows) | 'nan' (silent windows, EVERY output) |
    'nan_isr' (silent windows, isr of the images variant only: the witness of the repaired finding b910d54)."""
    ref, est = make_signals(inp)
    images = _is_images(inp)
    nf = sep.bss_eval_images if images else sep.bss_eval_sources
    fw = _fn(inp["fn"])
    window, hop, cp, nsrc, n = inp["window"], inp["hop"], inp["cp"], inp["nsrc"], inp["n"]
    nout = 5 if images else 4
    with forced_flen(inp["flen"]):
        with patched(np=_PoisonNP()):
            out = fw(ref, est, window, hop, cp)
        if len(out) != nout:
            return "%d arrays returned, %d documented" % (len(out), nout) if mode == "values" else None
        nwin = (n - window + hop) // hop
        if nwin < 2:
            if mode != "values":
                return None
            whole = nf(ref, est, cp)
            for o in range(nout):
                if np.shape(out[o]) != (nsrc, 1):
                    return "fall-back (nwin=%d): output %d has shape %r, expected (%d, 1)" % (nwin, o, np.shape(out[o]), nsrc)
                for j in range(nsrc):
                    if not _close(out[o][j, 0], whole[o][j], 1e-9):
                        return "fall-back (nwin=%d): output %d[%d] = %r, non-framewise gives %r" % (
                            nwin, o, j, float(out[o][j, 0]), float(whole[o][j]))
            return None
        for o in range(nout):
            if np.shape(out[o]) != (nsrc, nwin):
                return "output %d has shape %r, expected (%d, %d)" % (o, np.shape(out[o]), nsrc, nwin) \
                    if mode == "values" else None
        names = ["sdr", "isr", "sir", "sar", "perm"] if images else ["sdr", "sir", "sar", "perm"]
        for k in range(nwin):
            s, e = k * hop, k * hop + window
            if _window_silent(ref, est, s, e):
                if mode == "nan":
                    cols = list(range(nout))
                elif mode == "nan_isr":
                    cols = [1] if images else []
                else:
                    cols = []
                for o in cols:
                    for j in range(nsrc):
                        v = float(out[o][j, k])
                        if not math.isnan(v):
                            return "window %d [%d:%d] has a silent source but %s[%d, %d] = %s" % (
                                k, s, e, names[o], j, k,
                                "never written (uninitialised np.empty memory)" if v == SENT else repr(v))
            elif mode == "values":
                win = nf(ref[:, s:e], est[:, s:e], cp)
                for o in range(nout):
                    for j in range(nsrc):
                        if not _close(out[o][j, k], win[o][j], 1e-9):
                            return "window %d [%d:%d]: %s[%d, %d] = %r but the non-framewise function on that " \
                                   "window gives %r" % (k, s, e, names[o], j, k, float(out[o][j, k]), float(win[o][j]))
    return None


def check_arity_empty(inp):
    fn = _fn(inp["fn"])
    nout = 5 if _is_images(inp) else 4
    a, b = np.zeros(inp["shape"]), np.zeros(inp["shape"])
    out = fn(a, b, *inp.get("args", []))
    if len(out) != nout:
        return "empty input of shape %r: %d arrays returned, %d documented" % (tuple(inp["shape"]), len(out), nout)
    for o, x in enumerate(out):
        if np.size(x) != 0:
            return "empty input of shape %r: output %d is %r" % (tuple(inp["shape"]), o, np.asarray(x).tolist())
    return None


def check_singular(inp):
    """A non-silent input whose delayed references are exactly linearly dependent (one stereo sample with
    collinear channels): np.linalg.solve raises LinAlgError and the code falls back to lstsq (the except clause
    was unreachable under numpy >= 2 before `fix:` da26975)."""
    n, flen = inp["n"], inp["flen"]
    ref = np.zeros((1, n, 2))
    ref[0, 0] = [1.0, 2.0]
    est = np.random.RandomState(inp["seed"]).randn(1, n, 2)
    nout = 5
    try:
        with forced_flen(flen):
            out = _fn(inp["fn"])(ref, est)
    except Exception as e:  # noqa: BLE001
        return "valid (non-silent) input with linearly dependent delayed references: the singular-system " \
               "fall-back raised %s: %s" % (type(e).__name__, e)
    return None if len(out) == nout else "%d arrays returned" % len(out)


# ----------------------------------------------------------------------------------------
# the least-squares projection itself, on the real `_project` (tiny integer signals, flen 1..3)

def _delayed_basis(refs, flen):
    """rows = the references zero-padded to nsampl+flen-1 and delayed by 0..flen-1 samples (index i*flen+d)"""
    refs = np.atleast_2d(np.asarray(refs, dtype=float))
    nsrc, n = refs.shape
    B = np.zeros((nsrc * flen, n + flen - 1))
    for i in range(nsrc):
        for d in range(flen):
            B[i * flen + d, d:d + n] = refs[i]
    return B


def check_ls(inp):
    """`_project` is the orthogonal projection on the span of the delayed references (normal equations, result in
    the span), is homogeneous in the estimate, does not change when a reference is rescaled, fixes the span; the
    decomposition built on it sums to the estimate and the criteria are its documented energy ratios."""
    refs = np.array(inp["refs"], dtype=float)
    est = np.array(inp["est"], dtype=float)
    flen = inp["flen"]
    nsrc, n = refs.shape
    B = _delayed_basis(refs, flen)
    G = B @ B.T
    if np.linalg.matrix_rank(G) < G.shape[0] or np.linalg.cond(G) > 1e6:
        return None                                     # outside the region this check speaks about
    se = np.hstack((est, np.zeros(flen - 1)))
    scale = max(1.0, float(np.max(np.abs(se))))
    which = inp.get("sub", "all")
    p = sep._project(refs, est, flen)
    if p.shape != se.shape:
        return "_project returns shape %r for an estimate of %d samples and flen=%d" % (p.shape, n, flen)
    if which in ("all", "normal"):
        r = B @ (se - p)
        if not float(np.max(np.abs(r))) <= 1e-7 * scale * max(1.0, float(np.max(np.abs(B)))) * B.shape[1]:
            return "the residual of _project is not orthogonal to the delayed references: <b_k, se - p> = %r" % (
                r.tolist(),)
        c = np.linalg.lstsq(B.T, p, rcond=None)[0]
        if not float(np.max(np.abs(B.T @ c - p))) <= 1e-7 * scale:
            return "_project returns a signal outside the span of the delayed references (distance %.3g)" % float(
                np.max(np.abs(B.T @ c - p)))
    if which in ("all", "homog"):
        for c in inp.get("factors", [-3.0, 0.5]):
            q = sep._project(refs, c * est, flen)
            if not float(np.max(np.abs(q - c * p))) <= 1e-7 * scale * abs(c):
                return "_project(refs, %r*est) differs from %r*_project(refs, est) by %.3g" % (
                    c, c, float(np.max(np.abs(q - c * p))))
    if which in ("all", "refscale"):
        for c in inp.get("factors", [-3.0, 0.5]):
            for i in range(nsrc):
                r2 = refs.copy()
                r2[i] *= c
                q = sep._project(r2, est, flen)
                if not float(np.max(np.abs(q - p))) <= 1e-7 * scale:
                    return "_project changes by %.3g when reference %d is multiplied by %r" % (
                        float(np.max(np.abs(q - p))), i, c)
    if which in ("all", "idem"):
        a = np.array(inp.get("coef", list(range(1, nsrc + 1))), dtype=float)
        e2 = a @ refs
        q = sep._project(refs, e2, flen)
        want = np.hstack((e2, np.zeros(flen - 1)))
        if not float(np.max(np.abs(q - want))) <= 1e-7 * max(1.0, float(np.max(np.abs(want)))):
            return "_project does not fix a combination of the references (coefficients %r): off by %.3g" % (
                a.tolist(), float(np.max(np.abs(q - want))))
    if which in ("all", "crit"):
        E = lambda x: float(np.sum(np.asarray(x, dtype=float) ** 2))  # noqa: E731
        for jt in range(nsrc):
            comps = sep._bss_decomp_mtifilt(refs, est, jt, flen)
            if len(comps) != 4 or any(np.shape(x) != se.shape for x in comps):
                return "decomposition against reference %d: %d components of shapes %r" % (
                    jt, len(comps), [np.shape(x) for x in comps])
            st, es, ei, ea = comps
            if not float(np.max(np.abs(st + es + ei + ea - se))) <= 1e-9 * scale:
                return "s_true+e_spat+e_interf+e_artif differs from the estimate (ref %d) by %.3g" % (
                    jt, float(np.max(np.abs(st + es + ei + ea - se))))
            pj = sep._project(refs[jt][None, :], est, flen)
            if not (float(np.max(np.abs(st + es - pj))) <= 1e-7 * scale
                    and float(np.max(np.abs(st + es + ei - p))) <= 1e-7 * scale):
                return "s_true+e_spat / s_true+e_spat+e_interf are not the projections on reference %d / on all " \
                       "references" % jt
            got = [float(x) for x in sep._bss_source_crit(st, es, ei, ea)]
            want = [_db(E(st + es), E(ei + ea)), _db(E(st + es), E(ei)), _db(E(st + es + ei), E(ea))]
            for nm, g, w in zip(["sdr", "sir", "sar"], got, want):
                if not _close(g, w, 1e-9 * max(1.0, abs(w) if math.isfinite(w) else 1.0)):
                    return "%s against reference %d is %r, the energy ratio of the components is %r" % (nm, jt, g, w)
    return None


def check_ls_images(inp):
    """`_project_images`: every channel of the result is the orthogonal projection of that channel of the estimate
    on the span of ALL delayed reference channels; handing in G as zeros changes nothing and returns G; the
    image decomposition sums to the estimate."""
    refs3 = np.array(inp["refs3"], dtype=float)          # [src][chan][sample]
    est = np.array(inp["est"], dtype=float)              # [chan][sample]
    flen = inp["flen"]
    nsrc, nchan, n = refs3.shape
    B = _delayed_basis(refs3.reshape(nsrc * nchan, n), flen)
    G = B @ B.T
    if np.linalg.matrix_rank(G) < G.shape[0] or np.linalg.cond(G) > 1e6:
        return None
    R = refs3.transpose(0, 2, 1)
    E = est.T
    se = np.hstack((est, np.zeros((nchan, flen - 1))))
    scale = max(1.0, float(np.max(np.abs(se))))
    p = sep._project_images(R, E, flen)
    if np.shape(p) != se.shape:
        return "_project_images returns shape %r, the padded estimate has %r" % (np.shape(p), se.shape)
    for c in range(nchan):
        r = B @ (se[c] - p[c])
        if not float(np.max(np.abs(r))) <= 1e-7 * scale * max(1.0, float(np.max(np.abs(B)))) * B.shape[1]:
            return "channel %d: the residual of _project_images is not orthogonal to the delayed reference " \
                   "channels: %r" % (c, r.tolist())
        co = np.linalg.lstsq(B.T, p[c], rcond=None)[0]
        if not float(np.max(np.abs(B.T @ co - p[c]))) <= 1e-7 * scale:
            return "channel %d of _project_images lies outside the span of the delayed reference channels" % c
    p2, G2 = sep._project_images(R, E, flen, np.zeros(1))
    if not (float(np.max(np.abs(p2 - p))) <= 1e-9 * scale and float(np.max(np.abs(G2 - G))) <= 1e-7 * max(1.0, float(np.max(np.abs(G))))):
        return "_project_images with G handed in as zeros: projection or returned Gram matrix differ"
    p3, _ = sep._project_images(R, E, flen, G2)
    if not float(np.max(np.abs(p3 - p))) <= 1e-9 * scale:
        return "_project_images with the cached G differs from the uncached call by %.3g" % float(np.max(np.abs(p3 - p)))
    for jt in range(nsrc):
        comps = sep._bss_decomp_mtifilt_images(R, E, jt, flen)
        if len(comps) != 4 or any(np.shape(x) != se.shape for x in comps):
            return "image decomposition against reference %d: %d components of shapes %r" % (
                jt, len(comps), [np.shape(x) for x in comps])
        st, es, ei, ea = comps
        if not float(np.max(np.abs(st + es + ei + ea - se))) <= 1e-9 * scale:
            return "image decomposition (ref %d) does not sum to the estimate" % jt
        if not float(np.max(np.abs(st + es + ei - p))) <= 1e-7 * scale:
            return "s_true+e_spat+e_interf is not the projection on all reference channels (ref %d)" % jt
        c6 = sep._bss_decomp_mtifilt_images(R, E, jt, flen, 0, np.zeros(1))
        if len(c6) != 6 or any(float(np.max(np.abs(a - b))) > 1e-9 * scale for a, b in zip(c6[:4], comps)):
            return "image decomposition with saved Gram matrices differs from the plain one (ref %d)" % jt
    return None


def _exact_rank_deficient(rows):
    """are the integer/rational vectors `rows` linearly dependent?  (exact, fractions)"""
    M = [[Fr(x) for x in r] for r in rows]
    rank, ncol = 0, len(M[0]) if M else 0
    for c in range(ncol):
        piv = next((i for i in range(rank, len(M)) if M[i][c] != 0), None)
        if piv is None:
            continue
        M[rank], M[piv] = M[piv], M[rank]
        for i in range(rank + 1, len(M)):
            if M[i][c] != 0:
                f = M[i][c] / M[rank][c]
                M[i] = [a - f * b for a, b in zip(M[i], M[rank])]
        rank += 1
    return rank < len(M)


def _singular_rows(inp):
    if "refs3" in inp:
        r3 = inp["refs3"]
        return [ch for src in r3 for ch in src]
    return inp["refs"]


def check_ls_singular(inp):
    """rank-deficient references (valid, non-silent input): the signal returned by `_project(_images)` is still
    the orthogonal projection on the span of the delayed references"""
    rows = _singular_rows(inp)
    flen = inp["flen"]
    B = _delayed_basis(np.array(rows, dtype=float), flen)
    if not _exact_rank_deficient([[int(x) if float(x).is_integer() else Fr(x) for x in b] for b in B.tolist()]):
        return None
    if "refs3" in inp:
        R = np.array(inp["refs3"], dtype=float).transpose(0, 2, 1)
        E = np.array(inp["est"], dtype=float).T
        se = np.hstack((np.array(inp["est"], dtype=float), np.zeros((E.shape[1], flen - 1))))
        raised, p = _solve_raises(lambda: sep._project_images(R, E, flen))
    else:
        R = np.array(inp["refs"], dtype=float)
        E = np.array(inp["est"], dtype=float)
        se = np.hstack((E, np.zeros(flen - 1)))[None, :]
        raised, p = _solve_raises(lambda: sep._project(R, E, flen))
        p = np.atleast_2d(p)
    truth = np.array([B.T @ np.linalg.lstsq(B.T, x, rcond=None)[0] for x in se])
    scale = max(1.0, float(np.max(np.abs(se))))
    off = float(np.max(np.abs(p - truth)))
    if off <= 1e-6 * scale:
        return None
    orth = float(np.max(np.abs(B @ (se - p).T)))
    if raised:
        return "rank-deficient references: the lstsq fall-back returns a signal that is not the orthogonal " \
               "projection on the delayed references (off by %.3g, <b_k, residual> up to %.3g)" % (off, orth)
    return "rank-deficient references: np.linalg.solve returned without LinAlgError on an exactly singular Gram " \
           "matrix and the returned signal is not the orthogonal projection on the delayed references " \
           "(off by %.3g, <b_k, residual> up to %.3g)" % (off, orth)


def _gen_ls(rng, tier, shard, nshards, boost):
    n = (60 if tier == "quick" else 400) * boost
    for _ in range(n):
        c = _ls_candidate(rng)
        je = rng.randrange(len(c["refs"]))
        yield {"check": "ls", "sub": rng.choice(["normal", "normal", "homog", "refscale", "idem", "crit"]),
               "refs": c["refs"], "est": c["ests"][je], "flen": c["flen"],
               "factors": [rng.choice([-3.0, 0.5, 7.0, -0.125, 100.0])],
               "coef": [rng.randint(-3, 3) or 1 for _ in c["refs"]]}
    for _ in range(n // 3):
        c = _ls_images_candidate(rng)
        yield {"check": "ls_images", "refs3": c["refs"], "est": rng.choice(c["ests"]), "flen": c["flen"]}
    for _ in range(n // 3):
        c = _ls_singular(rng)
        yield {"check": "ls_singular", "refs": c["refs"], "est": c["est"], "flen": c["flen"]}
        yield dict(_ls_singular_images(rng, _ls_signal(rng, len(c["est"]), "dense"), c["flen"]), check="ls_singular")


def checker(inp):
    """Any exception of the real code on a generated (valid) input is a failure of the property."""
    import warnings
    try:
        with warnings.catch_warnings():
            warnings.simplefilter("ignore")   # deprecation / lstsq-rcond warnings are not observations
            return _checker(inp)
    except Exception as e:  # noqa: BLE001
        return "the real code raised %s: %s" % (type(e).__name__, str(e)[:200])


def _checker(inp):
    c = inp["check"]
    if c == "ls":
        return check_ls(inp)
    if c == "ls_images":
        return check_ls_images(inp)
    if c == "ls_singular":
        return check_ls_singular(inp)
    images = _is_images(inp)
    if c == "singular":
        return check_singular(inp)
    if c == "decomp":
        return check_decomp(inp)
    if c == "crit":
        return check_crit(inp)
    if c == "scale":                       # sources: everything
        return check_scale(inp, [0, 1, 2])
    if c == "scale_sir_sar":               # images: SIR, SAR (+perm)
        return check_scale(inp, [2, 3])
    if c == "scale_sdr_isr":               # images: SDR, ISR
        return check_scale(inp, [0, 1])
    if c == "perm":
        return check_perm(inp)
    if c == "equivariance":
        return check_equivariance(inp)
    if c == "perfect":
        return check_perfect(inp)
    if c == "fw_values":
        return check_framewise(inp, "values")
    if c == "fw_silent_nan":
        return check_framewise(inp, "nan")
    if c == "fw_silent_nan_isr":
        return check_framewise(inp, "nan_isr") if images else None
    if c == "arity_empty":
        return check_arity_empty(inp)
    raise ValueError("unknown check %r" % (c,))


def _gen_nonframewise(fnname):
    images = fnname == "images"

    def gen(rng, tier, shard, nshards, boost):
        n = (40 if tier == "quick" else 200) * boost
        for i in range(n):
            r = _real_recipe(rng, tier, images, real_flen_ok=(i < n // boost))
            r["fn"] = fnname
            r["cp"] = rng.random() < 0.7
            pick = rng.random()
            nsrc = r["nsrc"]
            if pick < 0.15:
                r["check"] = rng.choice(["decomp", "crit"])
            elif pick < 0.45:
                r["check"] = rng.choice(["scale_sir_sar", "scale_sdr_isr"]) if images else "scale"
                r["scale_which"] = rng.choice(["ref", "est"])
                r["scale_index"] = rng.randrange(nsrc)
                r["scale_factor"] = rng.choice([-3.7, 0.01, 2.5, 1000.0, -1.0, 0.3, 2.0 ** -30, -(2.0 ** -30), 2.0 ** 30])  # extreme factors are powers of two: exact in binary64
                r["inplace"] = rng.random() < 0.5
            elif pick < 0.65:
                r["check"] = "perm"
            elif pick < 0.8:
                r["check"] = "equivariance"
                tau = list(range(nsrc))
                rng.shuffle(tau)
                r["reorder"] = tau
                if rng.random() < 0.5:
                    t2 = list(range(nsrc))
                    rng.shuffle(t2)
                    r["tau"] = t2
            else:
                r["check"] = "perfect"
                r["kind"] = "perfect"
                tau = list(range(nsrc))
                if r["cp"]:
                    rng.shuffle(tau)
                r["tau"] = tau
            if rng.random() < 0.2:
                r["pcm"] = rng.choice(["int16", "uint8", "int32", "uint16"])
                if r["check"].startswith("scale"):
                    r["scale_which"], r["inplace"] = "est", False     # (an integer array cannot be rescaled in place)
                    # moderate factors only: PCM references are 4 decades above unit scale already, and the extreme factors
                    # exist to put ~9 decades between the sources of one linear system (see check_scale)
                    r["scale_factor"] = rng.choice([-3.7, 0.01, 2.5, 1000.0, -1.0, 0.3])
            yield r
        if shard == 0:
            for sh in ([0], [0, 0], [2, 0], [0, 7]) + (([2, 0, 2], [0, 5, 1]) if images else ()):
                yield {"fn": fnname, "check": "arity_empty", "shape": list(sh)}
            if images:
                yield {"fn": fnname, "check": "singular", "n": 40, "flen": 8, "seed": 1}
                yield {"fn": fnname, "check": "singular", "n": 1100, "flen": 512, "seed": 2}
    return gen


def _gen_framewise(fnname):
    images = fnname.startswith("images")

    def gen(rng, tier, shard, nshards, boost):
        n = (30 if tier == "quick" else 150) * boost
        for i in range(n):
            r = _real_recipe(rng, tier, images, real_flen_ok=(rng.random() < 0.5 and i < n // boost))
            flen, nsrc = r["flen"], r["nsrc"]
            unit = 2 * nsrc * flen * max(r.get("nchan", 1), 1)
            if flen == 512:
                window, hop = rng.choice([(1024, 512), (2048, 2048), (1500, 700)])
                r["n"] = min(max(r["n"], window + hop * rng.randint(0, 2) + rng.randint(0, 100)), 3200)
            else:
                window = unit + rng.randint(0, 3 * flen)
                hop = rng.choice([window, max(1, window // 2), max(1, (window * 7) // 15)])
                r["n"] = window + hop * rng.randint(0, 4) + rng.randint(0, hop) - rng.choice([0, 0, 0, window // 2])
                r["n"] = max(r["n"], 4)
            r.update(fn=fnname, window=window, hop=hop, cp=rng.random() < 0.5)
            sil = []
            if rng.random() < 0.75:
                nwin = (r["n"] - window + hop) // hop
                if nwin >= 2 and rng.random() < 0.7:
                    # aligned: windows a..b entirely silent, the neighbours keep >= hop non-zero samples
                    a = rng.randrange(nwin)
                    b = rng.randint(a, min(nwin - 1, a + 2))
                    s, e = a * hop, min(r["n"], b * hop + window)
                else:
                    s = rng.randrange(max(1, r["n"] - 1))
                    e = min(r["n"], s + window + rng.randint(0, hop))
                if e - s < r["n"]:
                    sil.append([rng.choice(["ref", "est"]), rng.randrange(nsrc), s, e])
            r["silent"] = sil
            if rng.random() < 0.3:
                # extreme dynamic range inside one source: a passage 180..300 dB below (or above) the rest is NOT silence
                # (whole windows of it still have finite scores); before, after or between louder material
                nwin = max(1, (r["n"] - window + hop) // hop)
                a = rng.randrange(nwin) * hop
                b = rng.choice([r["n"], min(r["n"], a + window + hop * rng.randint(0, 2))])
                r["gains"] = [[rng.choice(["ref", "est"]), rng.randrange(nsrc), a, b,
                               rng.choice([1e-9, 1e-12, 1e-15, 1e9])]]
            r["check"] = rng.choice(["fw_values", "fw_values", "fw_silent_nan", "fw_silent_nan"])
            yield r
        if shard == 0:
            for sh in ([0], [0, 0], [2, 0], [0, 7]) + (([2, 0, 2],) if images else ()):
                yield {"fn": fnname, "check": "arity_empty", "shape": list(sh), "args": [4, 2]}
                yield {"fn": fnname, "check": "arity_empty", "shape": list(sh)}
    return gen


CHECKERS = {
    "separation.bss_eval_sources": checker,
    "separation.bss_eval_images": checker,
    "separation.bss_eval_sources_framewise": checker,
    "separation.bss_eval_images_framewise": checker,
    "separation._project": checker,
}
ORACLES = {
    "separation.bss_eval_sources": _gen_nonframewise("sources"),
    "separation.bss_eval_images": _gen_nonframewise("images"),
    "separation.bss_eval_sources_framewise": _gen_framewise("sources_framewise"),
    "separation.bss_eval_images_framewise": _gen_framewise("images_framewise"),
    "separation._project": _gen_ls,
}


def classify(suite, d):
    """A disagreeing real-signal case is replayed through the matching oracle check."""
    i = d.get("info") or {}
    if suite == "decomp_real":
        r = {k: i[k] for k in ("nsrc", "n", "seed", "kind", "flen") if k in i}
        if i.get("images"):
            r["nchan"] = i["nchan"]
        r.update(fn="images" if i.get("images") else "sources",
                 check="decomp" if d.get("op") == "separation.decomp" else "crit")
        return "separation.bss_eval_images" if i.get("images") else "separation.bss_eval_sources", r
    if suite == "perm_real":
        r = {k: i[k] for k in ("nsrc", "n", "seed", "kind", "flen", "tau", "nchan", "cp") if k in i}
        r.update(fn="images" if i.get("images") else "sources", check="perm")
        return "separation.bss_eval_images" if i.get("images") else "separation.bss_eval_sources", r
    if suite == "ls_singular":
        return "separation._project", dict({k: i[k] for k in ("refs", "refs3", "est", "flen") if k in i},
                                           check="ls_singular")
    if suite in ("ls_project", "ls_decomp", "ls_eval") and "refs" in i:
        # the exact model and the real projection disagree: try the projection's own properties on that input
        est = i.get("est") or (i.get("ests") or [None])[0]
        if est is None:
            return None
        return "separation._project", {"check": "ls", "sub": "all", "refs": i["refs"], "est": est, "flen": i["flen"]}
    if suite == "ls_images" and "refs3" in i:
        je = i.get("je", 0)
        return "separation._project", {"check": "ls_images", "refs3": i["refs3"], "est": i["ests3"][je],
                                       "flen": i["flen"]}
    return None
