"""C20 \u2014 annotation files load back to exactly what they encode (mir_eval.io).

Correspondence: generated annotation files (and single-fault corruptions of them) are loaded by the real
loaders from an `io.StringIO` AND from a temp path under .work/; both results must be identical, equal to the
written data bit-for-bit (floats compared through struct.pack), and equal to the token structure returned by
the Lean model (`MirModel/IO.lean`; numeric tokens come back as strings and `float()` is applied here).
Errors are compared by class AND by the row number carried in the message (the property says "naming the row").

Oracle: the property itself on the real code alone: round trip of the written data, `ValueError` naming the
row for a wrong column count / an unparsable number, a warning (no exception) for content that violates the
task's conventions, errors for a tempo weight outside [0,1] and for multi-line key/tempo files.
"""
import io
import math
import os
import re
import struct
import warnings
from fractions import Fraction as Fr

import numpy as np

import mir_eval

import core
import proto
from core import Case

PID = "C20"
LEAN_MODULES = ["MirProofs.Props.C20", "MirProofs.Props.C20_GenIO"]
# the loaders are regenerated from mir_eval/io.py (harness/translate/ioload.py -> lean/MirGen/IOLoad.lean) and
# Props/C20_GenIO.lean proves every regenerated loader equal to the loader model
TRANSLATOR_PARTS = ["ioload"]
RULE = ("generated annotation files per loader (values: finite doubles incl. exponents, negatives, subnormals, "
        "in repr / %.17g / exact-decimal / short forms; labels: unicode without newlines, blanks inside the last "
        "column, '#' not in column 0; delimiters \\s+ , tab ; and literal strings; comment markers # % // ; None "
        "and (oracle only) alternations of two markers such as '#|%' with the second marker inside labels; "
        "LF / CRLF; with and without final newline) and single-fault corruptions; non-trivial = at least one "
        "data row or a fault")
ASSUMPTIONS = [
    "CPython float(str)/repr(float)/int(str) and the re module (\\s, literal patterns) are trusted; float(str) "
    "is cross-checked against correctly rounded Fraction->float conversion of the written decimal",
    "text-mode file iteration splits at '\\n' only (universal newlines for paths): labels contain no CR/LF",
    "numeric tokens use ASCII digits (Unicode decimal digits are accepted by float() but not modelled)",
    "warnings are checked by the oracle on the real code, not by the model",
]
UNPROVED = [
    "the regenerated loaders (MirGen/IOLoad.lean) read `with _open(f, mode='r')` as 'the lines of the text' and skip the "
    "validate-then-warn blocks; the translator (harness/translate/ioload.py) and its run-time library "
    "(MirModel/PyIO.lean) are trusted, exercised by the gen_io.* suites",
    "path vs open file object: not modelled (the model takes the text); checked by the harness on every case",
    "float(str) / repr(float) bit-exact round trip: CPython's, trusted; cross-checked against Fraction->float",
    "validate-then-warn: warnings are outside the model; the oracle checks them on the real code",
    "weightOkTok thresholds (1+2^-53, -2^-1075) equal binary64 rounding of the decimal token: argued in "
    "MirModel/IO.lean, exercised on boundary tokens, not proved (no binary64 model)",
    "typed round-trip corollaries are proved for load_events, load_labeled_events, load_intervals, "
    "load_labeled_intervals, load_time_series and load_valued_intervals (load_<name>_roundtrip), key / tempo / ragged / "
    "patterns have their own theorems; load_wav is outside the property",
]

TMPDIR = os.path.join(core.WORK, "c20_tmp")
_counter = [0]


# ----------------------------------------------------------------------------------------
# numbers

def fbits(x):
    return "f:%016x" % struct.unpack("<Q", struct.pack("<d", float(x)))[0]


def dec_to_float(tok):
    """Correctly rounded binary64 value of a decimal token, computed WITHOUT float(str)."""
    t = tok.strip().replace("_", "")
    neg = t.startswith("-")
    t = t.lstrip("+-")
    m = re.fullmatch(r"(\d*)\.?(\d*)(?:[eE]([+-]?\d+))?", t)
    if m is None or (m.group(1) == "" and m.group(2) == ""):
        raise ValueError("not a decimal token: %r" % tok)
    ip, fp, e = m.group(1), m.group(2), int(m.group(3) or 0)
    mant = int((ip + fp) or "0")
    exp = e - len(fp)
    if mant == 0:
        v = 0.0
    else:
        nd = len(str(mant))
        if nd + exp > 400:
            v = math.inf
        elif nd + exp < -400:
            v = 0.0
        else:
            q = Fr(mant) * Fr(10) ** exp
            try:
                v = q.numerator / q.denominator      # int / int: correctly rounded
            except OverflowError:
                v = math.inf
    return -v if neg else v


SPECIAL = [0.0, -0.0, 1.0, -1.0, 5e-324, -5e-324, 2.2250738585072014e-308, 2.225073858507201e-308,
           1.7976931348623157e308, -1.7976931348623157e308, 0.1, 1.0 / 3.0, 1e22, 1e23, 9007199254740993.0,
           0.30000000000000004, 123456789012345680.0, 1e-7, 30000.0, 30000.000000000004]


def gen_float(rng):
    k = rng.random()
    if k < 0.25:
        return rng.randint(0, 64 * 32) / 32.0
    if k < 0.40:
        return round(rng.uniform(0, 600), rng.randint(0, 6))
    if k < 0.52:
        return rng.uniform(-1e3, 1e3)
    if k < 0.67:
        while True:
            x = struct.unpack("<d", struct.pack("<Q", rng.getrandbits(64)))[0]
            if math.isfinite(x):
                return x
    if k < 0.77:
        return rng.choice(SPECIAL)
    if k < 0.87:
        return float(rng.randint(-10 ** 6, 10 ** 6))
    return rng.choice([-1, 1]) * rng.random() * 10.0 ** rng.randint(-320, 308)


def exact_decimal(x):
    from decimal import Decimal
    return format(Decimal(x), "f")


def fmt_float(rng, x):
    """A decimal token for x and the double it denotes (computed independently of float())."""
    k = rng.random()
    exact = True
    if k < 0.35:
        t = repr(x)
    elif k < 0.45:
        t = "%.17g" % x
    elif k < 0.52:
        t = "%.17e" % x
    elif k < 0.57:
        t = ("%.17e" % x).upper()
    elif k < 0.62:
        t = repr(x)
        t = t if t.startswith("-") else "+" + t
    elif k < 0.68:
        t = repr(x)
        if "e" not in t and "." in t:
            t = t + "0" * rng.randint(1, 4)
        sign = "-" if t.startswith("-") else ""
        t = sign + "0" * rng.randint(0, 2) + t.lstrip("-")
    elif k < 0.73:
        t = repr(x)
        ip = t.lstrip("-").split(".")[0].split("e")[0]
        if len(ip) >= 4 and ip.isdigit() and "e" not in t:
            sign = "-" if t.startswith("-") else ""
            rest = t.lstrip("-")[len(ip):]
            t = sign + ip[:-3] + "_" + ip[-3:] + rest
    elif k < 0.79 and abs(x) < 1e25 and (x == 0 or abs(x) > 1e-25):
        t = exact_decimal(x)
    elif k < 0.84 and x == int(x) and abs(x) < 1e15:
        t = "%d" % int(x)
        if rng.random() < 0.3:
            t += "."
        if x == 0 and math.copysign(1, x) < 0:
            t = "-" + t
    elif k < 0.88:
        t = repr(x)
        if t.startswith("0."):
            t = t[1:]
        elif t.startswith("-0."):
            t = "-" + t[2:]
    elif k < 0.94:
        t = "%.*f" % (rng.randint(0, 6), x) if abs(x) < 1e15 else repr(x)
        exact = False
    else:
        t = "%.*g" % (rng.randint(1, 12), x)
        exact = False
    v = dec_to_float(t)
    if exact and fbits(v) != fbits(x):
        raise AssertionError("generator self-check: %r does not denote %r (got %r)" % (t, x, v))
    return t, v


def gen_num(rng):
    return fmt_float(rng, gen_float(rng))


# ----------------------------------------------------------------------------------------
# labels

WS_CHARS = [" ", "\t", "\x0b", "\x0c", "\x1c", "\x1f", "\x85", "\xa0", "\u1680", "\u2003", "\u2028", "\u2029",
            "\u202f", "\u205f", "\u3000"]
WORD_POOLS = [
    "abcdefghijklmnopqrstuvwxyzABCDEFGHIJKLMNOPQRSTUVWXYZ",
    "0123456789", "#:()/+-_*.;%&!?'\"<>=[]{}|\\^$~@`,",
    "\u00e9\u00fc\u00df\u00f1\u0130\u0131\u212a\u00c5\u0434\u0436\u03b1\u03b2",
    "\u65e5\u672c\u8a9e\u4e2d\u6587\ud55c", "\U0001f3b5\U0001f3b6\U00010348\U0001d11e",
    "\u0301\u0308\u200b\u200d\ufeff\u00ad", "\x01\x07\x1b\x7f\x80\x9f",
]
MUSIC_LABELS = ["C:maj", "N", "A:min7", "Eb:maj(9)/3", "verse", "chorus", "silence", "bass drum", "A'", "1", "2.5",
                "intro (reprise)", "F#:hdim7/b7", "section B", "#hashtag", "a#b", "x # y"]
IS_WS = lambda c: c.isspace()  # noqa: E731


def gen_word(rng, forbid):
    while True:
        k = rng.random()
        if k < 0.3:
            w = rng.choice(MUSIC_LABELS).replace(" ", "")
        else:
            n = rng.randint(1, 6)
            pools = [rng.choice(WORD_POOLS[:3])] if k < 0.7 else WORD_POOLS
            w = "".join(rng.choice(rng.choice(pools)) for _ in range(n))
        if w and not any(f in w for f in forbid) and not any(IS_WS(c) for c in w):
            return w


def clean_for(lab, delim):
    """`lab` followed by the literal `delim`: the first delimiter match is the one that follows the label."""
    return delim == r"\s+" or (lab + delim).find(delim) == len(lab)


def gen_label(rng, last, delim, markers, first=False):
    """A strip-stable label without CR/LF.  Blanks inside: only in the last column when the delimiter is \\s+."""
    ws = delim == r"\s+"
    while True:
        nwords = rng.choice([1, 1, 1, 2, 3]) if (last or not ws) else 1
        words = [gen_word(rng, []) for _ in range(nwords)]
        lab = words[0]
        for w in words[1:]:
            lab += "".join(rng.choice(WS_CHARS) for _ in range(rng.choice([1, 1, 2]))) + w
        if not last and not clean_for(lab, delim):
            continue
        if first and any(m is not None and (m == "" or lab.startswith(m)) for m in markers):
            continue
        return lab


# ----------------------------------------------------------------------------------------
# tables (load_delimited family)

DELIMS = [r"\s+", r"\s+", r"\s+", ",", "\t", ";", "::", ", "]
COMMENTS = ["#", "#", "#", "%", "//", ";", None]
WS_SEPS = [" ", " ", "\t", "  ", " \t ", "\xa0", "\u2003 ", "    "]

LOADERS = {
    "load_events": ["float"],
    "load_labeled_events": ["float", "str"],
    "load_intervals": ["float", "float"],
    "load_labeled_intervals": ["float", "float", "str"],
    "load_time_series": ["float", "float"],
    "load_valued_intervals": ["float", "float", "float"],
    "load_key": ["str", "str"],
    "load_tempo": ["float", "float", "float"],
}


def pick_format(rng):
    delim = rng.choice(DELIMS)
    comment = rng.choice(COMMENTS)
    if comment is not None and delim != r"\s+" and (comment in delim or delim in comment):
        comment = "#"
    return delim, comment


class Line:
    """One line of a table file: either a comment or a data row made of tokens and separators."""

    def __init__(self, kind, text=None, tokens=None, seps=None, pre="", post="", cells=None):
        self.kind, self.text, self.tokens, self.seps = kind, text, tokens, seps
        self.pre, self.post, self.cells = pre, post, cells

    def render(self):
        if self.kind != "data":
            return self.text
        out = self.pre
        for i, t in enumerate(self.tokens):
            if i:
                out += self.seps[i - 1]
            out += t
        return out + self.post


def gen_cell(rng, kind, j, n, delim, markers):
    """(token text as written, canonical expected cell)"""
    if kind == "float":
        t, v = gen_num(rng)
        if delim != r"\s+" and rng.random() < 0.25:
            # float() tolerates blanks around the number; the line's strip() eats the outer ones anyway
            pads = [p for p in ["", " ", "\t", "\xa0", "  "] if not any(ch in delim for ch in p)]
            t = rng.choice(pads) * (j > 0) + t + rng.choice(pads) * (j < n - 1)
        return t, fbits(v)
    if kind == "int":
        v = rng.randint(-10 ** 6, 10 ** 6) if rng.random() < 0.8 else rng.randint(0, 127)
        t = rng.choice(["%d", "%d", "+%d", "0%d"]) % v if v >= 0 else "%d" % v
        return t, v
    lab = gen_label(rng, j == n - 1 and n >= 2, delim, markers, first=(j == 0))
    if delim != r"\s+" and j > 0 and " " not in delim and rng.random() < 0.15:
        lab = " " + lab          # a literal delimiter keeps the blanks of inner fields
    return lab, lab


def gen_comment_line(rng, comment):
    body = rng.choice(["", " comment", " time\tlabel", "# 1.0 2.0 x", " \u266b unicode", " 1 2 3", "pattern"])
    return Line("comment", text=comment + body)


def gen_table(rng, kinds, nrows, delim, comment, comments_ok=True, simple_labels=False):
    n = len(kinds)
    markers = [comment]
    lines = []
    for _ in range(nrows):
        if comments_ok and comment is not None and rng.random() < 0.15:
            lines.append(gen_comment_line(rng, comment))
        toks, cells = [], []
        for j, k in enumerate(kinds):
            if k == "str" and simple_labels:
                t = gen_word(rng, [delim] if delim != r"\s+" else [])
                while not clean_for(t, delim) or (j == 0 and comment is not None and t.startswith(comment)):
                    t = gen_word(rng, [delim] if delim != r"\s+" else [])
                c = t
            else:
                t, c = gen_cell(rng, k, j, n, delim, markers)
            toks.append(t)
            cells.append(c)
        if delim == r"\s+":
            seps = [rng.choice(WS_SEPS) for _ in range(n - 1)]
            pre = rng.choice(["", "", "", " ", "\t", "\xa0 "])
            post = rng.choice(["", "", "", " ", "\t ", "\u2003"])
        else:
            seps = [delim] * (n - 1)
            pre = rng.choice(["", "", "", " "])
            post = rng.choice(["", "", "", " ", "\t"])
        if n == 0:
            continue
        lines.append(Line("data", tokens=toks, seps=seps, pre=pre, post=post, cells=cells))
    if comments_ok and comment is not None and rng.random() < 0.2:
        lines.append(gen_comment_line(rng, comment))
    return lines


def render_lines(rng, lines, eol=None, final_newline=None):
    if eol is None:
        eol = "\n" if rng.random() < 0.85 else "\r\n"
    if final_newline is None:
        final_newline = rng.random() < 0.85
    txt = eol.join(l.render() for l in lines)
    if lines and final_newline:
        txt += eol
    return txt


def expected_of(loader, kinds, lines):
    rows = [l.cells for l in lines if l.kind == "data"]
    return shape_rows(loader, kinds, rows)


def shape_rows(loader, kinds, rows):
    """Canonical value a loader must return for these data rows (cells already canonical)."""
    col = lambda j: [r[j] for r in rows]  # noqa: E731
    if loader == "load_delimited":
        if len(kinds) == 1:
            return col(0)
        return [col(j) for j in range(len(kinds))]
    if loader == "load_events":
        return col(0)
    if loader == "load_labeled_events":
        return [col(0), col(1)]
    if loader == "load_intervals":
        return [[r[0], r[1]] for r in rows]
    if loader == "load_labeled_intervals":
        return [[[r[0], r[1]] for r in rows], col(2)]
    if loader == "load_time_series":
        return [col(0), col(1)]
    if loader == "load_valued_intervals":
        return [[[r[0], r[1]] for r in rows], col(2)]
    if loader == "load_key":
        return rows[0][0] + " " + rows[0][1]
    if loader == "load_tempo":
        return [[rows[0][0], rows[0][1]], rows[0][2]]
    raise KeyError(loader)


# ----------------------------------------------------------------------------------------
# running the real loaders

def _arr1(a, dtype="float64"):
    if not isinstance(a, np.ndarray) or a.ndim != 1 or str(a.dtype) != dtype:
        return ["!shape", repr(type(a)), repr(getattr(a, "shape", None)), str(getattr(a, "dtype", None))]
    if dtype == "float64":
        return [fbits(x) for x in a.tolist()]
    return [int(x) for x in a.tolist()]


def _arr2(a):
    if not isinstance(a, np.ndarray) or a.ndim != 2 or a.shape[1] != 2 or str(a.dtype) != "float64":
        return ["!shape", repr(type(a)), repr(getattr(a, "shape", None)), str(getattr(a, "dtype", None))]
    return [[fbits(x), fbits(y)] for x, y in a.tolist()]


def _labels(ls):
    if not isinstance(ls, list) or not all(type(s) is str for s in ls):
        return ["!shape", repr(ls)[:80]]
    return list(ls)


def _cellcol(col, kind):
    if not isinstance(col, list):
        return ["!shape", repr(type(col))]
    if kind == "float":
        return [fbits(x) if type(x) is float else ["!type", repr(x)] for x in col]
    return [x if type(x) is str else ["!type", repr(x)] for x in col]


def canon_result(loader, r, kinds=None, dtype="float"):
    if loader == "load_delimited":
        if len(kinds) == 1:
            return _cellcol(r, kinds[0])
        if not isinstance(r, tuple) or len(r) != len(kinds):
            return ["!shape", repr(type(r))]
        return [_cellcol(c, k) for c, k in zip(r, kinds)]
    if loader == "load_events":
        return _arr1(r)
    if loader == "load_labeled_events":
        return [_arr1(r[0]), _labels(r[1])]
    if loader == "load_intervals":
        return _arr2(r)
    if loader == "load_labeled_intervals":
        return [_arr2(r[0]), _labels(r[1])]
    if loader == "load_time_series":
        return [_arr1(r[0]), _arr1(r[1])]
    if loader == "load_valued_intervals":
        return [_arr2(r[0]), _arr1(r[1])]
    if loader == "load_key":
        return r if type(r) is str else ["!type", repr(r)]
    if loader == "load_tempo":
        if not isinstance(r, tuple) or len(r) != 2 or type(r[1]) is not float:
            return ["!shape", repr(r)[:80]]
        return [_arr1(r[0]), fbits(r[1])]
    if loader == "load_ragged_time_series":
        if not isinstance(r, tuple) or len(r) != 2 or not isinstance(r[1], list):
            return ["!shape", repr(r)[:80]]
        return [_arr1(r[0]), [_arr1(v, "float64" if dtype == "float" else "int64") for v in r[1]]]
    if loader == "load_patterns":
        if not isinstance(r, list):
            return ["!shape", repr(type(r))]
        out = []
        for p in r:
            po = []
            for o in p:
                oo = []
                for pt in o:
                    if not isinstance(pt, tuple) or len(pt) != 2 or type(pt[0]) is not float or type(pt[1]) is not float:
                        return ["!shape", repr(pt)[:80]]
                    oo.append([fbits(pt[0]), fbits(pt[1])])
                po.append(oo)
            out.append(po)
        return out
    raise KeyError(loader)


CONV = {"float": float, "str": str, "int": int}


def call_loader(loader, src, params):
    f = getattr(mir_eval.io, loader)
    if loader == "load_patterns":
        return f(src)
    kw = {"delimiter": params["delim"], "comment": params["comment"]}
    if loader == "load_delimited":
        return f(src, [CONV[k] for k in params["kinds"]], **kw)
    if loader == "load_ragged_time_series":
        return f(src, dtype=CONV[params["dtype"]], header=params["header"], **kw)
    return f(src, **kw)


def run_one(loader, src, params, label):
    """-> (canonical outcome, [warning messages]).  Errors become ["!err", class, row]."""
    with warnings.catch_warnings(record=True) as w:
        warnings.simplefilter("always")
        try:
            r = call_loader(loader, src, params)
            out = canon_result(loader, r, params.get("kinds"), params.get("dtype", "float"))
        except Exception as e:  # noqa: BLE001 - classified
            cls = proto.classify_exc(e).cls
            m = re.search(re.escape(label) + r":(\d+):\n\t", str(e))
            out = ["!err", cls, int(m.group(1)) if m else None]
        msgs = [str(x.message) for x in w if not issubclass(x.category, (DeprecationWarning, RuntimeWarning))]
    return out, msgs


def run_both(loader, content, params):
    """Load `content` from a StringIO and from a path; -> (outcome | ["!mismatch", \u2026], warnings)."""
    sio = io.StringIO(content)
    a, wa = run_one(loader, sio, params, str(sio))
    os.makedirs(TMPDIR, exist_ok=True)
    _counter[0] += 1
    path = os.path.join(TMPDIR, "%d_%d.txt" % (os.getpid(), _counter[0]))
    # the path has a history: it held another annotation (the same lines in reverse order, or one made-up row), which was
    # loaded, and is then REWRITTEN with `content` - what a user does who regenerates an annotation file between two
    # loads; a loader may depend on what the file holds now, never on what it held under that name before
    lines = content.splitlines(keepends=True)
    earlier = "".join(reversed(lines)) if len(lines) > 1 else content + "0.5\t1.5\tearlier\n"
    with open(path, "w", encoding="utf-8", newline="") as fh:
        fh.write(earlier)
    try:
        run_one(loader, path, params, path)
    except Exception:  # noqa: BLE001 - only has to have happened
        pass
    with open(path, "w", encoding="utf-8", newline="") as fh:
        fh.write(content)
    try:
        b, wb = run_one(loader, path, params, path)
        with open(path, "r", encoding="utf-8") as fh:
            c, wc = run_one(loader, fh, params, str(fh))
    finally:
        os.unlink(path)
    if a != b:
        return ["!mismatch", "StringIO vs path", a, b], wa
    if a != c:
        return ["!mismatch", "StringIO vs open file", a, c], wa
    if bool(wa) != bool(wb) or bool(wa) != bool(wc):
        return ["!mismatch", "warnings differ between sources", wa, wb], wa
    return a, wa


# ----------------------------------------------------------------------------------------
# model side: tokens -> canonical cells

def tok_float(t):
    try:
        return fbits(float(t))
    except Exception:  # noqa: BLE001
        return ["!model-token-not-a-float", t]


def tok_int(t):
    try:
        return int(t)
    except Exception:  # noqa: BLE001
        return ["!model-token-not-an-int", t]


def is_err(mv):
    return isinstance(mv, list) and len(mv) == 3 and mv[0] == "!err"


def post_for(loader, kinds=None, dtype="float"):
    fl = lambda xs: [tok_float(t) for t in xs]  # noqa: E731
    pairs = lambda xs: [[tok_float(a), tok_float(b)] for a, b in xs]  # noqa: E731

    def post(mv):
        if is_err(mv):
            return [mv[0], mv[1], None if mv[2] is None else int(mv[2])]
        if loader == "load_delimited":
            if len(kinds) == 1:
                return fl(mv) if kinds[0] == "float" else mv
            return [fl(c) if k == "float" else c for c, k in zip(mv, kinds)]
        if loader == "load_events":
            return fl(mv)
        if loader == "load_labeled_events":
            return [fl(mv[0]), mv[1]]
        if loader == "load_intervals":
            return pairs(mv)
        if loader == "load_labeled_intervals":
            return [pairs(mv[0]), mv[1]]
        if loader == "load_time_series":
            return [fl(mv[0]), fl(mv[1])]
        if loader == "load_valued_intervals":
            return [pairs(mv[0]), fl(mv[1])]
        if loader == "load_key":
            return mv
        if loader == "load_tempo":
            return [fl(mv[0]), tok_float(mv[1])]
        if loader == "load_ragged_time_series":
            conv = tok_float if dtype == "float" else tok_int
            return [fl(mv[0]), [[conv(t) for t in v] for v in mv[1]]]
        if loader == "load_patterns":
            return [[pairs(o) for o in p] for p in mv]
        raise KeyError(loader)
    return post


def make_case(loader, content, params, expected, tag, fault=None, expect_err=None):
    """One correspondence case.  `expected` (canonical value) is known for well-formed files."""
    if loader == "load_patterns":
        args = [content]
    elif loader == "load_delimited":
        args = [content, list(params["kinds"]), params["delim"], params["comment"]]
    elif loader == "load_ragged_time_series":
        args = [content, params["dtype"], params["delim"], params["header"], params["comment"]]
    else:
        args = [content, params["delim"], params["comment"]]

    def call():
        out, _ = run_both(loader, content, params)
        if expected is not None and out != expected:
            return ["!mismatch", "loaded value differs from the written data", out, expected]
        return out

    info = {"loader": loader, "content": content, "params": params,
            "expect": ({"kind": "value", "value": expected} if expected is not None else
                       expect_err if expect_err is not None else {"kind": "same"}),
            "fault": fault}
    return Case("io." + loader, args, call, tol=0.0, tag=tag, info=info,
                nontrivial=(fault is not None or (expected not in ([], [[], []], None))),
                post=post_for(loader, params.get("kinds"), params.get("dtype", "float")))


# ----------------------------------------------------------------------------------------
# faults on tables

JUNK = ["abc", "1.2.3", "1e", "--1", "1,5", "0x10", "1__0", "_1", "1_", "e5", ".", "+", "1e+", "in", "infinit",
        "na", "1 2", "1d5", "1f", "\u0663" + "x", "\u00bd", "1..", "- 1", "1e5.0", "1_.5", "nan(1)", "12a", "\x1c1"]
SPECIAL_NUM = ["nan", "inf", "-inf", "Infinity", "-iNf", "NaN", "+nan", "1e400", "-1e400", "1e-400", "1_0", "1e5_0",
               "1.e5", ".5e-3", "5.E+3", "00", "-0", "\u0661\u0662"[:0] + "12"]


def data_indices(lines):
    return [i for i, l in enumerate(lines) if l.kind == "data"]


def apply_fault(rng, lines, kinds, delim, comment, fault):
    """Mutates a copy of `lines`; returns (lines, 1-based row of the fault | None)."""
    lines = [Line(l.kind, l.text, list(l.tokens) if l.tokens else l.tokens, list(l.seps) if l.seps else l.seps,
                  l.pre, l.post, list(l.cells) if l.cells else l.cells) for l in lines]
    di = data_indices(lines)
    n = len(kinds)
    if fault == "blank":
        pos = rng.randint(0, len(lines))
        lines.insert(pos, Line("raw", text=rng.choice(["", "", " ", "\t", " \xa0 "])))
        return lines, pos + 1
    if fault == "indented_comment":
        pos = rng.randint(0, len(lines))
        lines.insert(pos, Line("raw", text=rng.choice([" ", "\t", "  "]) + (comment or "#") + " note"))
        return lines, pos + 1
    if not di:
        return None, None
    i = rng.choice(di)
    l = lines[i]
    if fault == "drop_col":
        j = rng.randrange(n)
        del l.tokens[j]
        if l.seps:
            del l.seps[min(j, len(l.seps) - 1)]
        return lines, i + 1
    if fault == "add_col":
        j = rng.randint(0, n)
        l.tokens.insert(j, rng.choice(["1.0", "7", "x", "0.5"]))
        l.seps.insert(min(j, len(l.seps)), delim if delim != r"\s+" else " ")
        return lines, i + 1
    if fault == "bad_num":
        js = [j for j, k in enumerate(kinds) if k in ("float", "int")]
        if not js:
            return None, None
        j = rng.choice(js)
        junk = rng.choice(JUNK)
        if delim != r"\s+" and delim in junk:
            junk = "abc"
        if delim == r"\s+" and any(IS_WS(c) for c in junk):
            junk = "abc"
        if j == 0 and comment is not None and junk.startswith(comment):
            junk = "abc"
        if (j == 0 or j == n - 1) and junk.strip() != junk:
            junk = "abc"                # the line's strip() would repair it
        l.tokens[j] = junk
        return lines, i + 1
    if fault == "special_num":
        js = [j for j, k in enumerate(kinds) if k == "float"]
        if not js:
            return None, None
        j = rng.choice(js)
        l.tokens[j] = rng.choice(SPECIAL_NUM)
        return lines, None
    raise KeyError(fault)


TABLE_FAULTS = ["blank", "indented_comment", "drop_col", "add_col", "bad_num", "special_num"]

KEYS = ["c", "c#", "db", "d", "d#", "eb", "e", "f", "f#", "gb", "g", "g#", "ab", "a", "a#", "bb", "b"]
MODES = ["major", "minor", "other"]


def gen_key_lines(rng, delim, comment, valid=True):
    if valid:
        k = rng.choice(KEYS)
        k = k.upper() if rng.random() < 0.5 else (k[0].upper() + k[1:] if rng.random() < 0.7 else k)
        mode = rng.choice(MODES)
    else:
        k, mode = rng.choice([("H", "major"), ("C", "Major"), ("X", "major"), ("c", "maj"), ("C##", "minor"),
                              ("\u00e7", "minor"), ("C", "dorian"), ("x", "other")])
    seps = [rng.choice(WS_SEPS) if delim == r"\s+" else delim]
    if delim != r"\s+" and " " not in delim and rng.random() < 0.4:
        # a literal delimiter keeps the blanks next to it: they end up in the key string
        k, mode = k + rng.choice(["", " ", "  "]), rng.choice(["", " "]) + mode
    lines = []
    if comment is not None and rng.random() < 0.3:
        lines.append(gen_comment_line(rng, comment))
    lines.append(Line("data", tokens=[k, mode], seps=seps, pre="", post=rng.choice(["", " "]), cells=[k, mode]))
    if comment is not None and rng.random() < 0.2:
        lines.append(gen_comment_line(rng, comment))
    return lines


WEIGHT_EDGE_OK = ["0", "1", "1.0", "0.0", "-0.0", "1e0", "1.00000000000000011102230246251565404236316680908203125",
                  "-1e-400", "-2e-324", "1.00000000000000005", "0.99999999999999999999", "5e-324", ".5", "1."]
WEIGHT_EDGE_BAD = ["1.5", "-0.1", "nan", "inf", "-inf", "2", "1.0000000000000002",
                   "1.0000000000000001110223024625156540423631668090820312500001", "-3e-324", "-5e-324",
                   "1e400", "-1e-300", "1.00000000000000012"]


def gen_tempo_lines(rng, delim, comment, weight_tok=None, valid_tempi=True):
    if valid_tempi:
        t1 = fmt_float(rng, round(rng.uniform(20, 120), rng.randint(0, 3)))
        t2 = fmt_float(rng, round(rng.uniform(60, 300), rng.randint(0, 3)))
        if rng.random() < 0.1:
            t1 = ("0", 0.0)
    else:
        t1, t2 = rng.choice([(("0", 0.0), ("0.0", 0.0)), (("-60", -60.0), ("120", 120.0)),
                             (("inf", math.inf), ("120", 120.0)), (("60", 60.0), ("nan", math.nan))])
    if weight_tok is None:
        if rng.random() < 0.3:
            weight_tok = rng.choice(WEIGHT_EDGE_OK)
            w = (weight_tok, dec_to_float(weight_tok))
        else:
            w = fmt_float(rng, rng.choice([rng.random(), rng.randint(0, 10) / 10.0, 0.0, 1.0]))
            if not (0 <= w[1] <= 1):
                w = ("0.5", 0.5)
    else:
        try:
            w = (weight_tok, float(weight_tok))
        except ValueError:
            w = (weight_tok, None)
    seps = [rng.choice(WS_SEPS) if delim == r"\s+" else delim for _ in range(2)]
    lines = []
    if comment is not None and rng.random() < 0.3:
        lines.append(gen_comment_line(rng, comment))
    lines.append(Line("data", tokens=[t1[0], t2[0], w[0]], seps=seps, pre="", post="",
                      cells=[fbits(t1[1]), fbits(t2[1]), fbits(w[1]) if w[1] is not None else None]))
    return lines


def table_cases(rng, loader, n_valid, n_fault):
    kinds_fixed = LOADERS.get(loader)
    for it in range(n_valid + n_fault):
        faulty = it >= n_valid
        delim, comment = pick_format(rng)
        kinds = kinds_fixed
        if loader == "load_delimited":
            kinds = [rng.choice(["float", "str"]) for _ in range(rng.choice([0, 1, 1, 2, 2, 3, 3, 4]))]
        params = {"delim": delim, "comment": comment}
        if loader == "load_delimited":
            params["kinds"] = kinds
        if loader == "load_key":
            lines = gen_key_lines(rng, delim, comment, valid=rng.random() < 0.7)
        elif loader == "load_tempo":
            lines = gen_tempo_lines(rng, delim, comment, valid_tempi=rng.random() < 0.8)
        else:
            nrows = rng.choice([0, 1, 1, 2, 3, 5, 8, 20]) if not faulty else rng.choice([1, 2, 3, 5, 12])
            lines = gen_table(rng, kinds, nrows, delim, comment)
        if not faulty:
            content = render_lines(rng, lines)
            rows = [l for l in lines if l.kind == "data"]
            if loader in ("load_key", "load_tempo") or len(kinds) > 0:
                expected = expected_of(loader, kinds, lines)
            else:
                expected = []
            yield make_case(loader, content, params, expected, "valid n=%d d=%s" % (min(len(rows), 3), delim))
            continue
        # single faults (outcome predicted by the model)
        if loader == "load_key":
            fault = rng.choice(["second_line", "blank", "drop_col", "add_col", "empty", "indented_comment"])
        elif loader == "load_tempo":
            fault = rng.choice(["second_line", "weight", "weight", "blank", "drop_col", "add_col", "bad_num", "empty",
                                "special_num"])
        else:
            fault = rng.choice(TABLE_FAULTS)
        if len(kinds) == 0 and fault in ("drop_col", "add_col", "bad_num", "special_num"):
            fault = "blank"
        if fault == "second_line":
            more = gen_key_lines(rng, delim, None) if loader == "load_key" else gen_tempo_lines(rng, delim, None)
            flines = lines + more
        elif fault == "empty":
            flines = [l for l in lines if l.kind != "data"]
        elif fault == "weight":
            flines = gen_tempo_lines(rng, delim, comment, weight_tok=rng.choice(WEIGHT_EDGE_BAD + WEIGHT_EDGE_OK[:7]))
        else:
            flines, _ = apply_fault(rng, lines, kinds, delim, comment, fault)
            if flines is None:
                continue
        content = render_lines(rng, flines)
        yield make_case(loader, content, params, None, "fault %s" % fault, fault=fault)


# ----------------------------------------------------------------------------------------
# ragged time series

def gen_ragged(rng, faulty=False):
    delim = rng.choice([r"\s+", r"\s+", ",", "\t", ";"])
    comment = rng.choice(COMMENTS)
    if comment is not None and delim != r"\s+" and (comment in delim or delim in comment):
        comment = "#"
    dtype = rng.choice(["float", "float", "int"])
    header = rng.random() < 0.4
    lines = []
    nrows = rng.choice([0, 1, 2, 3, 5]) if not faulty else rng.choice([1, 2, 4])
    for _ in range(nrows):
        if comment is not None and rng.random() < 0.12:
            lines.append(gen_comment_line(rng, comment))
        t, tv = gen_num(rng)
        k = rng.choice([0, 0, 1, 2, 3, 5, 9, 14])
        toks, cells = [t], [fbits(tv)]
        for _ in range(k):
            tt, c = gen_cell(rng, dtype, 1, 3, r"\s+", [])
            toks.append(tt)
            cells.append(c)
        seps = [rng.choice(WS_SEPS) if delim == r"\s+" else delim for _ in range(k)]
        lines.append(Line("data", tokens=toks, seps=seps, pre=rng.choice(["", "", " "]), post=rng.choice(["", "", " "]),
                          cells=cells))
    params = {"delim": delim, "comment": comment, "dtype": dtype, "header": header}
    return lines, params


def with_header_line(rng, lines, params):
    """The file's lines: with header=True a header row (any text: it is skipped, not parsed) comes first."""
    if not params["header"]:
        return list(lines)
    d = " " if params["delim"] == r"\s+" else params["delim"]
    hdr = rng.choice(["time" + d + "f0", "t" + d + "v1" + d + "v2", "seconds", "", "  ", "0.0" + d + "1.0",
                      (params["comment"] or "#") + " time values", "Zeit" + d + "H\u00f6he \u266b", "1e", "pattern"])
    return [Line("raw", text=hdr)] + list(lines)


def ragged_expected(lines):
    rows = [l.cells for l in lines if l.kind == "data"]
    return [[r[0] for r in rows], [r[1:] for r in rows]]


def ragged_cases(rng, n_valid, n_fault):
    for it in range(n_valid + n_fault):
        faulty = it >= n_valid
        lines, params = gen_ragged(rng, faulty)
        if not faulty:
            yield make_case("load_ragged_time_series", render_lines(rng, with_header_line(rng, lines, params)), params,
                            ragged_expected(lines), "valid %s header=%s" % (params["dtype"], params["header"]))
            continue
        fault = rng.choice(["blank", "bad_num", "bad_time", "indented_comment", "missing_header", "float_for_int",
                            "header_only"])
        flines = [Line(l.kind, l.text, list(l.tokens) if l.tokens else None, list(l.seps) if l.seps is not None else None,
                       l.pre, l.post, l.cells) for l in lines]
        di = data_indices(flines)
        if fault in ("blank", "indented_comment"):
            flines, _ = apply_fault(rng, flines, ["float"], params["delim"], params["comment"], fault)
        elif fault == "missing_header":
            # header=True on a file without a header row: the first line is eaten whatever it is
            params = dict(params, header=True)
            yield make_case("load_ragged_time_series", render_lines(rng, flines), params, None, "fault %s" % fault,
                            fault=fault)
            continue
        elif fault == "header_only":
            params = dict(params, header=True)
            content = rng.choice(["", "time f0", "time f0\n", "\n", "# c\n", "x"])
            yield make_case("load_ragged_time_series", content, params, [[], []], "fault %s" % fault, fault=fault)
            continue
        else:
            if not di:
                continue
            l = flines[rng.choice(di)]
            junk = rng.choice([j for j in JUNK if not any(IS_WS(c) for c in j) and params["delim"] not in j])
            if fault == "bad_time":
                l.tokens[0] = junk if not (params["comment"] and junk.startswith(params["comment"])) else "abc"
            elif fault == "float_for_int":
                if len(l.tokens) < 2:
                    continue
                l.tokens[rng.randrange(1, len(l.tokens))] = rng.choice(["1.5", "2.0", "1e3", "nan"])
            else:
                if len(l.tokens) < 2:
                    continue
                l.tokens[rng.randrange(1, len(l.tokens))] = junk
        yield make_case("load_ragged_time_series", render_lines(rng, with_header_line(rng, flines, params)), params,
                        None, "fault %s" % fault, fault=fault)


# ----------------------------------------------------------------------------------------
# patterns

PAT_HEADERS = ["pattern%d", "pattern %d", " pattern%d ", "my pattern %d", "patterns%d", "pattern%d:"]
OCC_HEADERS = ["occurrence%d", "occurrence %d", " occurrence%d", "occurrence%d,1"]
PAIR_SEPS = [", ", ",", " , ", ",\t", ",  "]


def gen_patterns(rng, allow_empty=False):
    """-> (list of text lines, expected canonical value)"""
    lines, expected = [], []
    for p in range(rng.choice([0, 1, 1, 2, 3])):
        lines.append(rng.choice(PAT_HEADERS) % (p + 1))
        pat = []
        for o in range(rng.choice([1, 1, 2, 3]) if not allow_empty else rng.choice([0, 1, 2])):
            lines.append(rng.choice(OCC_HEADERS) % (o + 1))
            occ = []
            for _ in range(rng.choice([1, 2, 4, 6]) if not allow_empty else rng.choice([0, 1, 3])):
                a, av = gen_num(rng) if rng.random() < 0.3 else fmt_float(rng, rng.randint(0, 640) / 8.0)
                b, bv = gen_num(rng) if rng.random() < 0.3 else fmt_float(rng, float(rng.randint(30, 100)))
                lines.append(rng.choice(["", "", " "]) + a + rng.choice(PAIR_SEPS) + b + rng.choice(["", "", " "]))
                occ.append([fbits(av), fbits(bv)])
            if occ:
                pat.append(occ)
        if pat:
            expected.append(pat)
    return lines, expected


def pattern_cases(rng, n_valid, n_fault):
    for it in range(n_valid + n_fault):
        faulty = it >= n_valid
        if not faulty:
            lines, expected = gen_patterns(rng, allow_empty=rng.random() < 0.25)
            eol = "\n" if rng.random() < 0.85 else "\r\n"
            content = eol.join(lines) + (eol if lines and rng.random() < 0.85 else "")
            yield make_case("load_patterns", content, {}, expected, "valid p=%d" % min(len(expected), 3))
            continue
        lines, _ = gen_patterns(rng)
        fault = rng.choice(["short_row", "bad_first", "bad_second", "blank", "extra_col", "no_header", "occ_first",
                            "comment"])
        rows = [i for i, l in enumerate(lines) if "pattern" not in l and "occurrence" not in l]
        if fault == "no_header":
            lines = [l for l in lines if "pattern" not in l]
        elif fault == "occ_first":
            lines = [l for l in lines if "pattern" not in l][1:] + ["pattern9"]
        elif fault == "blank":
            lines.insert(rng.randint(0, len(lines)), rng.choice(["", " "]))
        elif fault == "comment":
            lines.insert(rng.randint(0, len(lines)), "# a comment")
        elif not rows:
            continue
        else:
            i = rng.choice(rows)
            a, b = lines[i].split(",")[:2]
            if fault == "short_row":
                lines[i] = a
            elif fault == "bad_first":
                lines[i] = rng.choice(["abc", "1.2.3", "", "1e"]) + "," + b
            elif fault == "bad_second":
                lines[i] = a + "," + rng.choice(["abc", "1.2.3", "", "--1"])
            elif fault == "extra_col":
                lines[i] = lines[i] + rng.choice([", 3", ",", ",x"])
        content = "\n".join(lines) + ("\n" if lines else "")
        yield make_case("load_patterns", content, {}, None, "fault %s" % fault, fault=fault)


# ----------------------------------------------------------------------------------------
# suites

def _sizes(tier):
    return (250, 150) if tier == "quick" else (1200, 800)


def _suite(loader):
    def gen(rng, tier, shard, nshards):
        nv, nf = _sizes(tier)
        if loader == "load_ragged_time_series":
            yield from ragged_cases(rng, nv, nf)
        elif loader == "load_patterns":
            yield from pattern_cases(rng, nv, nf)
        else:
            if loader == "load_delimited":
                nv, nf = 2 * nv, 2 * nf
            yield from table_cases(rng, loader, nv, nf)
    return gen


ALL_LOADERS = ["load_delimited"] + [k for k in LOADERS] + ["load_ragged_time_series", "load_patterns"]
SUITES = {l: _suite(l) for l in ALL_LOADERS}


def _gen_suite(loader):
    """the loader as REGENERATED from the source (driver op `gen.io`, lean/MirGen/IOLoad.lean) against the real one, on the
    same file generators (well-formed files, single faults, comments, blank lines, delimiters inside the last field,
    header=True): exercises the translator's reading of io.py; arguments in the order of the Python parameters"""
    def gen(rng, tier, shard, nshards):
        nv, nf = (100, 80) if tier == "quick" else (600, 400)
        if loader == "load_ragged_time_series":
            cases = ragged_cases(rng, nv, nf)
        elif loader == "load_patterns":
            cases = pattern_cases(rng, nv, nf)
        else:
            cases = table_cases(rng, loader, nv, nf)
        for c in cases:
            yield Case("gen.io", [loader] + list(c.args), c.call, tol=c.tol, tag=c.tag, info=c.info,
                       nontrivial=c.nontrivial, post=c.post)
    return gen


for _l in ALL_LOADERS:
    SUITES["gen_io." + _l] = _gen_suite(_l)


# ----------------------------------------------------------------------------------------
# the property on the real code alone

def check_file(inp):
    """inp = {loader, content, params, expect}.  expect kinds:
         value: loaded result == value (from StringIO, path and open file);  optional "warn": True
         error: raises `cls`; when "row" is given the message names that row
         same : the three sources only have to agree."""
    loader, content, params, ex = inp["loader"], inp["content"], inp.get("params") or {}, inp["expect"]
    out, warns = run_both(loader, content, params)
    if isinstance(out, list) and out and out[0] == "!mismatch":
        return "%s: %s: %r vs %r" % (loader, out[1], out[2], out[3])
    if ex["kind"] == "same":
        return None
    if ex["kind"] == "value":
        if is_err(out):
            return "%s raised %s (row %s) on a file that encodes %r" % (loader, out[1], out[2], _short(ex["value"]))
        if out != ex["value"]:
            return "%s returned %r, the file encodes %r" % (loader, _short(out), _short(ex["value"]))
        if ex.get("warn") and not warns:
            return "%s: content violating the task's conventions was returned without a warning" % loader
        return None
    if ex["kind"] == "error":
        if not is_err(out):
            return "%s returned %r where %s was expected" % (loader, _short(out), ex["cls"])
        if out[1] != ex["cls"]:
            return "%s raised %s where %s was expected" % (loader, out[1], ex["cls"])
        if ex.get("row") is not None and out[2] != ex["row"]:
            return "%s: %s does not name row %d (message names %r)" % (loader, ex["cls"], ex["row"], out[2])
        return None
    return "bad oracle input"


def _short(v):
    s = repr(v)
    return s if len(s) < 300 else s[:300] + "\u2026"


def _inp(loader, content, params, expect, fault=None):
    return {"loader": loader, "content": content, "params": params, "expect": expect, "fault": fault}


def _bad_events(rng):
    k = rng.random()
    if k < 0.4:
        return [5.0, 3.0, 7.0]
    if k < 0.7:
        return [1.0, 40000.0]
    return [2.0, 1.0]


def _regex_comment_input(rng, loader, kinds):
    """`comment` is documented as a regular expression: an alternation of two literal markers.  Lines BEGINNING with
    either marker are comments; a data row that merely CONTAINS a marker (inside its label) is data."""
    a, b = rng.choice([("#", "%"), ("%", "#"), ("//", ";"), ("#", "!"), ("!", "//")])
    delim = rng.choice([r"\s+", r"\s+", ",", "\t"])
    lines = gen_table(rng, kinds, rng.choice([1, 2, 3, 6]), delim, None, comments_ok=False, simple_labels=True)
    out = []
    for l in lines:
        if rng.random() < 0.3:
            out.append(Line("comment", text=rng.choice([a, b]) + rng.choice(["", " note", " 1 2 x"])))
        lab = gen_word(rng, [",", "\t"]) + rng.choice([a, b]) + rng.choice(["", gen_word(rng, [",", "\t"])])
        l.tokens[-1] = lab
        l.cells[-1] = lab
        out.append(l)
    params = {"delim": delim, "comment": a + "|" + b}
    if loader == "load_delimited":
        params["kinds"] = kinds
    return _inp(loader, render_lines(rng, out), params, {"kind": "value", "value": expected_of(loader, kinds, out)},
                "regex_comment")


def oracle_table(loader):
    kinds_fixed = LOADERS.get(loader)

    def gen(rng, tier, shard, nshards, boost):
        n = (150 if tier == "quick" else 1000) * boost
        for _ in range(n):
            delim, comment = pick_format(rng)
            kinds = kinds_fixed
            params = {"delim": delim, "comment": comment}
            if loader == "load_delimited":
                kinds = [rng.choice(["float", "str"]) for _ in range(rng.choice([1, 1, 2, 2, 3, 3, 4, 6]))]
                params["kinds"] = kinds
            if kinds and kinds[0] == "float" and kinds[-1] == "str" and rng.random() < 0.08:
                yield _regex_comment_input(rng, loader, kinds)
                continue
            mode = rng.choice(["valid", "valid", "valid", "fault", "fault", "convention"])
            if loader == "load_key":
                yield from _oracle_key(rng, delim, comment, params, mode)
                continue
            if loader == "load_tempo":
                yield from _oracle_tempo(rng, delim, comment, params, mode)
                continue
            if mode == "valid":
                lines = gen_table(rng, kinds, rng.choice([0, 1, 2, 3, 6, 12, 30]), delim, comment)
                yield _inp(loader, render_lines(rng, lines), params,
                           {"kind": "value", "value": expected_of(loader, kinds, lines)})
            elif mode == "fault":
                lines = gen_table(rng, kinds, rng.choice([1, 2, 3, 6]), delim, comment, simple_labels=True)
                faults = ["blank", "drop_col", "bad_num"]
                if kinds[-1] == "float":
                    faults.append("add_col")
                if kinds[0] == "float":
                    faults.append("indented_comment")
                if "float" not in kinds:
                    faults = ["blank", "drop_col"]
                fault = rng.choice(faults)
                flines, row = apply_fault(rng, lines, kinds, delim, comment, fault)
                if flines is None:
                    continue
                if fault == "drop_col" and len(kinds) == 1 and kinds[0] == "str":
                    continue
                if fault == "blank" and kinds == ["str"]:
                    continue            # an empty label is a label
                if comment is not None and flines[row - 1].render().startswith(comment):
                    continue            # the corrupted row now reads as a comment line: nothing is wrong with it
                yield _inp(loader, render_lines(rng, flines, final_newline=True), params,
                           {"kind": "error", "cls": "ValueError", "row": row}, fault)
            else:
                if loader in ("load_delimited", "load_time_series"):
                    continue
                # content that parses but violates the task's conventions: returned, with a warning
                if loader in ("load_events", "load_labeled_events"):
                    rows = [[v] for v in _bad_events(rng)]
                else:
                    rows = rng.choice([[[1.0, 0.5]], [[-1.0, 2.0]], [[0.0, 1.0], [2.0, 2.0]], [[3.0, 1.0]],
                                       [[0.0, 1.0], [1.0, -0.0]]])
                lines = []
                for r in rows:
                    toks, cells = [], []
                    for j, k in enumerate(kinds):
                        if k == "float" and j < len(r):
                            toks.append(repr(r[j]))
                            cells.append(fbits(r[j]))
                        else:
                            t, c = gen_cell(rng, k, j, len(kinds), delim, [comment])
                            toks.append(t)
                            cells.append(c)
                    seps = [(" " if delim == r"\s+" else delim)] * (len(kinds) - 1)
                    lines.append(Line("data", tokens=toks, seps=seps, cells=cells))
                yield _inp(loader, render_lines(rng, lines), params,
                           {"kind": "value", "value": expected_of(loader, kinds, lines), "warn": True}, "convention")
    return gen


def _oracle_key(rng, delim, comment, params, mode):
    loader = "load_key"
    if mode == "valid":
        lines = gen_key_lines(rng, delim, comment, valid=True)
        yield _inp(loader, render_lines(rng, lines), params,
                   {"kind": "value", "value": expected_of(loader, LOADERS[loader], lines)})
    elif mode == "convention":
        lines = gen_key_lines(rng, delim, comment, valid=False)
        yield _inp(loader, render_lines(rng, lines), params,
                   {"kind": "value", "value": expected_of(loader, LOADERS[loader], lines), "warn": True}, "convention")
    else:
        lines = gen_key_lines(rng, delim, comment, valid=True)
        fault = rng.choice(["second_line", "drop_col", "blank"])
        if fault == "second_line":
            flines = lines + gen_key_lines(rng, delim, None)
            yield _inp(loader, render_lines(rng, flines), params, {"kind": "error", "cls": "ValueError", "row": None}, fault)
        else:
            flines, row = apply_fault(rng, lines, LOADERS[loader], delim, comment, fault)
            if comment is not None and flines[row - 1].render().startswith(comment):
                return
            yield _inp(loader, render_lines(rng, flines, final_newline=True), params,
                       {"kind": "error", "cls": "ValueError", "row": row}, fault)


def _oracle_tempo(rng, delim, comment, params, mode):
    loader = "load_tempo"
    kinds = LOADERS[loader]
    if mode == "valid":
        lines = gen_tempo_lines(rng, delim, comment)
        yield _inp(loader, render_lines(rng, lines), params,
                   {"kind": "value", "value": expected_of(loader, kinds, lines)})
    elif mode == "convention":
        lines = gen_tempo_lines(rng, delim, comment, valid_tempi=False)
        yield _inp(loader, render_lines(rng, lines), params,
                   {"kind": "value", "value": expected_of(loader, kinds, lines), "warn": True}, "convention")
    else:
        fault = rng.choice(["second_line", "weight", "weight", "drop_col", "bad_num", "blank", "add_col"])
        lines = gen_tempo_lines(rng, delim, comment)
        if fault == "second_line":
            flines = lines + gen_tempo_lines(rng, delim, None)
            yield _inp(loader, render_lines(rng, flines), params, {"kind": "error", "cls": "ValueError", "row": None}, fault)
        elif fault == "weight":
            w = rng.choice(["1.5", "-0.1", "2", "1.0000000000000002", "-5e-324", "nan", "inf", "-inf", "1e400",
                            repr(1 + rng.random() * 5), repr(-rng.random() - 1e-9)])
            flines = gen_tempo_lines(rng, delim, comment, weight_tok=w)
            yield _inp(loader, render_lines(rng, flines), params, {"kind": "error", "cls": "ValueError", "row": None}, fault)
        else:
            flines, row = apply_fault(rng, lines, kinds, delim, comment, fault)
            yield _inp(loader, render_lines(rng, flines, final_newline=True), params,
                       {"kind": "error", "cls": "ValueError", "row": row}, fault)


def oracle_ragged(rng, tier, shard, nshards, boost):
    loader = "load_ragged_time_series"
    n = (150 if tier == "quick" else 1000) * boost
    for _ in range(n):
        lines, params = gen_ragged(rng)
        mode = rng.choice(["valid", "valid", "valid", "fault", "header"])
        if mode == "header":
            # a file WITH a header row, loaded with header=True: the documented use of the flag
            params = dict(params, header=True)
        off = 1 if params["header"] else 0
        if mode in ("valid", "header"):
            yield _inp(loader, render_lines(rng, with_header_line(rng, lines, params)), params,
                       {"kind": "value", "value": ragged_expected(lines)}, "text_header" if mode == "header" else None)
        else:
            fault = rng.choice(["blank", "bad_time", "bad_num"])
            flines = [Line(l.kind, l.text, list(l.tokens) if l.tokens else None,
                           list(l.seps) if l.seps is not None else None, l.pre, l.post, l.cells) for l in lines]
            di = data_indices(flines)
            if fault == "blank":
                flines, row = apply_fault(rng, flines, ["float"], params["delim"], params["comment"], "blank")
            else:
                if not di:
                    continue
                i = rng.choice(di)
                l = flines[i]
                junk = rng.choice(["abc", "1.2.3", "1e", "--1", "x1"])
                if fault == "bad_time":
                    l.tokens[0] = junk
                elif len(l.tokens) >= 2:
                    l.tokens[rng.randrange(1, len(l.tokens))] = junk
                else:
                    continue
                row = i + 1
            # this loader numbers the rows of a header-less file from 0, the rows after a header row from 1
            yield _inp(loader, render_lines(rng, with_header_line(rng, flines, params), final_newline=True), params,
                       {"kind": "error", "cls": "ValueError", "row": row - 1 + off}, fault)


def oracle_patterns(rng, tier, shard, nshards, boost):
    loader = "load_patterns"
    n = (150 if tier == "quick" else 1000) * boost
    for _ in range(n):
        lines, expected = gen_patterns(rng)
        mode = rng.choice(["valid", "valid", "valid", "fault"])
        if mode == "valid":
            eol = "\n" if rng.random() < 0.85 else "\r\n"
            content = eol.join(lines) + (eol if lines and rng.random() < 0.85 else "")
            yield _inp(loader, content, {}, {"kind": "value", "value": expected})
        else:
            rows = [i for i, l in enumerate(lines) if "pattern" not in l and "occurrence" not in l]
            if not rows:
                continue
            i = rng.choice(rows)
            a, b = lines[i].split(",")[:2]
            fault = rng.choice(["short_row", "bad_first", "bad_second"])
            if fault == "short_row":
                lines[i] = a
            elif fault == "bad_first":
                lines[i] = "abc," + b
            else:
                lines[i] = a + ",abc"
            # the statement: a malformed row raises ValueError (this loader's messages carry no row number)
            # (a single-column row used to raise IndexError: fixed finding, fde71e7)
            yield _inp(loader, "\n".join(lines) + "\n", {}, {"kind": "error", "cls": "ValueError", "row": None}, fault)


CHECKERS = {"io." + l: check_file for l in ALL_LOADERS}
ORACLES = {"io." + l: oracle_table(l) for l in ["load_delimited"] + list(LOADERS)}
ORACLES["io.load_ragged_time_series"] = oracle_ragged
ORACLES["io.load_patterns"] = oracle_patterns


def classify(suite, d):
    i = d["info"]
    return "io." + i["loader"], {"loader": i["loader"], "content": i["content"], "params": i["params"],
                                 "expect": i["expect"], "fault": i.get("fault")}
