"""Exemplar property module: shows every interface a real harness/props/cXX.py implements."""
from fractions import Fraction as Fr

import mir_eval

from core import Case

PID = "EXAMPLE"
LEAN_MODULES = ["MirProofs.Props.Example"]
RULE = "f_measure on a dyadic lattice; non-trivial = not both zero"
ASSUMPTIONS = ["binary64 arithmetic agrees with the rational model to 1e-9"]
UNPROVED = []


def _lattice(rng):
    return Fr(rng.randint(0, 32), 32)


def suite_f_measure(rng, tier, shard, nshards):
    n = 200 if tier == "quick" else 5000
    for _ in range(n):
        p, r = _lattice(rng), _lattice(rng)
        b = rng.choice([Fr(1, 4), Fr(1), Fr(4)])
        yield Case("util.f_measure", [p, r, b],
                   lambda p=p, r=r, b=b: mir_eval.util.f_measure(float(p), float(r), float(b)),
                   tag="beta=%s" % b, info={"p": str(p), "r": str(r), "beta": str(b)},
                   nontrivial=(p != 0 or r != 0))


SUITES = {"f_measure": suite_f_measure}


# the property itself, checked on the real code for ONE json-able input
def check_range(inp):
    f = mir_eval.util.f_measure(inp["p"], inp["r"], inp["beta"])
    if not (0.0 <= f <= 1.0 + 1e-9):
        return "f_measure(%r) = %r outside [0,1]" % (inp, f)
    return None


def gen_range(rng, tier, shard, nshards, boost):
    for _ in range(100 * boost):
        yield {"p": rng.random(), "r": rng.random(), "beta": rng.choice([0.25, 1.0, 4.0])}


CHECKERS = {"util.f_measure": check_range}
ORACLES = {"util.f_measure": gen_range}


def classify(suite, d):
    """Map a disagreeing correspondence case to (site, oracle input) so the property is tried on it."""
    i = d["info"]
    return "util.f_measure", {"p": float(Fr(i["p"])), "r": float(Fr(i["r"])), "beta": float(Fr(i["beta"]))}
