"""Scratch property module for the beat task slice: exercises model, suites and the beat Props files."""
from suites import beat as SB

PID = "T_BEAT"
LEAN_MODULES = ["MirProofs.Props.C01_Beat", "MirProofs.Props.C02_Beat", "MirProofs.Props.C04_Beat", "MirProofs.Props.C06_Beat",
                "MirProofs.Props.C07_Beat", "MirProofs.Props.C08_Beat", "MirProofs.Props.C01_Entropy"]
RULE = ("beat sequences on the 1/32 s lattice (near-regular tempi with jitter, copies / shifts / off-beat / double / "
        "half-tempo / dropped-inserted estimates, duplicates, empty and 1-2 beat inputs), dyadic or documented-"
        "default thresholds; non-trivial = both sequences long enough for the metric to be computed")
ASSUMPTIONS = ["binary64 performs the code's arithmetic exactly on the lattice; exp/log2 of Lean Float vs NumPy to 1e-9",
               "exact ties of a float-accumulated statistic against a threshold (goto mean/std, information-gain bin "
               "edges) are reported by the model and not compared"]
UNPROVED = [
    "C02 p_score_self is stated in terms of the window / train length the code computes (pScoreParts), with the "
    "decidable side condition 0 <= win < N",
    "C04 pscore: McKinney's pair count is proved for 0 <= win < N (always the case for thresholds in [0, 1]: "
    "pscore_definition_unit_threshold); for win >= N the code wraps the slice start around (known finding, "
    "pscore_correlation_full_false); the quantisation ceil((b - offset) * 100) itself is taken as the definition",
    "C04 goto_definition describes the code as it is: the mean / std test runs over the track INCLUDING the two bounding "
    "incorrect beats, and the all-correct branch drops the last inner beat; that the reading 'statistics over the correct "
    "beats only' differs is proved (goto_correct_track_full_false) but not registered as a finding (the published "
    "definition was not available offline to settle it)",
    "C04 continuity_definition / goto_definition are about the metric bodies after validation (+ *_validated forms); "
    "the float-accumulated comparisons of the real code are tied by correspondence on the exact lattice only",
    "C08 shift theorems are stated for the metric bodies after validation (validate rejects times > 30000 s, which is "
    "not shift invariant) and for evaluate's trimming separately (trim_shift)",
    "cemgil / information_gain theorems are about the real-number reading (realOps) of the same definitions the driver "
    "runs at Float; shift invariance of both is proved for every interpretation, Float included",
]

SUITES = dict(SB.SUITES)
CHECKERS = dict(SB.CHECKERS)
ORACLES = dict(SB.ORACLES)
classify = SB.classify
