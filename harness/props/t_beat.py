"""Scratch property module for the beat task slice: exercises model, suites and the beat Props files."""
from suites import beat as SB

PID = "T_BEAT"
LEAN_MODULES = ["MirProofs.Props.C01_Beat", "MirProofs.Props.C02_Beat", "MirProofs.Props.C04_Beat", "MirProofs.Props.C06_Beat",
                "MirProofs.Props.C07_Beat", "MirProofs.Props.C08_Beat", "MirProofs.Props.C01_Entropy"]
RULE = ("beat sequences on the 1/32 s lattice (near-regular tempi with jitter, copies / shifts / off-beat / double / "
        "half-tempo / dropped-inserted estimates, duplicates, empty and 1-2 beat inputs), dyadic or documented-"
        "default thresholds; non-trivial = both sequences long enough for the metric to be computed")
ASSUMPTIONS = ["binary64 performs the code's arithmetic exactly on the lattice; exp/log2 of Lean Float vs NumPy to 1e-9",
               "exact ties of a float-accumulated statistic against a threshold (goto mean/std, information-gain bin "
               "edges) are reported by the model and not compared"]
UNPROVED = [
    "C02.Beat.information_gain_self_statement: information gain(x, x) = 1 for >= 2 strictly increasing beats",
    "C02 p_score_self is stated in terms of the window / train length the code computes (pScoreParts), with the "
    "decidable side condition 0 <= win < N",
    "C02 continuity_self is proved in the form 'whenever continuity(x, x) returns, it returns (1,1,1,1)'; that it "
    "returns (no IndexError inside the metric-level variations) is covered by correspondence only",
    "C04 pscore_correlation_spec: the model computes the windowed sum of the cross-correlation of the two 0/1 impulse "
    "trains directly as a count of index pairs; np.correlate + Python slice = that count is tied by correspondence only",
    "C04 histogram: each wrapped error lands in exactly one bin (sum of counts = number of finite errors) - not proved",
    "C08 shift theorems are stated for the metric bodies after validation (validate rejects times > 30000 s, which is "
    "not shift invariant) and for evaluate's trimming separately (trim_shift)",
    "cemgil / information_gain theorems are about the real-number reading (realOps) of the same definitions the driver "
    "runs at Float; shift invariance of both is proved for every interpretation, Float included",
]

SUITES = dict(SB.SUITES)
CHECKERS = dict(SB.CHECKERS)
ORACLES = dict(SB.ORACLES)
classify = SB.classify
