"""Scratch property module: runs only the fixture-derived suites (stream F), optionally a subset (VERIF_FIXTURE_ONLY=a,b)."""
import os

from suites import fixtures as SF

PID = "T_FIXTURES"
LEAN_MODULES = []
RULE = "stream F: repository fixture files through mir_eval.io, lattice-snapped and perturbed"
ASSUMPTIONS = []
UNPROVED = []
CORRESPONDENCE_IS_PROPERTY = True
_only = [s for s in os.environ.get("VERIF_FIXTURE_ONLY", "").split(",") if s]
SUITES = {k: v for k, v in SF.SUITES.items() if not _only or k in _only}
CHECKERS = {}
ORACLES = {}
