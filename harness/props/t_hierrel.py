"""Scratch property module for the relational slice on hierarchy / chord-level scoring / key (`./check t_hierrel`).

Lean: Props/C02_Hierarchy, C08_Hierarchy, C12_Hierarchy, C01_Chord, C02_Chord, C06_Chord, C08_Chord, C02_Key.
Correspondence: the C12 (chord-level scoring), C17 (hierarchy) and key suites, reduced (`harness/suites/hierrel.py`).
Oracles (the relational properties themselves, on the REAL functions, one JSON input at a time); the real
property modules route them through `props/_relational.EXTRA` (C01, C02, C06, C08) and `props/c17.py`:

  hierarchy:self            C02  tmeasure(h,h), lmeasure(h,h) = (1,1,1) iff some query frame has a reference
                                 triple (decided by brute force from the definition), else (0,0,0)
  hierarchy:relabel         C08  lmeasure unchanged under independent case-consistent injective renamings of the
                                 reference and the estimate; the six T entries of evaluate() unchanged under ANY
                                 relabelling
  chord.weighted_accuracy:range  C01  a finite number in [0,1] for comparisons in {-1} U [0,1], weights >= 0
                                 (known finding wacc_comparable_weight_zero: nan)
  chord.seg:range           C01  directional_hamming_distance / overseg / underseg / seg in [0,1] on valid intervals
  chord.seg:swap            C06  underseg(r,e) = overseg(e,r), seg(r,e) = seg(e,r)
  chord.evaluate:self       C02  every rule 1 (0 if the rule compares no label of the annotation), segmentation 1
  chord.evaluate:shift      C08  a common offset (reference stays >= 0, the estimate may even go negative) changes
                                 nothing
  key:self                  C02  weighted_score(k, k) = 1 for every valid key string (any casing), X included
"""
import math
import warnings
from fractions import Fraction as Fr

import numpy as np

import mir_eval
import mir_eval.hierarchy as H

import suites.hierrel as SH
from props import c17 as P17
from props.c13 import rand_annotation, U

PID = "T_HIERREL"
LEAN_MODULES = ["MirProofs.Props.C02_Hierarchy", "MirProofs.Props.C08_Hierarchy", "MirProofs.Props.C12_Hierarchy",
                "MirProofs.Props.C01_Chord", "MirProofs.Props.C02_Chord", "MirProofs.Props.C06_Chord",
                "MirProofs.Props.C08_Chord", "MirProofs.Props.C02_Key"]
RULE = ("hierarchies as in C17 (1/32 s lattice, 1-4 levels, frame sizes 1/4..1, all windows) plus degenerate ones "
        "(flat, one label, window = frame_size); chord annotations on the 1/32 s lattice with labels from a 40-label "
        "pool incl. N and X; weights with deliberate zeros; all 52 key strings in 4 casings; non-trivial = the call "
        "returns scores")
ASSUMPTIONS = ["theorems are about the Lean model; they transfer to the code where the correspondence suites agree",
               "binary64 on the 1/32 s lattice performs the modelled rational comparisons exactly; final quotients "
               "are compared at 1e-12"]
UNPROVED = [
    "chord C02 (evaluate_self) is stated for contiguous annotations (no gaps); annotations with gaps are covered by "
    "the oracle and by dhd_self (which allows gaps) only",
    "hierarchy C12: the split theorems need 0 <= start of the cut segment (negative times are out of domain; "
    "a ONE-level hierarchy with negative times is not validated by the code and is sliced with Python negative "
    "indices - example in C12_Hierarchy.lean)",
]
SUITES = dict(SH.SUITES)


# ------------------------------------------------------------------------------------------------
# hierarchy

def _has_ref_triple(D, transitive, w):
    """some query frame q has result frames i, j in its window with D[q][i] related to D[q][j]"""
    n = len(D)
    for q in range(n):
        W = [i for i in range(n) if i != q and (w is None or (q - w <= i < q + w))]
        vals = sorted({D[q][i] for i in W})
        if transitive:
            if len(vals) >= 2:
                return True
        elif any(v + 1 in vals for v in vals):
            return True
    return False


def _triple(got):
    return tuple(float(x) for x in got)


def check_hier_self(inp):
    hier = [[(Fr(a), Fr(b)) for a, b in lv] for lv in inp["hier"]]
    fs = Fr(inp["frame_size"])
    window = None if inp["window"] is None else Fr(inp["window"])
    arrs = P17.arrs(inp["hier"])
    with warnings.catch_warnings():
        warnings.simplefilter("ignore")
        try:
            got_t = _triple(H.tmeasure(arrs, arrs, transitive=inp["transitive"], window=inp["window"],
                                       frame_size=inp["frame_size"], beta=inp["beta"]))
            got_l = _triple(H.lmeasure(arrs, [list(x) for x in inp["labels"]], arrs, [list(x) for x in inp["labels"]],
                                       frame_size=inp["frame_size"], beta=inp["beta"]))
        except Exception as e:  # noqa: BLE001
            return "a valid hierarchy scored against itself raised %s(%s)" % (type(e).__name__, e)
    w = None if window is None else math.floor(window / fs)
    nd_t = _has_ref_triple(P17.depth_matrix(hier, fs), inp["transitive"], w)
    nd_l = _has_ref_triple(P17.depth_matrix(hier, fs, inp["labels"]), True, None)
    for name, got, nd in (("tmeasure", got_t, nd_t), ("lmeasure", got_l, nd_l)):
        want = (1.0, 1.0, 1.0) if nd else (0.0, 0.0, 0.0)
        if any(abs(g - x) > 1e-12 for g, x in zip(got, want)):
            return "%s(h, h) = %r, expected %r (%s query frame has a reference triple)" % (
                name, got, want, "some" if nd else "no")
    return None


def gen_hier_self(rng, tier, shard, nshards, boost):
    n = (60 if tier == "quick" else 600) * boost
    for k in range(n):
        fs, window, tr, beta = P17.gen_params(rng)
        span = P17.gen_span(rng)
        r = rng.random()
        if r < 0.15:
            hier = [P17._to_intervals(span, []) for _ in range(rng.randint(1, 3))]       # flat: degenerate
        elif r < 0.3:
            hier = P17.gen_hier(rng, span, fs, nlevels=rng.randint(1, 2))
        else:
            hier = P17.gen_hier(rng, span, fs)
        labels = P17.gen_labels(rng, hier, rng.choice([None, 1, 2, 3]))
        if rng.random() < 0.15:
            window = fs                                                                    # one-frame windows
        yield {"hier": [[[float(a), float(b)] for a, b in lv] for lv in hier], "labels": labels,
               "transitive": bool(tr), "window": P17.fl(window), "frame_size": float(fs), "beta": float(beta)}


def _case_consistent_renaming(rng, names, tag):
    """sigma with (sigma a).lower() == (sigma b).lower()  <=>  a.lower() == b.lower()"""
    classes = sorted({x.lower() for x in names})
    base = ["%s%d_%d" % (tag, rng.randint(0, 99), i) for i in range(len(classes))]
    rng.shuffle(base)
    m = dict(zip(classes, base))

    def recase(s):
        return "".join(c.upper() if rng.random() < 0.3 else c for c in s)
    return {x: recase(m[x.lower()]) for x in names}


def _call_l(ref, rl, est, el, fs, beta):
    with warnings.catch_warnings():
        warnings.simplefilter("ignore")
        try:
            return ("ok", _triple(H.lmeasure(P17.arrs(ref), [list(x) for x in rl], P17.arrs(est),
                                             [list(x) for x in el], frame_size=fs, beta=beta)))
        except Exception as e:  # noqa: BLE001
            return ("raise", type(e).__name__)


def _call_eval_T(ref, rl, est, el, fs):
    with warnings.catch_warnings():
        warnings.simplefilter("ignore")
        try:
            sc = H.evaluate(P17.arrs(ref), [list(x) for x in rl], P17.arrs(est), [list(x) for x in el],
                            frame_size=fs)
            return ("ok", tuple(float(v) for k, v in sc.items() if k.startswith("T-")))
        except Exception as e:  # noqa: BLE001
            return ("raise", type(e).__name__)


def check_hier_relabel(inp):
    ref, est, fs, beta = inp["ref"], inp["est"], inp["frame_size"], inp["beta"]
    rl, el = inp["ref_labels"], inp["est_labels"]
    rl2 = [[inp["map_ref"][x] for x in lv] for lv in rl]
    el2 = [[inp["map_est"][x] for x in lv] for lv in el]
    a, b = _call_l(ref, rl, est, el, fs, beta), _call_l(ref, rl2, est, el2, fs, beta)
    if a != b:
        return "lmeasure = %r, after renaming the labels (ref %r, est %r) %r" % (a, inp["map_ref"], inp["map_est"], b)
    # the T entries of evaluate() do not read the labels at all: replace them by arbitrary ones
    rl3 = [[inp["scramble"][(i + j) % len(inp["scramble"])] for j, _ in enumerate(lv)] for i, lv in enumerate(rl)]
    el3 = [[inp["scramble"][(2 * i + j) % len(inp["scramble"])] for j, _ in enumerate(lv)] for i, lv in enumerate(el)]
    c, d = _call_eval_T(ref, rl, est, el, fs), _call_eval_T(ref, rl3, est, el3, fs)
    if c[0] == "ok" and d[0] == "ok" and c != d:
        return "the T entries of hierarchy.evaluate are %r, with other labels %r" % (c, d)
    return None


def gen_hier_relabel(rng, tier, shard, nshards, boost):
    n = (40 if tier == "quick" else 400) * boost
    for _ in range(n):
        fs, window, tr, beta = P17.gen_params(rng)
        span, ref, est = P17._pair(rng, fs)
        small = rng.choice([None, 2, 3, 5])
        rl, el = P17.gen_labels(rng, ref, small), P17.gen_labels(rng, est, small)
        yield {"ref": [[[float(a), float(b)] for a, b in lv] for lv in ref], "ref_labels": rl,
               "est": [[[float(a), float(b)] for a, b in lv] for lv in est], "est_labels": el,
               "frame_size": float(fs), "beta": float(beta),
               "map_ref": _case_consistent_renaming(rng, sorted({x for lv in rl for x in lv}), "r"),
               "map_est": _case_consistent_renaming(rng, sorted({x for lv in el for x in lv}), "e"),
               "scramble": [rng.choice(["p", "q", "P", "zz"]) for _ in range(rng.randint(1, 5))]}


# ------------------------------------------------------------------------------------------------
# chord-level scoring

def check_wacc_range(inp):
    cs, ws = np.array(inp["cs"], dtype=float), np.array(inp["ws"], dtype=float)
    with warnings.catch_warnings():
        warnings.simplefilter("ignore")
        try:
            sc = float(mir_eval.chord.weighted_accuracy(cs, ws))
        except Exception as e:  # noqa: BLE001
            return "weighted_accuracy raised %s(%s) on well-formed arguments" % (type(e).__name__, e)
    if not (sc == sc and 0.0 <= sc <= 1.0 + 1e-12):
        return "weighted_accuracy(%r, %r) = %r is not a number in [0, 1]" % (inp["cs"], inp["ws"], sc)
    return None


def gen_wacc_range(rng, tier, shard, nshards, boost):
    n = (150 if tier == "quick" else 3000) * boost
    for _ in range(n):
        k = rng.randint(1, 8)
        cs = [rng.choice([-1.0, -1.0, 0.0, 1.0, 1.0, 0.5, 0.25]) for _ in range(k)]
        ws = [rng.choice([0, 0, 1, 2, 5, 32, 100]) / 32 for _ in range(k)]
        if rng.random() < 0.1:
            ws = [0.0 if c >= 0 else w for c, w in zip(cs, ws)]          # comparable entries weightless
        yield {"cs": cs, "ws": ws}


def _valid_ivals(rng):
    ivs, _ = rand_annotation(rng, nmax=6, top=rng.choice([16, 64]))
    return [[float(s), float(e)] for s, e in ivs]


def _same_span_ivals(rng, ref):
    lo, hi = Fr(ref[0][0]), Fr(ref[-1][1])
    m = int((hi - lo) / U)
    cuts = sorted(rng.sample(range(1, m), min(rng.randint(0, 5), m - 1))) if m > 1 else []
    pts = [lo] + [lo + c * U for c in cuts] + [hi]
    return [[float(a), float(b)] for a, b in zip(pts[:-1], pts[1:])]


def gen_seg(rng, tier, shard, nshards, boost):
    n = (150 if tier == "quick" else 3000) * boost
    for _ in range(n):
        ref = _valid_ivals(rng)
        est = _same_span_ivals(rng, ref) if rng.random() < 0.6 else _valid_ivals(rng)
        yield {"ref": ref, "est": est}


def _arr(ivs):
    return np.array(ivs, dtype=float).reshape(-1, 2)


_SEG = {"directional_hamming_distance": mir_eval.chord.directional_hamming_distance,
        "overseg": mir_eval.chord.overseg, "underseg": mir_eval.chord.underseg, "seg": mir_eval.chord.seg}


def check_seg_range(inp):
    r, e = _arr(inp["ref"]), _arr(inp["est"])
    for name, fn in _SEG.items():
        for a, b, tag in ((r, e, "(ref, est)"), (e, r, "(est, ref)")):
            try:
                v = float(fn(a, b))
            except Exception as ex:  # noqa: BLE001
                return "%s%s raised %s(%s) on valid intervals" % (name, tag, type(ex).__name__, ex)
            if not (v == v and -1e-12 <= v <= 1.0 + 1e-12):
                return "%s%s = %r is not a number in [0, 1]" % (name, tag, v)
    return None


def check_seg_swap(inp):
    r, e = _arr(inp["ref"]), _arr(inp["est"])
    try:
        u, o = float(mir_eval.chord.underseg(r, e)), float(mir_eval.chord.overseg(e, r))
        o2, u2 = float(mir_eval.chord.overseg(r, e)), float(mir_eval.chord.underseg(e, r))
        s1, s2 = float(mir_eval.chord.seg(r, e)), float(mir_eval.chord.seg(e, r))
    except Exception as ex:  # noqa: BLE001
        return "a segmentation score raised %s(%s) on valid intervals" % (type(ex).__name__, ex)
    if u != o or o2 != u2:
        return "underseg(ref, est) = %r but overseg(est, ref) = %r; overseg(ref, est) = %r but underseg(est, ref) = %r" \
            % (u, o, o2, u2)
    if s1 != s2:
        return "seg(ref, est) = %r but seg(est, ref) = %r" % (s1, s2)
    return None


CHORD_POOL = ["N", "X", "C", "C:maj", "C:min", "D:min7", "G:7", "A:min", "F:maj7", "E:dim", "Bb:maj", "F#:min",
              "C:maj/3", "G:7/b7", "A:min/5", "D:sus4", "E:aug", "C:maj6", "Db:maj", "B:hdim7", "C:9", "G:maj(9)",
              "A:min(*5)", "C#:maj", "D:(1,5)", "F:min/b3", "Ab:maj7/7", "E:min9", "C:maj/5", "D:7/3", "B:min/b3",
              "G:sus2", "A:dim7", "F:minmaj7", "Eb:maj", "C:(1)", "G:maj/2", "A:7(b9)", "D:min11", "E:maj13"]
RULES = ["thirds", "thirds_inv", "triads", "triads_inv", "tetrads", "tetrads_inv", "root", "mirex", "majmin",
         "majmin_inv", "sevenths", "sevenths_inv"]


def _contig(rng, start=None, nmax=7):
    ivs, _ = rand_annotation(rng, nmax=nmax, top=rng.choice([16, 64]), contiguous=True)
    return [[float(s), float(e)] for s, e in ivs]


def gen_chord_self(rng, tier, shard, nshards, boost):
    n = (40 if tier == "quick" else 800) * boost
    for _ in range(n):
        ivs = _contig(rng)
        r = rng.random()
        pool = ["X"] if r < 0.06 else (["X", "N"] if r < 0.12 else (CHORD_POOL[:rng.randint(2, 12)] if r < 0.4
                                                                     else CHORD_POOL))
        labs = []
        for _k in ivs:
            labs.append(labs[-1] if labs and rng.random() < 0.3 else rng.choice(pool))
        yield {"intervals": ivs, "labels": labs}


def check_chord_self(inp):
    ivs, labs = _arr(inp["intervals"]), list(inp["labels"])
    with warnings.catch_warnings():
        warnings.simplefilter("ignore")
        try:
            sc = mir_eval.chord.evaluate(ivs, labs, ivs.copy(), list(labs))
        except Exception as e:  # noqa: BLE001
            return "chord.evaluate(x, x) raised %s(%s) on a valid annotation" % (type(e).__name__, e)
        for k in ("underseg", "overseg", "seg"):
            if abs(float(sc[k]) - 1.0) > 1e-12:
                return "%s of an annotation against itself is %r" % (k, sc[k])
        for rule in RULES:
            comp = getattr(mir_eval.chord, rule)(labs, labs)
            if any(c not in (1.0, -1.0) for c in comp):
                return "%s(label, label) = %r for %r: not 1 (or -1 = not comparable)" % (rule, list(comp), labs)
            want = 1.0 if any(c == 1.0 for c in comp) else 0.0
            if abs(float(sc[rule]) - want) > 1e-12:
                return "%s of an annotation against itself is %r, expected %r" % (rule, sc[rule], want)
    return None


def gen_chord_shift(rng, tier, shard, nshards, boost):
    n = (40 if tier == "quick" else 800) * boost
    for _ in range(n):
        ref = _contig(rng)
        est = _contig(rng) if rng.random() < 0.5 else _same_span_ivals(rng, ref)
        lo = Fr(ref[0][0])
        # any offset that keeps the reference non-negative: the estimate may end up below 0
        d = rng.choice([Fr(rng.randint(1, 640), 32), -lo, -lo * Fr(rng.randint(0, 4), 4),
                        Fr(rng.randint(-int(lo * 32), 64), 32)])
        yield {"ref": ref, "ref_labels": [rng.choice(CHORD_POOL) for _ in ref],
               "est": est, "est_labels": [rng.choice(CHORD_POOL) for _ in est], "shift": float(d)}


def _call_chord(ri, rl, ei, el):
    with warnings.catch_warnings():
        warnings.simplefilter("ignore")
        try:
            sc = mir_eval.chord.evaluate(_arr(ri), list(rl), _arr(ei), list(el))
            return ("ok", {k: float(v) for k, v in sc.items()})
        except Exception as e:  # noqa: BLE001
            return ("raise", type(e).__name__)


def check_chord_shift(inp):
    d = inp["shift"]
    if any(a + d < 0 or a < 0 for a, _ in inp["ref"]):
        return None
    a = _call_chord(inp["ref"], inp["ref_labels"], inp["est"], inp["est_labels"])
    b = _call_chord([[s + d, e + d] for s, e in inp["ref"]], inp["ref_labels"],
                    [[s + d, e + d] for s, e in inp["est"]], inp["est_labels"])
    if a[0] != b[0]:
        return "chord.evaluate: %r, after adding %r to every time: %r" % (a, d, b)
    if a[0] == "raise":
        return None if a[1] == b[1] else "chord.evaluate raises %s, after the shift %s" % (a[1], b[1])
    for k in a[1]:
        x, y = a[1][k], b[1][k]
        if not (abs(x - y) <= 1e-9 or (x != x and y != y)):
            return "chord.evaluate[%r] = %r, after adding %r to every time: %r" % (k, x, d, y)
    return None


# ------------------------------------------------------------------------------------------------
# key

KEY_NAMES = ["C", "C#", "Db", "D", "D#", "Eb", "E", "F", "F#", "Gb", "G", "G#", "Ab", "A", "A#", "Bb", "B"]


def _casing(s, v):
    head = s[0].lower() if v % 2 else s[0]
    tail = s[1:].upper() if (v // 2) % 2 else s[1:]
    return head + tail


def gen_key_self(rng, tier, shard, nshards, boost):
    if shard != 0:
        return
    for v in range(4):
        for w in range(4):
            yield {"ref": _casing("X", v), "est": _casing("X", w)}
            for name in KEY_NAMES:
                for mode in ("major", "minor", "other"):
                    yield {"ref": "%s %s" % (_casing(name, v), mode), "est": "%s  %s" % (_casing(name, w), mode)}


def check_key_self(inp):
    try:
        sc = float(mir_eval.key.weighted_score(inp["ref"], inp["est"]))
    except Exception as e:  # noqa: BLE001
        return "weighted_score(%r, %r) raised %s(%s)" % (inp["ref"], inp["est"], type(e).__name__, e)
    if sc != 1.0:
        return "weighted_score(%r, %r) = %r for the same key" % (inp["ref"], inp["est"], sc)
    return None


CHECKERS = {
    "hierarchy:self": check_hier_self, "hierarchy:relabel": check_hier_relabel,
    "chord.weighted_accuracy:range": check_wacc_range, "chord.seg:range": check_seg_range,
    "chord.seg:swap": check_seg_swap, "chord.evaluate:self": check_chord_self,
    "chord.evaluate:shift": check_chord_shift, "key:self": check_key_self,
}
ORACLES = {
    "hierarchy:self": gen_hier_self, "hierarchy:relabel": gen_hier_relabel,
    "chord.weighted_accuracy:range": gen_wacc_range, "chord.seg:range": gen_seg,
    "chord.seg:swap": gen_seg, "chord.evaluate:self": gen_chord_self,
    "chord.evaluate:shift": gen_chord_shift, "key:self": gen_key_self,
}


def classify(suite, d):
    return SH.classify(suite, d)
