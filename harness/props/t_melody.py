"""Scratch property module for the melody task slice: exercises lean/MirModel/Melody.lean, the
MirProofs/Props/C0x_Melody.lean theorems and harness/suites/melody.py, plus the melody parts of the C01, C02,
C07 and C09 oracles on the real code."""
import math
from fractions import Fraction as Fr

import numpy as np
from mir_eval import melody as M

from suites import melody as S
import regions  # noqa: F401  (region predicates are looked up by name)

PID = "T_MELODY"
LEAN_MODULES = ["MirProofs.Props.C01_Melody", "MirProofs.Props.C02_Melody", "MirProofs.Props.C04_Melody",
                "MirProofs.Props.C07_Melody", "MirProofs.Props.C09_Melody"]
RULE = ("frame measures on exact cent/voicing lattices (differences on, 1 cent below/above the tolerance, octave "
        "multiples, chroma half-way points; binary and dyadic voicings; empty, unequal-length and out-of-range "
        "inputs); resampling on 1/32 s time bases (uniform, non-uniform, duplicate, unsorted, extending, below range) "
        "for kind in linear/zero/nearest; Hz-level functions through the log-domain conversion with >= 1 cent margin; "
        "non-trivial = at least one pitched reference frame")
ASSUMPTIONS = [
    "log2 (hz2cents) is outside the model: frequencies are (sign, cent) pairs, the harness converts to Hz",
    "binary64 evaluates the frame measures exactly on the lattice and to 1e-9 elsewhere",
    "scipy.interpolate.interp1d is modelled for kind in {linear, zero, nearest} on series of equal length; "
    "other kinds and mismatched series are outside the model domain",
]
UNPROVED = [
    "resampleFreq as a whole (linear interpolant of the zero-held series gated by the zero-order mask) = 'piecewise "
    "linear on pitched segments, 0 elsewhere': only the component interpolants are specified (interp_linear_spec, "
    "interp_zero_spec, interp_last_spec); kind='nearest' and the stable sort of unsorted time stamps are tied by "
    "correspondence only",
    "binary voicing is preserved by resampling (the C02 theorem takes non-degeneracy of the resampled reference as a "
    "decidable hypothesis instead)",
    "hz2cents = 1200*log2(f/base): log2 is outside the model (log-domain inputs), exercised by the harness conversion",
]
SUITES = S.SUITES

TOL = 1e-9


# ------------------------------------------------------------------------------------------------
# oracle inputs are plain json: times and Hz as floats

def _arrs(inp):
    return (np.array(inp["rt"], float), np.array(inp["rf"], float), np.array(inp["et"], float),
            np.array(inp["ef"], float))


def _kw(inp):
    kw = {}
    for k in ("hop", "kind", "cent_tolerance", "base_frequency"):
        if inp.get(k) is not None:
            kw[k] = inp[k]
    return kw


def _evaluate(inp, rf=None, ef=None, **over):
    rt, rf0, et, ef0 = _arrs(inp)
    kw = _kw(inp)
    kw.update(over)
    ev = None if inp.get("ev") is None else np.array(inp["ev"], float)
    rr = None if inp.get("rr") is None else np.array(inp["rr"], float)
    return M.evaluate(rt, rf0 if rf is None else rf, et, ef0 if ef is None else ef, ev, rr, **kw)


def _pitch_margin(inp, rf=None, ef=None):
    """distance (cents) of every pitch decision of this input from the tolerance, on the real code's arrays"""
    rt, rf0, et, ef0 = _arrs(inp)
    kw = {k: v for k, v in _kw(inp).items() if k != "cent_tolerance"}
    rv, rc, ev, ec = M.to_cent_voicing(rt, rf0 if rf is None else rf, et, ef0 if ef is None else ef, **kw)
    tol = inp.get("cent_tolerance", 50.0) or 50.0
    nz = np.logical_and(rc != 0, ec != 0)
    if not nz.any():
        return float("inf")
    d = np.abs(rc - ec)[nz]
    ch = np.abs(d - 1200.0 * np.floor(d / 1200.0 + 0.5))
    return float(min(np.min(np.abs(d - tol)), np.min(np.abs(ch - tol))))


SCORES = ["Voicing Recall", "Voicing False Alarm", "Raw Pitch Accuracy", "Raw Chroma Accuracy", "Overall Accuracy"]


def check_range(inp):
    """C01: every melody score is a finite number in [0, 1]"""
    try:
        sc = _evaluate(inp)
    except Exception as e:  # noqa: BLE001
        return "evaluate raised %r on a valid input" % (e,)
    for k in SCORES:
        v = float(sc[k])
        if not (math.isfinite(v) and -TOL <= v <= 1 + TOL):
            return "%s = %r outside [0,1]" % (k, v)
    return None


def check_self(inp):
    """C02: a melody with >= 1 voiced frame scored against itself is perfect"""
    rt, rf, _, _ = _arrs(inp)
    kw = _kw(inp)
    # non-degenerate = the (resampled) reference has at least one voiced frame
    rv = M.to_cent_voicing(rt, rf, rt.copy(), rf.copy(), **{k: v for k, v in kw.items() if k != "cent_tolerance"})[0]
    if not (rv > 0).any():
        return None
    sc = M.evaluate(rt, rf, rt.copy(), rf.copy(), **kw)
    want = {"Voicing Recall": 1.0, "Voicing False Alarm": 0.0, "Raw Pitch Accuracy": 1.0,
            "Raw Chroma Accuracy": 1.0, "Overall Accuracy": 1.0}
    for k, w in want.items():
        if abs(float(sc[k]) - w) > TOL:
            return "self-evaluation: %s = %r, expected %r" % (k, float(sc[k]), w)
    return None


def check_tolerance(inp):
    """C07: widening cent_tolerance never lowers RPA / RCA / OA; RPA <= RCA at every tolerance"""
    t1, t2 = inp["tol1"], inp["tol2"]
    a = _evaluate(inp, cent_tolerance=t1)
    b = _evaluate(inp, cent_tolerance=t2)
    for k in ("Raw Pitch Accuracy", "Raw Chroma Accuracy", "Overall Accuracy"):
        if float(a[k]) > float(b[k]) + TOL:
            return "%s drops from %r to %r when the tolerance grows from %r to %r" % (k, float(a[k]), float(b[k]), t1, t2)
    for sc, t in ((a, t1), (b, t2)):
        if float(sc["Raw Pitch Accuracy"]) > float(sc["Raw Chroma Accuracy"]) + TOL:
            return "RPA %r > RCA %r at tolerance %r" % (float(sc["Raw Pitch Accuracy"]), float(sc["Raw Chroma Accuracy"]), t)
    return None


def check_frames_tolerance(inp):
    """C07 on the frame measures directly (exact cents, threshold-straddling tolerances)"""
    a = [np.array(inp[k], float) for k in ("rv", "rc", "ev", "ec")]
    t1, t2 = inp["tol1"], inp["tol2"]
    for fn in (M.raw_pitch_accuracy, M.raw_chroma_accuracy, M.overall_accuracy):
        x, y = float(fn(*a, cent_tolerance=t1)), float(fn(*a, cent_tolerance=t2))
        if x > y + TOL:
            return "%s drops from %r to %r when the tolerance grows from %r to %r" % (fn.__name__, x, y, t1, t2)
    for t in (t1, t2):
        p, c = float(M.raw_pitch_accuracy(*a, cent_tolerance=t)), float(M.raw_chroma_accuracy(*a, cent_tolerance=t))
        if p > c + TOL:
            return "raw_pitch_accuracy %r > raw_chroma_accuracy %r at tolerance %r" % (p, c, t)
    for fn in (M.raw_pitch_accuracy, M.raw_chroma_accuracy, M.overall_accuracy):
        v = float(fn(*a, cent_tolerance=t1))
        if not (math.isfinite(v) and -TOL <= v <= 1 + TOL):
            return "%s = %r outside [0,1]" % (fn.__name__, v)
    for fn in (M.voicing_recall, M.voicing_false_alarm):
        v = float(fn(a[0], a[2]))
        if not (math.isfinite(v) and -TOL <= v <= 1 + TOL):
            return "%s = %r outside [0,1]" % (fn.__name__, v)
    return None


def check_octave(inp):
    """C09: whole-octave shifts of the estimate leave raw chroma accuracy unchanged; negating estimated
    frequencies leaves RPA and RCA unchanged; scaling both by a common factor leaves every score unchanged"""
    rt, rf, et, ef = _arrs(inp)
    base = _evaluate(inp)
    neg = _evaluate(inp, ef=-np.abs(ef))
    for key in ("Raw Pitch Accuracy", "Raw Chroma Accuracy"):
        if abs(float(neg[key]) - float(base[key])) > TOL:
            return "%s changes from %r to %r when estimated frequencies are negated" % (key, float(base[key]), float(neg[key]))
    # the statement excludes pitch differences within rounding error of the tolerance (log2 of a doubled
    # frequency is not bit-for-bit log2 + 1)
    m0 = _pitch_margin(inp)
    k = inp["octaves"]
    if min(m0, _pitch_margin(inp, ef=ef * (2.0 ** k))) > 1e-6:
        shifted = _evaluate(inp, ef=ef * (2.0 ** k))
        if abs(float(shifted["Raw Chroma Accuracy"]) - float(base["Raw Chroma Accuracy"])) > TOL:
            return "RCA changes from %r to %r when the estimate moves by %d octaves" % (
                float(base["Raw Chroma Accuracy"]), float(shifted["Raw Chroma Accuracy"]), k)
    c = inp["factor"]
    if min(m0, _pitch_margin(inp, rf=rf * c, ef=ef * c)) > 1e-6:
        sc = _evaluate(inp, rf=rf * c, ef=ef * c)
        for key in SCORES:
            if abs(float(sc[key]) - float(base[key])) > TOL:
                return "%s changes from %r to %r when all frequencies are multiplied by %r" % (
                    key, float(base[key]), float(sc[key]), c)
    return None


def _chroma(d):
    """distance from d to the nearest multiple of 1200 (the definition, not the code's folding expression)"""
    k = d // 1200
    return min(abs(d - 1200 * k), abs(d - 1200 * (k + 1)))


def check_definition(inp):
    """C04: for binary voicings the five frame measures are the published ratios of frame counts
    (exact rational arithmetic on the lattice inputs, strict `<` on the tolerance)"""
    rv, rc, ev, ec = ([Fr(x) for x in inp[k]] for k in ("rv", "rc", "ev", "ec"))
    tol = Fr(inp["tol1"])
    n = len(rv)
    if n == 0 or any(x not in (0, 1) for x in rv + ev):
        return None
    a = [np.array(inp[k], float) for k in ("rv", "rc", "ev", "ec")]
    nv = sum(1 for v in rv if v == 1)
    nu = n - nv
    pitched = [r != 0 and e != 0 for r, e in zip(rc, ec)]
    d = [abs(r - e) for r, e in zip(rc, ec)]
    want = {
        "voicing_recall": Fr(sum(1 for v, w in zip(rv, ev) if v == 1 and w == 1), nv) if nv else Fr(1),
        "voicing_false_alarm": Fr(sum(1 for v, w in zip(rv, ev) if v == 0 and w == 1), nu) if nu else Fr(0),
        "raw_pitch_accuracy": Fr(sum(1 for i in range(n) if rv[i] == 1 and pitched[i] and d[i] < tol), nv) if nv else Fr(0),
        "raw_chroma_accuracy": Fr(sum(1 for i in range(n) if rv[i] == 1 and pitched[i] and _chroma(d[i]) < tol), nv) if nv else Fr(0),
        "overall_accuracy": Fr(sum(1 for i in range(n) if (rv[i] == 1 and ev[i] == 1 and pitched[i] and d[i] < tol)
                                   or (rv[i] == 0 and ev[i] == 0)), n),
    }
    got = {
        "voicing_recall": M.voicing_recall(a[0], a[2]), "voicing_false_alarm": M.voicing_false_alarm(a[0], a[2]),
        "raw_pitch_accuracy": M.raw_pitch_accuracy(*a, cent_tolerance=float(tol)),
        "raw_chroma_accuracy": M.raw_chroma_accuracy(*a, cent_tolerance=float(tol)),
        "overall_accuracy": M.overall_accuracy(*a, cent_tolerance=float(tol)),
    }
    for k, w in want.items():
        if abs(float(got[k]) - float(w)) > TOL:
            return "%s = %r, the frame-count definition gives %s" % (k, float(got[k]), w)
    return None


# ------------------------------------------------------------------------------------------------
# oracle generators

def _hz_instance(rng, decimal=False, base_hit=0.0):
    if decimal:
        rt, rf, et, ef, ev, rr, hop, kind = S.decimal_instance(rng)
        if hop is not None and not (S.off_grid(max(rt), hop) and S.off_grid(max(et), hop)):
            hop = None
    else:
        rt, rf, et, ef, ev, rr, hop, kind = S.tcv_instance(rng)
        while (min(rt) < 0 or (hop is not None and hop <= 0) or (ev is not None and len(ev) != len(et))
               or any(b <= a for a, b in zip(rt, rt[1:])) or any(b <= a for a, b in zip(et, et[1:]))):
            rt, rf, et, ef, ev, rr, hop, kind = S.tcv_instance(rng)
    if base_hit == 0.0:
        rf = [[s, c if c != 0 else Fr(3650)] for s, c in rf]
        ef = [[s, c if c != 0 else Fr(3650)] for s, c in ef]
    inp = {"rt": [float(t) for t in rt], "rf": [S.hz(p) for p in rf], "et": [float(t) for t in et],
           "ef": [S.hz(p) for p in ef], "kind": kind, "hop": None if hop is None else float(hop),
           "ev": None if ev is None else [float(x) for x in ev], "rr": None if rr is None else [float(x) for x in rr]}
    return inp


def gen_range(rng, tier, shard, nshards, boost):
    n = (150 if tier == "quick" else 1500) * boost
    for i in range(n):
        inp = _hz_instance(rng, decimal=(i % 3 == 2))
        inp["cent_tolerance"] = rng.choice([50.0, 50.0, 25.0, 100.0, 0.5])
        yield inp


def gen_self(rng, tier, shard, nshards, boost):
    n = (150 if tier == "quick" else 1500) * boost
    for i in range(n):
        inp = _hz_instance(rng, decimal=(i % 3 == 2))
        inp["ev"] = inp["rr"] = None
        if rng.random() < 0.05 and inp["rf"]:
            inp["rf"][rng.randrange(len(inp["rf"]))] = 10.0     # exactly the base frequency (known finding)
        yield {k: inp[k] for k in ("rt", "rf", "et", "ef", "hop", "kind")}


def gen_tolerance(rng, tier, shard, nshards, boost):
    n = (120 if tier == "quick" else 1200) * boost
    for i in range(n):
        inp = _hz_instance(rng, decimal=(i % 3 == 2))
        t1 = rng.choice([0.0, 1.0, 12.5, 25.0, 37.5, 49.0, 50.0, 51.0, 100.0])
        inp["tol1"], inp["tol2"] = t1, t1 + rng.choice([0.0, 0.5, 1.0, 12.5, 50.0, 1200.0])
        yield inp


def gen_frames_tolerance(rng, tier, shard, nshards, boost):
    n = (200 if tier == "quick" else 2000) * boost
    for _ in range(n):
        rv, rc, ev, ec, tol, fault = S.frame_instance(rng)
        while fault != "valid":
            rv, rc, ev, ec, tol, fault = S.frame_instance(rng)
        t1 = float(tol)
        t2 = t1 + rng.choice([0.0, 0.125, 1.0, 25.0, 600.0])
        yield {"rv": [float(x) for x in rv], "rc": [float(x) for x in rc], "ev": [float(x) for x in ev],
               "ec": [float(x) for x in ec], "tol1": t1, "tol2": t2}


def gen_definition(rng, tier, shard, nshards, boost):
    n = (200 if tier == "quick" else 2000) * boost
    for _ in range(n):
        rv, rc, ev, ec, tol, fault = S.frame_instance(rng)
        while fault != "valid" or not rv:
            rv, rc, ev, ec, tol, fault = S.frame_instance(rng)
        rv = [Fr(1) if x > 0 else Fr(0) for x in rv]
        ev = [Fr(1) if x * 2 >= 1 else Fr(0) for x in ev]
        yield {"rv": [float(x) for x in rv], "rc": [float(x) for x in rc], "ev": [float(x) for x in ev],
               "ec": [float(x) for x in ec], "tol1": float(tol), "tol2": float(tol)}


def gen_octave(rng, tier, shard, nshards, boost):
    n = (120 if tier == "quick" else 1200) * boost
    for i in range(n):
        inp = _hz_instance(rng, decimal=(i % 3 == 2))
        inp["ev"] = None
        inp["octaves"] = rng.choice([-2, -1, 1, 2, 3])
        inp["factor"] = rng.choice([2.0, 0.5, 4.0, 2.0 ** (1.0 / 12.0), 1.5, 0.9])
        if rng.random() < 0.03 and inp["ef"]:
            # an estimate that the octave shift moves exactly onto the base frequency (known finding)
            inp["ef"][rng.randrange(len(inp["ef"]))] = 10.0 * 2.0 ** (-inp["octaves"])
        yield inp


def _total(chk):
    """the real code raising on a valid input is a failure of the property under test, not a tool error"""
    def wrapped(inp):
        try:
            return chk(inp)
        except Exception as e:  # noqa: BLE001
            return "mir_eval raised %s: %s on a valid input" % (type(e).__name__, str(e)[:120])
    wrapped.__name__ = chk.__name__
    wrapped.__doc__ = chk.__doc__
    return wrapped


check_range, check_self, check_tolerance, check_frames_tolerance, check_octave, check_definition = (
    _total(c) for c in (check_range, check_self, check_tolerance, check_frames_tolerance, check_octave,
                        check_definition))

CHECKERS = {"melody.evaluate:range": check_range, "melody.evaluate:self": check_self,
            "melody.evaluate:tolerance": check_tolerance, "melody.frames:tolerance": check_frames_tolerance,
            "melody.evaluate:octave": check_octave, "melody.frames:definition": check_definition}
ORACLES = {"melody.evaluate:range": gen_range, "melody.evaluate:self": gen_self,
           "melody.evaluate:tolerance": gen_tolerance, "melody.frames:tolerance": gen_frames_tolerance,
           "melody.evaluate:octave": gen_octave, "melody.frames:definition": gen_definition}


def classify(suite, d):
    """a disagreeing frame-measure case is tried against the range / tolerance oracle"""
    i = d.get("info") or {}
    if "rv" in i and "rc" in i and "tol" in i:
        f = lambda xs: [float(Fr(x)) for x in xs]  # noqa: E731
        try:
            inp = {"rv": f(i["rv"]), "rc": f(i["rc"]), "ev": f(i["ev"]), "ec": f(i["ec"]),
                   "tol1": float(Fr(i["tol"])), "tol2": float(Fr(i["tol"])) + 1.0}
        except Exception:  # noqa: BLE001
            return None
        if len({len(inp[k]) for k in ("rv", "rc", "ev", "ec")}) != 1:
            return None
        if any(not (0 <= x <= 1) for x in inp["rv"] + inp["ev"]):
            return None
        import warnings
        with warnings.catch_warnings():
            warnings.simplefilter("ignore")
            if all(x in (0.0, 1.0) for x in inp["rv"] + inp["ev"]) and check_definition(inp) is not None:
                return "melody.frames:definition", inp
        return "melody.frames:tolerance", inp
    return None
