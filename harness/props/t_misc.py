"""Scratch property module for the onset / boundary / tempo / alignment slice: runs every Props file, every
correspondence suite and every property oracle of the slice (`./check t_misc`).

The real property modules (C01, C02, C04, C06, C07, C08) import the same suites / oracles from
`harness/suites/{onset,boundary,tempo,alignment}.py` and the Props files listed in LEAN_MODULES.
"""
from suites import onset, boundary, tempo, alignment
from suites import misc_util as mu

PID = "T_MISC"

_TASKS = {"Onset": ["C01", "C02", "C04", "C06", "C07", "C08"],
          "Boundary": ["C01", "C02", "C04", "C06", "C07"],
          "Tempo": ["C01", "C02", "C04", "C07", "C08"],
          "Alignment": ["C01", "C02", "C04", "C07", "C08"]}
LEAN_MODULES = ["MirProofs.Props.%s_%s" % (c, t) for t, cs in _TASKS.items() for c in cs]

RULE = ("onset/boundary/alignment inputs on the 1/32 s lattice with dyadic windows (pairs exactly on and just "
        "outside every threshold, duplicates, empty/singleton sides), boundary rounding sub-streams on 1/64 and "
        "1/128 s and 7-decimal values, millisecond decimals with 0.5 ms margins, tempo quadruples on a 12-point "
        "lattice enumerated exhaustively; one fault per validation rule; non-trivial = both sides non-empty "
        "(tempo: some positive reference tempo); distinct = distinct protocol lines")
ASSUMPTIONS = [
    "binary64 performs the lattice arithmetic exactly (stream E) or within 1e-9 (stream D, margins >= 1e-4)",
    "util.match_events returns a maximum matching of the window graph (certified per instance by C05; the model "
    "uses the proved maxMatchSize on the specification graph est-w <= ref <= est+w)",
    "alignment.karaoke_perceptual_metric: Lean Float exp and an erf series vs scipy.stats.skewnorm.pdf, to 1e-9; "
    "its non-negativity theorem is stated for any exp >= 0 and erf >= -1 over an ordered field",
    "array shape faults (ndim, non-ndarray arguments, NaN/inf entries) are outside the model domain",
]
UNPROVED = [
    "alignment.karaoke_perceptual_metric is finite: Float-level claim, checked by the range oracle only "
    "(non-negativity is proved for every exp >= 0 / erf >= -1 interpretation)",
    "C06 for onset.f_measure / segment.detection within one binary64 rounding of the window edge: FALSE for the "
    "code (known finding window_tie_within_rounding); the swap theorems are about exact arithmetic",
    "util._fast_hit_windows enumerates exactly the pairs est-w <= ref <= est+w (shared with C05, compared there)",
]

MODULES = [onset, boundary, tempo, alignment]
SUITES, CHECKERS, ORACLES, IMPL = {}, {}, {}, {}
for _m in MODULES:
    SUITES.update(_m.SUITES)
    CHECKERS.update(_m.CHECKERS)
    ORACLES.update(_m.ORACLES)
    IMPL.update(_m.IMPL)

# C04: the model is the executable definition; a disagreeing correspondence case is re-run as an oracle input
CHECKERS["definition"] = mu.definition_checker(IMPL)


def classify(suite, d):
    return mu.classify_definition(d)
