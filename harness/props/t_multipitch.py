"""Scratch property module exercising the multipitch task slice (model, Props files, suites, metamorphic oracles)."""
from suites import multipitch as S

PID = "T_MULTIPITCH"
LEAN_MODULES = ["MirProofs.Props.C18", "MirProofs.Props.C01_Multipitch", "MirProofs.Props.C02_Multipitch",
                "MirProofs.Props.C04_Multipitch", "MirProofs.Props.C06_Multipitch", "MirProofs.Props.C07_Multipitch",
                "MirProofs.Props.C08_Multipitch", "MirProofs.Props.C09_Multipitch"]
RULE = "see harness/suites/multipitch.py"
ASSUMPTIONS = ["np.log2 / 2**x trusted (log-domain pitch model), >= 1/16 semitone margins"]
UNPROVED = []
SUITES = S.SUITES
classify = None
CHECKERS = S.META_CHECKERS
ORACLES = S.META_ORACLES
