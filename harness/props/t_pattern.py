"""T_PATTERN — scratch property module of the pattern task slice (C01/C02/C04/C06/C08 parts for mir_eval.pattern).

Correspondence suites come from harness/suites/pattern.py; the oracles below check the properties themselves on
the real code: range (C01), metric(x, x) (C02), swap (C06), time shift and reference permutation (C08).
"""
import math
from fractions import Fraction as Fr

import mir_eval
from mir_eval import pattern as mp

import core
import proto
from suites import pattern as sp

PID = "T_PATTERN"
LEAN_MODULES = ["MirProofs.Props.C01_Pattern", "MirProofs.Props.C02_Pattern", "MirProofs.Props.C04_Pattern",
                "MirProofs.Props.C06_Pattern", "MirProofs.Props.C08_Pattern"]
RULE = ("pattern lists on the 1/32 s lattice (0-4 patterns x 1-3 occurrences x 0-6 points), estimates derived from "
        "the reference by copying / translating / perturbing, thresholds placed exactly on attained scores, "
        "prototype differences exactly on the tolerance; plus a small universe (3 points) enumerated; "
        "non-trivial = both sides contain at least one point")
ASSUMPTIONS = [
    "valid pattern input has distinct points inside each occurrence (the code intersects sets but divides by len)",
    "binary64 decides `score >= thres` and `max|diff| < tol` like the rational model on the lattice stream "
    "(scores are single correctly rounded quotients of small integers); means of maxima agree to 1e-9",
]
UNPROVED = [
    "behaviour for a similarity_metric other than 'cardinality_score' (ValueError inside the loops) is modelled and "
    "compared by correspondence only; every theorem is about the default (only accepted) metric",
    "evaluate(): the theorems (self, shift, permutation) take similarity_metric as not passed; its key set and "
    "kwargs routing belong to C03 (the model mirrors the repaired routing: thres forced to 0.5 / 0.75)",
]
SUITES = dict(sp.SUITES)
EXHAUSTIVE = {"quick": False, "thorough": False}

EPS = 1e-9


# ---------------------------------------------------------------------------------------------
def load(x):
    """json / exact pattern list -> python structure for the real code"""
    return [[[(float(Fr(t)), int(Fr(m))) for (t, m) in occ] for occ in pat] for pat in x]


def shift(x, c):
    return [[[(t + c, m) for (t, m) in occ] for occ in pat] for pat in x]


def is_scalar(v):
    return isinstance(v, (int, float)) and not isinstance(v, bool) or hasattr(v, "dtype") and getattr(v, "ndim", 1) == 0


def in01(v):
    try:
        f = float(v)
    except Exception:  # noqa: BLE001
        return False
    return math.isfinite(f) and -EPS <= f <= 1 + EPS


FPR = [("establishment_FPR", lambda r, e: mp.establishment_FPR(r, e)),
       ("occurrence_FPR", lambda r, e: mp.occurrence_FPR(r, e)),
       ("occurrence_FPR(thres=.5)", lambda r, e: mp.occurrence_FPR(r, e, thres=0.5)),
       ("three_layer_FPR", lambda r, e: mp.three_layer_FPR(r, e))]


# C01 -----------------------------------------------------------------------------------------
def check_range(inp):
    r, e = load(inp["ref"]), load(inp["est"])
    for name, fn in FPR:
        out = fn(r, e)
        if len(out) != 3 or not all(is_scalar(v) and in01(v) for v in out):
            return "%s = %r not three scores in [0,1]" % (name, out)
    return None


def check_standard(inp):
    r, e = load(inp["ref"]), load(inp["est"])
    kw = {}
    if inp.get("tol") is not None:
        kw["tol"] = float(Fr(inp["tol"]))
    out = mp.standard_FPR(r, e, **kw)
    if len(out) != 3 or not all(is_scalar(v) for v in out):
        return "standard_FPR = %r is not a triple of scalars" % (out,)
    f, p, rec = out
    if not in01(rec):
        return "standard_FPR recall = %r outside [0,1]" % (rec,)
    if not in01(p):
        return "standard_FPR precision = %r outside [0,1]" % (p,)
    if not in01(f):
        return "standard_FPR F = %r outside [0,1]" % (f,)
    return None


def check_first_n(inp):
    r, e = load(inp["ref"]), load(inp["est"])
    n = 5 if inp.get("n") is None else inp["n"]
    for name, fn in (("first_n_three_layer_P", mp.first_n_three_layer_P),
                     ("first_n_target_proportion_R", mp.first_n_target_proportion_R)):
        v = fn(r, e, n=n)
        if not is_scalar(v):
            return "%s(n=%d) = %r is not a scalar" % (name, n, v)
        if not in01(v):
            return "%s(n=%d) = %r outside [0,1]" % (name, n, v)
    return None


# C02 -----------------------------------------------------------------------------------------
def check_self(inp):
    x = load(inp["ref"])
    if sp.n_onsets(inp["ref"]) == 0:
        return None
    y = load(inp["ref"])
    for name, fn in FPR + [("standard_FPR", lambda r, e: mp.standard_FPR(r, e)),
                           ("occurrence_FPR(thres=1)", lambda r, e: mp.occurrence_FPR(r, e, thres=1.0))]:
        out = fn(x, y)
        if tuple(float(v) for v in out) != (1.0, 1.0, 1.0):
            return "%s(x, x) = %r, expected (1, 1, 1)" % (name, out)
    n = max(len(x), 1)
    for name, fn in (("first_n_three_layer_P", mp.first_n_three_layer_P),
                     ("first_n_target_proportion_R", mp.first_n_target_proportion_R)):
        for k in (n, n + 3):
            v = fn(x, y, n=k)
            if not is_scalar(v) or float(v) != 1.0:
                return "%s(x, x, n=%d) = %r, expected 1 (%d patterns)" % (name, k, v, len(x))
    sc = mir_eval.pattern.evaluate(x, y, n=n)
    for k, v in sc.items():
        if not is_scalar(v) or float(v) != 1.0:
            return "evaluate(x, x)[%r] = %r, expected 1" % (k, v)
    return None


# C06 -----------------------------------------------------------------------------------------
def close(a, b, tol=EPS):
    return abs(float(a) - float(b)) <= tol


def check_swap(inp):
    r, e = load(inp["ref"]), load(inp["est"])
    for name, fn in FPR:
        f1, p1, r1 = fn(r, e)
        f2, p2, r2 = fn(e, r)
        if not (close(f1, f2) and close(p1, r2) and close(r1, p2)):
            return "%s: (F,P,R)(ref,est) = %r but (F,P,R)(est,ref) = %r" % (name, (f1, p1, r1), (f2, p2, r2))
    return None


# C08 -----------------------------------------------------------------------------------------
def all_scores(r, e, n=5):
    out = []
    for name, fn in FPR + [("standard_FPR", lambda r, e: mp.standard_FPR(r, e))]:
        out.append((name, tuple(float(v) for v in fn(r, e))))
    for name, fn in (("first_n_three_layer_P", mp.first_n_three_layer_P),
                     ("first_n_target_proportion_R", mp.first_n_target_proportion_R)):
        v = fn(r, e, n=n)
        out.append((name, tuple(float(x) for x in v) if isinstance(v, tuple) else (float(v),)))
    ev = mir_eval.pattern.evaluate(r, e, n=n)
    out.append(("evaluate", tuple(float(x) for v in ev.values() for x in (v if isinstance(v, tuple) else (v,)))))
    return out


def compare_scores(a, b, tol, what):
    for (name, u), (_, v) in zip(a, b):
        if len(u) != len(v) or any(abs(x - y) > tol for x, y in zip(u, v)):
            return "%s changes %s: %r -> %r" % (what, name, u, v)
    return None


def check_shift(inp):
    c = Fr(inp["c"])
    ref = [[[(Fr(t), Fr(m)) for (t, m) in occ] for occ in pat] for pat in inp["ref"]]
    est = [[[(Fr(t), Fr(m)) for (t, m) in occ] for occ in pat] for pat in inp["est"]]
    a = all_scores(load(ref), load(est), (5 if inp.get("n") is None else inp["n"]))
    b = all_scores(load(shift(ref, c)), load(shift(est, c)), (5 if inp.get("n") is None else inp["n"]))
    return compare_scores(a, b, 1e-12, "adding %s to every onset" % c)


def check_perm(inp):
    ref, est = inp["ref"], inp["est"]
    perm = inp["perm"]
    ref2 = [ref[i] for i in perm]
    a = all_scores(load(ref), load(est), (5 if inp.get("n") is None else inp["n"]))
    b = all_scores(load(ref2), load(est), (5 if inp.get("n") is None else inp["n"]))
    return compare_scores(a, b, EPS, "permuting the reference patterns by %r" % (perm,))


def valid_input(inp):
    """validity precondition of the properties: non-empty occurrences of distinct points"""
    for side in ("ref", "est"):
        for pat in inp[side]:
            if not pat:
                return False
            for occ in pat:
                pts = [(Fr(t), Fr(m)) for (t, m) in occ]
                if not pts or len(set(pts)) != len(pts):
                    return False
    return True


# C04 -----------------------------------------------------------------------------------------
def check_definition(inp):
    """the code against the executable definitions (the Lean model, proved equal to `Pattern.Spec` in
    Props/C04_Pattern.lean), on ONE input and parameter setting; afterwards every other property on it"""
    if not valid_input(inp):
        return None       # outside the valid domain no property is claimed (the broken tie is still reported)
    ref = [[[[Fr(t), Fr(m)] for (t, m) in occ] for occ in pat] for pat in inp["ref"]]
    est = [[[[Fr(t), Fr(m)] for (t, m) in occ] for occ in pat] for pat in inp["est"]]
    r, e = load(inp["ref"]), load(inp["est"])
    tol = None if inp.get("tol") is None else Fr(inp["tol"])
    thres = None if inp.get("thres") is None else Fr(inp["thres"])
    n = inp.get("n")
    kt = {} if tol is None else {"tol": float(tol)}
    kh = {} if thres is None else {"thres": float(thres)}
    kn = {} if n is None else {"n": n}
    kall = dict(kt, **kh)
    kall.update(kn)
    jobs = [
        ("pattern.standard_FPR", [ref, est, tol], lambda: mp.standard_FPR(r, e, **kt)),
        ("pattern.establishment_FPR", [ref, est, None], lambda: mp.establishment_FPR(r, e)),
        ("pattern.occurrence_FPR", [ref, est, thres, None], lambda: mp.occurrence_FPR(r, e, **kh)),
        ("pattern.three_layer_FPR", [ref, est], lambda: mp.three_layer_FPR(r, e)),
        ("pattern.first_n_three_layer_P", [ref, est, n], lambda: mp.first_n_three_layer_P(r, e, **kn)),
        ("pattern.first_n_target_proportion_R", [ref, est, n], lambda: mp.first_n_target_proportion_R(r, e, **kn)),
        ("pattern.evaluate", [ref, est, tol, thres, None, n], lambda: mir_eval.pattern.evaluate(r, e, **kall)),
    ]
    lines = ["%d %s %s\n" % (i, op, " ".join(proto.enc(a) for a in args)) for i, (op, args, _) in enumerate(jobs)]
    outs = core.run_driver(lines)
    for i, (op, args, call) in enumerate(jobs):
        _, mv = proto.dec_line(outs[i])
        iv = core.impl_result(call)
        d = proto.match(mv, iv, 1e-9)
        if d is not None:
            return "%s differs from its documented definition (tol=%s thres=%s n=%s): %s" % (op, tol, thres, n, d)
    return check_all(inp)


classify = sp.classify


def check_all(inp):
    """every other property on one valid (ref, est) pair"""
    try:
        for chk in (check_range, check_swap):
            w = chk(inp)
            if w:
                return w
        if len(inp["ref"]) <= len(inp["est"]):
            w = check_standard(inp)
            if w:
                return w
        w = check_first_n(inp)
        if w:
            return w
        w = check_shift(dict(inp, c="3/2"))
        if w:
            return w
        w = check_perm(dict(inp, perm=list(reversed(range(len(inp["ref"]))))))
        if w:
            return w
        return check_self({"ref": inp["ref"]}) or check_self({"ref": inp["est"]})
    except ZeroDivisionError:
        return None       # empty occurrence next to a non-empty one: outside the valid domain (DESIGN §8 #17)
    except ValueError:
        return None


CHECKERS = {
    "pattern.range": check_range,
    "pattern.standard_FPR": check_standard,
    "pattern.first_n": check_first_n,
    "pattern.self": check_self,
    "pattern.swap": check_swap,
    "pattern.shift": check_shift,
    "pattern.perm": check_perm,
    "pattern.all": check_all,
    "pattern.definition": check_definition,
}


# ---------------------------------------------------------------------------------------------
def valid_pair(rng):
    """valid input: every pattern has an occurrence, every occurrence is a non-empty set of distinct points"""
    while True:
        ref, est = sp.pair(rng)
        if all(len(o) > 0 for p in ref + est for o in p):
            return ref, est


def n_cases(tier, boost, q, t):
    return (q if tier == "quick" else t) * boost


def gen_range(rng, tier, shard, nshards, boost):
    for _ in range(n_cases(tier, boost, 60, 500)):
        ref, est = valid_pair(rng)
        yield {"ref": sp.ex(ref), "est": sp.ex(est)}


def gen_standard(rng, tier, shard, nshards, boost):
    for _ in range(n_cases(tier, boost, 60, 500)):
        ref, est, tol = sp.standard_pair(rng)
        if not all(len(o) > 0 for p in ref + est for o in p):
            continue
        yield {"ref": sp.ex(ref), "est": sp.ex(est), "tol": tol}


def gen_first_n(rng, tier, shard, nshards, boost):
    for _ in range(n_cases(tier, boost, 50, 400)):
        ref, est = valid_pair(rng)
        yield {"ref": sp.ex(ref), "est": sp.ex(est), "n": rng.choice([0, 1, 2, 3, 5])}


def gen_self(rng, tier, shard, nshards, boost):
    for _ in range(n_cases(tier, boost, 40, 300)):
        ref, _ = valid_pair(rng)
        if rng.random() < 0.2:
            ref = ref + sp.patterns(rng, nmax=6, allow_zero=False)
            if not all(len(o) > 0 for p in ref for o in p):
                continue
        yield {"ref": sp.ex(ref)}


def gen_swap(rng, tier, shard, nshards, boost):
    for _ in range(n_cases(tier, boost, 60, 500)):
        ref, est = valid_pair(rng)
        yield {"ref": sp.ex(ref), "est": sp.ex(est)}


def gen_shift(rng, tier, shard, nshards, boost):
    for _ in range(n_cases(tier, boost, 30, 250)):
        ref, est = valid_pair(rng)
        c = Fr(rng.randint(1, 40 * sp.LAT), sp.LAT)
        yield {"ref": sp.ex(ref), "est": sp.ex(est), "c": c, "n": rng.choice([1, 2, 5])}


def gen_perm(rng, tier, shard, nshards, boost):
    for _ in range(n_cases(tier, boost, 30, 250)):
        ref, est = valid_pair(rng)
        perm = list(range(len(ref)))
        rng.shuffle(perm)
        yield {"ref": sp.ex(ref), "est": sp.ex(est), "perm": perm, "n": rng.choice([1, 2, 5])}


ORACLES = {
    "pattern.range": gen_range,
    "pattern.standard_FPR": gen_standard,
    "pattern.first_n": gen_first_n,
    "pattern.self": gen_self,
    "pattern.swap": gen_swap,
    "pattern.shift": gen_shift,
    "pattern.perm": gen_perm,
}
