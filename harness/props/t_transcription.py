"""Scratch property module for the transcription slice: `./check t_transcription`.

Correspondence suites come from harness/suites/transcription.py; the oracles below check, on the real code and one
input at a time, the transcription part of C01 (range), C02 (self), C04/C05 (definition: feasible, one-to-one,
maximum pairing; P/R/F/AOR from it), C06 (swap), C07 (widening, nesting), C08 (shift, note order) and C09 (common
frequency factor).  The real property modules import the suites and these checkers.
"""
import math
from fractions import Fraction as Fr

import numpy as np

from mir_eval import transcription as T
from mir_eval import transcription_velocity as TV

from suites import transcription as S

PID = "T_TRANSCRIPTION"
LEAN_MODULES = ["MirProofs.Props.C01_Transcription", "MirProofs.Props.C02_Transcription",
                "MirProofs.Props.C04_Transcription", "MirProofs.Props.C05_Transcription",
                "MirProofs.Props.C06_Transcription", "MirProofs.Props.C07_Transcription",
                "MirProofs.Props.C08_Transcription", "MirProofs.Props.C09_Transcription"]
RULE = ("notes on the 1/16 s and 1/32 s lattices (sizes 0-10, duplicates, threshold coincidences, clusters where "
        "greedy pairing is not maximum), pitches on a 0.3-semitone lattice with >= 1 cent margin to the pitch "
        "tolerance; non-trivial = both annotations non-empty")
ASSUMPTIONS = [
    "np.log2 / 2**x are accurate to far better than 1 cent (pitch enters the model in the log domain)",
    "np.linalg.lstsq agrees with the closed-form least-squares line (minimum-norm solution when rank deficient) to 1e-7",
    "the transliteration of util._bipartite_match is unverified; its output is accepted only through the proved "
    "checker (validB + maxMatchSize) and compared pair-for-pair with the real routine",
]
UNPROVED = [
    "maximality of util._bipartite_match for all graphs (certified per explored instance by validB/maxMatchSize)",
]
SUITES = dict(S.SUITES)

KEYS = ["onset_tolerance", "pitch_tolerance", "offset_ratio", "offset_min_tolerance", "strict", "beta"]


# ---------------------------------------------------------------------------------------------
# json <-> exact values

def jnotes(notes):
    return [[str(x) for x in n] for n in notes]


def jparams(p):
    return {k: (v if isinstance(v, bool) or v is None else str(v)) for k, v in p.items()}


def unnotes(js):
    return [[Fr(x) for x in n] for n in js]


def unparams(jp):
    return {k: (v if isinstance(v, bool) or v is None else Fr(v)) for k, v in jp.items()}


def kwargs(p, keys=KEYS):
    return S.fkw(p, [k for k in keys if k in p])


def evaluate(ref, est, p):
    return T.evaluate(S.ivals(ref), S.pitches(ref), S.ivals(est), S.pitches(est), **kwargs(p))


# ---------------------------------------------------------------------------------------------
# independent executable definition (Fractions)

def round4(x):
    y = x * 10000
    f = y.numerator // y.denominator
    d = y - f
    if d < Fr(1, 2):
        n = f
    elif d > Fr(1, 2):
        n = f + 1
    else:
        n = f if f % 2 == 0 else f + 1
    return Fr(n, 10000)


def cmp(strict, d, t):
    return d < t if strict else d <= t


def onset_ok(p, r, e):
    return cmp(p["strict"], round4(abs(r[0] - e[0])), p["onset_tolerance"])


def offset_ok(p, r, e):
    tol = max(p["offset_ratio"] * (r[1] - r[0]), p["offset_min_tolerance"])
    return cmp(p["strict"], round4(abs(r[1] - e[1])), tol)


def pitch_ok(p, r, e):
    return cmp(p["strict"], 100 * abs(r[2] - e[2]), p["pitch_tolerance"])


def note_ok(p, r, e):
    return onset_ok(p, r, e) and pitch_ok(p, r, e) and (p["offset_ratio"] is None or offset_ok(p, r, e))


def max_matching(n_ref, n_est, ok):
    """independent augmenting-path maximum matching size"""
    adj = {i: [j for j in range(n_est) if ok(i, j)] for i in range(n_ref)}
    match_e = {}

    def try_i(i, seen):
        for j in adj[i]:
            if j in seen:
                continue
            seen.add(j)
            if j not in match_e or try_i(match_e[j], seen):
                match_e[j] = i
                return True
        return False
    return sum(1 for i in range(n_ref) if try_i(i, set()))


def check_pairs(pairs, n_ref, n_est, ok, what):
    rs = [a for a, _ in pairs]
    es = [b for _, b in pairs]
    if len(set(rs)) != len(rs) or len(set(es)) != len(es):
        return "%s: a note is used twice in %r" % (what, pairs)
    for a, b in pairs:
        if not (0 <= a < n_ref and 0 <= b < n_est) or not ok(a, b):
            return "%s: pair %r does not satisfy the criterion" % (what, (a, b))
    k = max_matching(n_ref, n_est, ok)
    if len(pairs) != k:
        return "%s: %d pairs returned, a pairing of size %d exists" % (what, len(pairs), k)
    return None


def overlap_ratio(r, e):
    return (min(r[1], e[1]) - max(r[0], e[0])) / (max(r[1], e[1]) - min(r[0], e[0]))


def f_measure(pr, rc, beta):
    if pr == 0 and rc == 0:
        return Fr(0)
    return (1 + beta * beta) * pr * rc / (beta * beta * pr + rc)


def close(x, y, tol=1e-9):
    return abs(float(x) - float(y)) <= tol * max(1.0, abs(float(y)))


def expect_prf(got, k, ref, est, beta, what):
    if not ref or not est:
        exp = (Fr(0), Fr(0), Fr(0))
    else:
        pr, rc = Fr(k, len(est)), Fr(k, len(ref))
        exp = (pr, rc, f_measure(pr, rc, beta))
    for name, g, x in zip(("precision", "recall", "F"), got, exp):
        if not close(g, x):
            return "%s: %s = %r, definition gives %s" % (what, name, float(g), x)
    return None


def check_definition(inp):
    ref, est, p = unnotes(inp["ref"]), unnotes(inp["est"]), unparams(inp["params"])
    ri, rp, ei, ep = S.ivals(ref), S.pitches(ref), S.ivals(est), S.pitches(est)
    beta = p["beta"]
    # notes (with the given offset_ratio, and without)
    for ratio in ([p["offset_ratio"], None] if p["offset_ratio"] is not None else [None]):
        q = dict(p)
        q["offset_ratio"] = ratio
        ok = (lambda i, j, q=q: note_ok(q, ref[i], est[j]))
        pairs = S.pairs_of(T.match_notes(ri, rp, ei, ep, **kwargs(q, S.K_NOTES)))
        what = check_pairs([tuple(x) for x in pairs], len(ref), len(est), ok, "match_notes(offset_ratio=%s)" % ratio)
        if what:
            return what
        got = T.precision_recall_f1_overlap(ri, rp, ei, ep, **kwargs(q))
        what = expect_prf(got[:3], len(pairs), ref, est, beta, "precision_recall_f1_overlap(offset_ratio=%s)" % ratio)
        if what:
            return what
        aor = (sum(overlap_ratio(ref[a], est[b]) for a, b in pairs) / len(pairs)) if (pairs and ref and est) else Fr(0)
        if not close(got[3], aor):
            return "average overlap ratio %r, definition over the returned pairing gives %s" % (float(got[3]), aor)
    # onsets
    pairs = S.pairs_of(T.match_note_onsets(ri, ei, **kwargs(p, S.K_ONSET)))
    what = check_pairs([tuple(x) for x in pairs], len(ref), len(est), lambda i, j: onset_ok(p, ref[i], est[j]),
                       "match_note_onsets")
    if what:
        return what
    what = expect_prf(T.onset_precision_recall_f1(ri, ei, **kwargs(p, S.K_ONSET + ["beta"])), len(pairs), ref, est,
                      beta, "onset_precision_recall_f1")
    if what:
        return what
    # offsets
    if p["offset_ratio"] is not None:
        pairs = S.pairs_of(T.match_note_offsets(ri, ei, **kwargs(p, S.K_OFFSET)))
        what = check_pairs([tuple(x) for x in pairs], len(ref), len(est), lambda i, j: offset_ok(p, ref[i], est[j]),
                           "match_note_offsets")
        if what:
            return what
        what = expect_prf(T.offset_precision_recall_f1(ri, ei, **kwargs(p, S.K_OFFSET + ["beta"])), len(pairs), ref,
                          est, beta, "offset_precision_recall_f1")
        if what:
            return what
    # evaluate() reports exactly these numbers
    d = evaluate(ref, est, p)
    exp = {}
    if p["offset_ratio"] is not None:
        exp.update(zip(["Precision", "Recall", "F-measure", "Average_Overlap_Ratio"],
                       T.precision_recall_f1_overlap(ri, rp, ei, ep, **kwargs(p))))
    q = dict(p)
    q["offset_ratio"] = None
    exp.update(zip(["Precision_no_offset", "Recall_no_offset", "F-measure_no_offset", "Average_Overlap_Ratio_no_offset"],
                   T.precision_recall_f1_overlap(ri, rp, ei, ep, **kwargs(q))))
    exp.update(zip(["Onset_Precision", "Onset_Recall", "Onset_F-measure"],
                   T.onset_precision_recall_f1(ri, ei, **kwargs(p, S.K_ONSET + ["beta"]))))
    if p["offset_ratio"] is not None:
        exp.update(zip(["Offset_Precision", "Offset_Recall", "Offset_F-measure"],
                       T.offset_precision_recall_f1(ri, ei, **kwargs(p, S.K_OFFSET + ["beta"]))))
    if list(d.keys()) != list(exp.keys()):
        return "evaluate keys %r" % (list(d.keys()),)
    for k in exp:
        if not close(d[k], exp[k], 1e-12):
            return "evaluate[%s] = %r but the metric function gives %r" % (k, d[k], exp[k])
    return None


def check_velocity_definition(inp):
    ref, est, p = unnotes(inp["ref"]), unnotes(inp["est"]), unparams(inp["params"])
    rv, ev, vt = [Fr(x) for x in inp["ref_vel"]], [Fr(x) for x in inp["est_vel"]], Fr(inp["vel_tol"])
    if not ref or not est:
        return None
    ri, rp, ei, ep = S.ivals(ref), S.pitches(ref), S.ivals(est), S.pitches(est)
    plain = [tuple(x) for x in S.pairs_of(T.match_notes(ri, rp, ei, ep, **kwargs(p, S.K_NOTES)))]
    diffs = S.vel_diffs(ref, est, rv, ev, plain)
    exp = [pr for pr, d in zip(plain, diffs) if d < vt]
    kw = kwargs(p, S.K_NOTES)
    kw["velocity_tolerance"] = float(vt)
    got = [tuple(x) for x in S.pairs_of(TV.match_notes(ri, rp, S.farr(rv), ei, ep, S.farr(ev), **kw))]
    if got != exp:
        return "velocity match_notes returned %r, regression + tolerance filter of %r gives %r" % (got, plain, exp)
    kw["beta"] = float(p["beta"])
    res = TV.precision_recall_f1_overlap(ri, rp, S.farr(rv), ei, ep, S.farr(ev), **kw)
    return expect_prf(res[:3], len(exp), ref, est, p["beta"], "velocity precision_recall_f1_overlap")


# ---------------------------------------------------------------------------------------------
# C01 range

PRF_KEYS = ["Precision", "Recall", "F-measure", "Precision_no_offset", "Recall_no_offset", "F-measure_no_offset",
            "Onset_Precision", "Onset_Recall", "Onset_F-measure", "Offset_Precision", "Offset_Recall",
            "Offset_F-measure"]
AOR_KEYS = ["Average_Overlap_Ratio", "Average_Overlap_Ratio_no_offset"]


def range_of(d, what):
    for k, v in d.items():
        v = float(v)
        if not math.isfinite(v):
            return "%s[%s] = %r is not finite" % (what, k, v)
        if k in AOR_KEYS:
            if v > 1.0 + 1e-9:
                return "%s[%s] = %r > 1" % (what, k, v)
        elif not (-1e-9 <= v <= 1.0 + 1e-9):
            return "%s[%s] = %r outside [0, 1]" % (what, k, v)
    return None


def check_range(inp):
    ref, est, p = unnotes(inp["ref"]), unnotes(inp["est"]), unparams(inp["params"])
    what = range_of(evaluate(ref, est, p), "transcription.evaluate")
    if what:
        return what
    if "ref_vel" in inp:
        rv, ev = [Fr(x) for x in inp["ref_vel"]], [Fr(x) for x in inp["est_vel"]]
        kw = kwargs(p)
        kw["velocity_tolerance"] = float(Fr(inp["vel_tol"]))
        d = TV.evaluate(S.ivals(ref), S.pitches(ref), S.farr(rv), S.ivals(est), S.pitches(est), S.farr(ev), **kw)
        return range_of(d, "transcription_velocity.evaluate")
    return None


# ---------------------------------------------------------------------------------------------
# C02 self

def self_ok(p, x):
    pos = (lambda t: t > 0) if p["strict"] else (lambda t: t >= 0)
    if not (pos(p["onset_tolerance"]) and pos(p["pitch_tolerance"])):
        return False
    if p["offset_ratio"] is not None:
        return all(pos(max(p["offset_ratio"] * (n[1] - n[0]), p["offset_min_tolerance"])) for n in x)
    return True


def check_self(inp):
    x, p = unnotes(inp["ref"]), unparams(inp["params"])
    d = evaluate(x, x, p)
    for k in PRF_KEYS:
        if k in d and float(d[k]) != 1.0:
            return "evaluate(x, x)[%s] = %r, expected 1" % (k, float(d[k]))
    return None


def check_self_aor(inp):
    x, p = unnotes(inp["ref"]), unparams(inp["params"])
    r = T.precision_recall_f1_overlap(S.ivals(x), S.pitches(x), S.ivals(x), S.pitches(x), **kwargs(p))
    if abs(float(r[3]) - 1.0) > 1e-9:
        return "Average_Overlap_Ratio of (x, x) = %r, expected 1 (pairing %r)" % (
            float(r[3]), S.pairs_of(T.match_notes(S.ivals(x), S.pitches(x), S.ivals(x), S.pitches(x), **kwargs(p, S.K_NOTES))))
    return None


# ---------------------------------------------------------------------------------------------
# C06 swap

def check_swap(inp):
    ref, est, p = unnotes(inp["ref"]), unnotes(inp["est"]), unparams(inp["params"])
    p["beta"] = Fr(1)
    a, b = evaluate(ref, est, p), evaluate(est, ref, p)
    for pk, rk, fk in (("Precision_no_offset", "Recall_no_offset", "F-measure_no_offset"),
                       ("Onset_Precision", "Onset_Recall", "Onset_F-measure")):
        if float(a[pk]) != float(b[rk]) or float(a[rk]) != float(b[pk]):
            return "swap: %s/%s = %r/%r but %r/%r after exchanging the roles" % (pk, rk, a[pk], a[rk], b[pk], b[rk])
        if not close(a[fk], b[fk], 1e-12):
            return "swap: %s = %r vs %r" % (fk, a[fk], b[fk])
    return None


# ---------------------------------------------------------------------------------------------
# C07 widening and nesting

def le(x, y):
    return float(x) <= float(y) + 1e-12


def check_widen(inp):
    ref, est = unnotes(inp["ref"]), unnotes(inp["est"])
    p, q = unparams(inp["params"]), unparams(inp["wider"])
    a, b = evaluate(ref, est, p), evaluate(ref, est, q)
    for k in PRF_KEYS:
        if k in a and k in b and not le(a[k], b[k]):
            return "widening %r -> %r lowered %s from %r to %r" % (inp["params"], inp["wider"], k, a[k], b[k])
    # nested criteria inside one result
    for d, nm in ((a, "params"), (b, "wider")):
        for s in ("Precision", "Recall", "F-measure"):
            chain = [d.get(s), d[s + "_no_offset"], d["Onset_" + s]]
            chain = [c for c in chain if c is not None]
            if any(not le(chain[i], chain[i + 1]) for i in range(len(chain) - 1)):
                return "nested criteria out of order for %s (%s): with offsets / without / onset-only = %r" % (s, nm, chain)
    if "ref_vel" in inp:
        rv, ev = [Fr(x) for x in inp["ref_vel"]], [Fr(x) for x in inp["est_vel"]]
        vt, vt2 = Fr(inp["vel_tol"]), Fr(inp["vel_tol_wider"])
        args = (S.ivals(ref), S.pitches(ref), S.farr(rv), S.ivals(est), S.pitches(est), S.farr(ev))
        v1 = TV.evaluate(*args, velocity_tolerance=float(vt), **kwargs(p))
        v2 = TV.evaluate(*args, velocity_tolerance=float(vt2), **kwargs(p))
        for k in v1:
            if k in PRF_KEYS:
                if not le(v1[k], a[k]):
                    return "with velocity %s = %r exceeds the score without velocity %r" % (k, v1[k], a[k])
                if not le(v1[k], v2[k]):
                    return "widening the velocity tolerance %s -> %s lowered %s from %r to %r" % (vt, vt2, k, v1[k], v2[k])
    return None


# ---------------------------------------------------------------------------------------------
# C08 shift / note order

def check_shift_perm(inp):
    ref, est, p = unnotes(inp["ref"]), unnotes(inp["est"]), unparams(inp["params"])
    c = Fr(inp["shift"])
    a = evaluate(ref, est, p)
    ref2 = [[n[0] + c, n[1] + c, n[2]] for n in ref]
    est2 = [[n[0] + c, n[1] + c, n[2]] for n in est]
    b = evaluate(ref2, est2, p)
    for k in a:
        if not close(a[k], b[k], 1e-12):
            return "shifting all times by %s changed %s from %r to %r" % (c, k, a[k], b[k])
    ref3 = [ref[i] for i in inp["perm_ref"]]
    est3 = [est[i] for i in inp["perm_est"]]
    d = evaluate(ref3, est3, p)
    for k in PRF_KEYS:
        if k in a and not close(a[k], d[k], 1e-12):
            return "reordering the notes changed %s from %r to %r" % (k, a[k], d[k])
    return None


# ---------------------------------------------------------------------------------------------
# C09 common frequency factor

def check_pitch_scale(inp):
    ref, est, p = unnotes(inp["ref"]), unnotes(inp["est"]), unparams(inp["params"])
    t = Fr(inp["semitones"])      # factor 2**(t/12); whole octaves when t is a multiple of 12
    a = evaluate(ref, est, p)
    ref2 = [[n[0], n[1], n[2] + t] for n in ref]
    est2 = [[n[0], n[1], n[2] + t] for n in est]
    if t % 12 == 0:
        k = 2.0 ** int(t / 12)
        b = T.evaluate(S.ivals(ref), S.pitches(ref) * k, S.ivals(est), S.pitches(est) * k, **kwargs(p))
    else:
        b = evaluate(ref2, est2, p)
    for key in a:
        if not close(a[key], b[key], 1e-12):
            return "multiplying all frequencies by 2**(%s/12) changed %s from %r to %r" % (t, key, a[key], b[key])
    return None


# ---------------------------------------------------------------------------------------------
# generators

def base_input(rng, nmax=8):
    lat, p, ref, est = S.instance(rng, nmax=nmax)
    return lat, p, ref, est, {"ref": jnotes(ref), "est": jnotes(est), "params": jparams(p), "lat": lat}


def n_of(tier, boost, quick, thorough):
    return (quick if tier == "quick" else thorough) * boost


def gen_definition(rng, tier, shard, nshards, boost):
    for _ in range(n_of(tier, boost, 120, 2500)):
        yield base_input(rng, nmax=rng.choice([8, 8, 10]))[4]


def with_velocity(rng, inp, ref, est):
    rv = S.velocities(rng, len(ref))
    ev = S.est_velocities(rng, rv, ref, est)
    inp["ref_vel"], inp["est_vel"] = [str(v) for v in rv], [str(v) for v in ev]
    inp["vel_tol"] = str(rng.choice([Fr(1, 10), Fr(1, 20), Fr(1, 4), Fr(1, 100), Fr(0), Fr(1)]))
    return inp


def gen_velocity_definition(rng, tier, shard, nshards, boost):
    for _ in range(n_of(tier, boost, 80, 2000)):
        lat, p, ref, est, rv, ev, vt = S.vel_instance(rng)
        yield {"ref": jnotes(ref), "est": jnotes(est), "params": jparams(p), "lat": lat,
               "ref_vel": [str(v) for v in rv], "est_vel": [str(v) for v in ev], "vel_tol": str(vt)}


def gen_range(rng, tier, shard, nshards, boost):
    for _ in range(n_of(tier, boost, 100, 2000)):
        lat, p, ref, est, inp = base_input(rng)
        u = rng.random()
        if u < 0.1:
            inp["est"] = []
        elif u < 0.2:
            inp["ref"] = []
        elif u < 0.3:
            inp["est"] = inp["ref"]
        elif u < 0.6 and ref and est:
            inp = with_velocity(rng, inp, ref, est)
        yield inp


def gen_self(rng, tier, shard, nshards, boost):
    n = 0
    while n < n_of(tier, boost, 120, 2500):
        lat, p, ref, est, inp = base_input(rng)
        x = ref if rng.random() < 0.6 else est
        if not x or not self_ok(p, x):
            continue
        n += 1
        yield {"ref": jnotes(x), "params": jparams(p), "lat": lat}


def gen_swap(rng, tier, shard, nshards, boost):
    for _ in range(n_of(tier, boost, 100, 2000)):
        yield base_input(rng)[4]


def loosen(rng, p):
    q = dict(p)
    which = rng.sample(["onset", "pitch", "ratio", "min", "strict", "drop"], rng.choice([1, 1, 2, 3]))
    if "onset" in which:
        q["onset_tolerance"] = p["onset_tolerance"] + rng.choice([Fr(0), Fr(1, 32), Fr(1, 16), Fr(1, 10000), Fr(1, 4)])
    if "pitch" in which:
        if p["pitch_tolerance"] == 0:
            q["pitch_tolerance"] = rng.choice([Fr(0), Fr(10), Fr(50)])
        else:
            q["pitch_tolerance"] = p["pitch_tolerance"] + rng.choice([Fr(0), Fr(30), Fr(60), Fr(300)])   # keeps the margin
    if "ratio" in which and p["offset_ratio"] is not None:
        q["offset_ratio"] = p["offset_ratio"] + rng.choice([Fr(0), Fr(1, 8), Fr(1, 4), Fr(1)])
    if "min" in which:
        q["offset_min_tolerance"] = p["offset_min_tolerance"] + rng.choice([Fr(0), Fr(1, 32), Fr(1, 16), Fr(1, 2)])
    if "strict" in which:
        q["strict"] = False
    if "drop" in which and rng.random() < 0.3:
        q["offset_ratio"] = None
    return q


def gen_widen(rng, tier, shard, nshards, boost):
    for _ in range(n_of(tier, boost, 100, 2000)):
        lat, p, ref, est, inp = base_input(rng)
        inp["wider"] = jparams(loosen(rng, p))
        if ref and est and rng.random() < 0.4:
            inp = with_velocity(rng, inp, ref, est)
            inp["vel_tol_wider"] = str(Fr(inp["vel_tol"]) + rng.choice([Fr(0), Fr(1, 100), Fr(1, 10), Fr(1)]))
        yield inp


def gen_shift_perm(rng, tier, shard, nshards, boost):
    for _ in range(n_of(tier, boost, 100, 2000)):
        lat, p, ref, est, inp = base_input(rng)
        inp["shift"] = str(Fr(rng.randint(0, 40 * lat), lat))
        pr, pe = list(range(len(ref))), list(range(len(est)))
        rng.shuffle(pr)
        rng.shuffle(pe)
        inp["perm_ref"], inp["perm_est"] = pr, pe
        yield inp


def gen_pitch_scale(rng, tier, shard, nshards, boost):
    for _ in range(n_of(tier, boost, 100, 2000)):
        lat, p, ref, est, inp = base_input(rng)
        inp["semitones"] = str(rng.choice([Fr(12), Fr(-12), Fr(24), Fr(-24), Fr(7), Fr(-5), Fr(1, 3), Fr(-19, 7)]))
        yield inp


CHECKERS = {
    "transcription.definition": check_definition,
    "transcription_velocity.definition": check_velocity_definition,
    "transcription.range": check_range,
    "transcription.self": check_self,
    "transcription.self_aor": check_self_aor,
    "transcription.swap": check_swap,
    "transcription.widen": check_widen,
    "transcription.shift_perm": check_shift_perm,
    "transcription.pitch_scale": check_pitch_scale,
}
ORACLES = {
    "transcription.definition": gen_definition,
    "transcription_velocity.definition": gen_velocity_definition,
    "transcription.range": gen_range,
    "transcription.self": gen_self,
    "transcription.self_aor": gen_self,
    "transcription.swap": gen_swap,
    "transcription.widen": gen_widen,
    "transcription.shift_perm": gen_shift_perm,
    "transcription.pitch_scale": gen_pitch_scale,
}


def classify(suite, d):
    """a disagreeing correspondence case is tried against the executable definition on the real code"""
    i = d.get("info") or {}
    if "ref" in i and "est" in i and "params" in i:
        inp = {"ref": i["ref"], "est": i["est"], "params": i["params"], "lat": i.get("lat")}
        if "ref_vel" in i:
            inp.update(ref_vel=i["ref_vel"], est_vel=i["est_vel"], vel_tol=i["vel_tol"])
            return "transcription_velocity.definition", inp
        return "transcription.definition", inp
    return None
