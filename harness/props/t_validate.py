"""Scratch property module for the validator slice of C14: every mir_eval validator vs lean/MirModel/Validate.lean,
the theorems of lean/MirProofs/Props/C14.lean, and the validator-level statement of C14 on the real code."""
from suites import validators

PID = "T_VALIDATE"
LEAN_MODULES = ["MirProofs.Props.C14"]
RULE = ("every mir_eval validator on a valid stream and on one generator per documented fault class (single faults, "
        "either side), plus degenerate shapes (0-d, empty, extra axes) and a few double faults; arrays are "
        "(shape, row-major data) descriptors with dyadic values that hit the documented bounds exactly (30000 s, "
        "20 / 5000 Hz, 0 and 1 for voicing / weight / tolerance, 100 sources, allclose thresholds with a margin); "
        "correspondence compares the exception class (ok / ValueError / InvalidChord / IndexError / TypeError) of "
        "model and code; the oracle checks on the code alone that `valid` streams return and `fault:` streams raise "
        "ValueError (InvalidChord for labels); non-trivial = some array argument is non-empty")
ASSUMPTIONS = [
    "NaN / inf array entries and non-ndarray containers are outside the model (Arr carries rationals)",
    "key strings are ASCII (str.split / str.lower are modelled on ASCII only)",
    "chord label validity enters chord.validate as a given Bool per label (C10 covers the label grammar)",
    "separation.validate sees a shape and one `silent` flag per source, computed by the harness from the data",
    "hierarchy.tmeasure / lmeasure: only the checks made before the computation are observed (the harness stubs "
    "_lca/_meet/_gauc while calling them)",
]
UNPROVED = [
    "task level: `total_f` for every metric function / evaluate() (valid input => a score) is not part of this slice",
    "V_total of validators that take `x.shape[0]` / `len(x)` holds for arrays with at least one axis only "
    "(0-d arrays provably escape as IndexError / TypeError: *_zero_dim theorems)",
]
SUITES = {"validators." + k: v for k, v in validators.SUITES.items()}
CHECKERS = validators.CHECKERS
ORACLES = validators.ORACLES
classify = validators.classify
